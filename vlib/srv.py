"""Server-stack harness: the real WorkflowServer runtime chain (ServerRuntimeDecorator over IdleReleaseDecorator over
PersistenceDecorator over a fresh SimRuntime) on virtual time, with process "lives" that can be killed and rebooted over
the same store, and store proxies for crash points and write faults.

Nothing here replaces repository code: the server is constructed by WorkflowServer.__init__ itself; only the module
global `basic_runtime` it reads is rebound to a fresh BasicRuntime subclass per life, so runs cannot leak between cases.
"""

from __future__ import annotations

import asyncio
import json
import os
import shutil
import tempfile
import typing
from typing import Any

from . import boot, genwf
from .boot import VClock

_m: dict[str, Any] = {}
ABORTS: list = []  # (virtual time, run_id) of every IdleReleaseDecorator._abort_inner_run call in this process


def M():
    if not _m:
        genwf.M()
        boot.seed_llama_agents()
        import llama_agents.server.server as server_mod
        import llama_agents.server._runtime.idle_release_runtime as idle_mod
        import llama_agents.server._runtime.persistence_runtime as pers_mod
        import llama_agents.server._runtime.server_runtime as srt_mod
        import llama_agents.server._service as service_mod
        import llama_agents.server._store.abstract_workflow_store as aws
        import llama_agents.server._store.memory_workflow_store as mws
        from llama_agents.server._store.sqlite.sqlite_workflow_store import SqliteWorkflowStore

        boot.patch_datetime(idle_mod, pers_mod, srt_mod, service_mod, aws, mws)
        # harness-side observer (no repository change): when does the idle-release decorator abort an inner run?
        _orig_abort = idle_mod.IdleReleaseDecorator._abort_inner_run

        def _abort_inner_run(self, run_id):
            ABORTS.append({"t": VClock.t, "run_id": run_id})
            return _orig_abort(self, run_id)

        idle_mod.IdleReleaseDecorator._abort_inner_run = _abort_inner_run
        _m.update(
            server_mod=server_mod,
            idle_mod=idle_mod,
            pers_mod=pers_mod,
            srt_mod=srt_mod,
            service_mod=service_mod,
            aws=aws,
            mws=mws,
            Sqlite=SqliteWorkflowStore,
            WorkflowServer=server_mod.WorkflowServer,
            HandlerQuery=aws.HandlerQuery,
        )
    return _m


# ------------------------------------------------------------------ stores


def tmp_root() -> str:
    base = "/dev/shm" if os.path.isdir("/dev/shm") and os.access("/dev/shm", os.W_OK) else None
    return tempfile.mkdtemp(prefix="vsrv-", dir=base)


def make_store(kind: str, tmpdir: str | None):
    m = M()
    if kind == "memory":
        return m["mws"].MemoryWorkflowStore()
    assert tmpdir is not None
    return m["Sqlite"](os.path.join(tmpdir, "wf.db"), poll_interval=1000.0)


class StoreProxy:
    """Forwards everything to the real store; can freeze the run after the k-th persisted tick and fail chosen writes."""

    def __init__(self, inner, *, crash_after_tick: int | None = None, fail_plan: dict | None = None, yields: list | None = None, latency: float = 0.0):
        self._inner = inner
        # virtual seconds every store call takes before it reaches the store (I/O latency): other tasks and timers run meanwhile
        # (a number, or {"read": r, "write": w}: writes slower than reads, as on most real stores)
        if isinstance(latency, dict):
            self._latency = float(latency.get("read", 0.0))
            self._wlatency = float(latency.get("write", 0.0))
        else:
            self._latency = self._wlatency = float(latency or 0.0)
        # a store with real I/O suspends inside its calls; the in-process stores never do.  `yields` = generated numbers of
        # event-loop yields inserted before each store call (cycled), so that races around store access can materialise.
        self._yields = list(yields or [])
        self._yi = 0
        self.crash_after_tick = crash_after_tick
        self.n_ticks = 0
        self.crashed = asyncio.Event()
        self.fail_plan = dict(fail_plan or {})  # method name -> list of 0/1 (1 = this call fails)
        self.calls: dict[str, int] = {}
        self.status_writes: list = []  # (t, run_id, status) of successful status writes
        self.injected = 0

    def __getattr__(self, name):
        attr = getattr(self._inner, name)
        if (not self._yields and not self._latency) or name.startswith("_") or not callable(attr):
            return attr
        import inspect

        if inspect.iscoroutinefunction(attr):

            async def with_yields(*a, **k):
                await self._pause()
                return await attr(*a, **k)

            return with_yields
        if inspect.isasyncgenfunction(attr):

            async def gen_with_yields(*a, **k):
                await self._pause()
                async for item in attr(*a, **k):
                    yield item

            return gen_with_yields
        return attr

    async def _pause(self, write: bool = False) -> None:
        lat = self._wlatency if write else self._latency
        if lat:
            await asyncio.sleep(lat)
        if not self._yields:
            return
        n = self._yields[self._yi % len(self._yields)]
        self._yi += 1
        for _ in range(n):
            await asyncio.sleep(0)

    def _should_fail(self, name: str) -> bool:
        i = self.calls.get(name, 0)
        self.calls[name] = i + 1
        plan = self.fail_plan.get(name) or []
        # "transient" is a statement about ONE logical write (the caller's retry loop): at most `max_consecutive` failures in a row
        # as seen by the task that is retrying.  Calls of other tasks to the same method may interleave (they do once the retry
        # pause is real), so the cap is kept per (method, calling task), not per method.
        key = (name, id(asyncio.current_task()))
        streak = getattr(self, "_streaks", None)
        if streak is None:
            streak = self._streaks = {}
        if i < len(plan) and plan[i] and streak.get(key, 0) < getattr(self, "max_consecutive", 2):
            streak[key] = streak.get(key, 0) + 1
            self.injected += 1
            return True
        streak[key] = 0
        return False

    def _span(self, name):
        sp = {"name": name, "t0": VClock.t, "t1": None, "ok": None}
        spans = self.__dict__.setdefault("write_spans", [])
        spans.append(sp)
        return sp

    async def append_tick(self, run_id, tick_data):
        sp = self._span("append_tick")
        try:
            await self._pause(write=True)
            await self._inner.append_tick(run_id, tick_data)
            sp["ok"] = True
        finally:
            sp["t1"] = VClock.t
        self.n_ticks += 1
        if self.crash_after_tick is not None and self.n_ticks >= self.crash_after_tick:
            self.crashed.set()
            await asyncio.Event().wait()  # the process is gone: this write never "returns"

    async def update_handler_status(self, run_id, **kw):
        cb = getattr(self, "on_status_write_start", None)
        if cb is not None:
            cb(run_id, kw)  # harness observer: a status write is about to begin (before its latency)
        sp = self._span("update_handler_status")
        try:
            await self._pause(write=True)
            if self._should_fail("update_handler_status"):
                sp["ok"] = False
                raise OSError("injected store write failure")
            await self._inner.update_handler_status(run_id, **kw)
            sp["ok"] = True
        finally:
            sp["t1"] = VClock.t
        if kw.get("status") is not None:
            self.status_writes.append((VClock.t, run_id, kw["status"]))

    async def update(self, handler):
        await self._pause(write=True)
        if self._should_fail("update"):
            raise OSError("injected store write failure")
        await self._inner.update(handler)
        self.status_writes.append((VClock.t, handler.run_id, handler.status))

    async def append_event(self, run_id, envelope):
        sp = self._span("append_event")
        try:
            await self._pause(write=True)
            if self._should_fail("append_event"):
                sp["ok"] = False
                raise OSError("injected store write failure")
            res = await self._inner.append_event(run_id, envelope)
            sp["ok"] = True
            return res
        finally:
            sp["t1"] = VClock.t


# ------------------------------------------------------------------ lives


class Life:
    def __init__(self, server, wf, born: set):
        self.server = server
        self.wf = wf
        self.born = born  # tasks that existed before this life (harness tasks)
        self.dead = False


async def start_life(store, wf_factory, *, idle_timeout: float = 1e9, backoff=(0.0, 0.0), name: str = "wf", keep: set | None = None) -> Life:
    m = M()
    born = set(asyncio.all_tasks())
    m["server_mod"].basic_runtime = genwf.make_runtime()
    server = m["WorkflowServer"](workflow_store=store, idle_timeout=idle_timeout, persistence_backoff=list(backoff), sse_heartbeat_interval=None)
    wf = wf_factory()
    server.add_workflow(name, wf)
    await server.start()
    life = Life(server, wf, born | (keep or set()))
    return life


async def kill_life(life: Life, keep: set | None = None) -> None:
    """The process stops: every task that belongs to this life disappears; nothing is flushed."""
    if life.dead:
        return
    life.dead = True
    spare = set(life.born) | (keep or set()) | {asyncio.current_task()}
    for _ in range(6):
        victims = [t for t in asyncio.all_tasks() if t not in spare and not t.done()]
        if not victims:
            break
        for t in victims:
            t.cancel()
        await asyncio.gather(*victims, return_exceptions=True)


async def handler_row(store, handler_id: str):
    m = M()
    rows = await store.query(m["HandlerQuery"](handler_id_in=[handler_id]))
    return rows[0] if rows else None


async def wait_terminal(store, handler_id: str, horizon: float, step: float = 1.0):
    """Poll the store on virtual time until the handler is terminal or the horizon is reached."""
    m = M()
    t_end = VClock.t + horizon
    row = None
    while True:
        row = await handler_row(store, handler_id)
        if row is not None and m["aws"].is_terminal_status(row.status):
            return row
        if VClock.t >= t_end:
            return row
        await asyncio.sleep(step)


def result_of(row):
    if row is None or row.result is None:
        return None
    r = row.result
    return getattr(r, "result", None)


# ------------------------------------------------------------------ deterministic workflow family


def det_strategy(*, timers: bool = False, hitl: bool = False):
    from hypothesis import strategies as st

    @st.composite
    def case(draw):
        chain = draw(st.integers(0, 2)) == 0  # a pure chain: one job handed over as a returned event (no ctx.send_event at all)
        n = 1 if chain else draw(st.integers(1, 4))
        attempts = draw(st.integers(1, 3))
        return {
            "jobs": [{"d": draw(st.sampled_from([0, 0, 1, 2, 3])), "fail": draw(st.integers(0, attempts - 1))} for _ in range(n)],
            "workers": draw(st.integers(1, 3)),
            "attempts": attempts,
            "retry_wait": draw(st.sampled_from([0, 0, 2, 5, 20])) if timers else 0,
            "send_mode": "mixed" if chain else draw(st.sampled_from(["send", "send", "mixed"])),
            "gather_post": draw(st.sampled_from([0, 0, 1])),
            "wait": draw(st.sampled_from([None, "plain", "req"])) if hitl else None,
            "wait_timeout": draw(st.sampled_from([None, None, 0, 4, 15])) if (hitl and timers) else None,  # 0 = the non-blocking form: TimeoutError unless the event is already there
            "ask_post": draw(st.sampled_from([0, 0, 3, 8])) if hitl else 0,
            # a workflow-level timeout far beyond every horizon: one more (long-lived, first-armed) entry in the loop's wake-up heap,
            # as every workflow with the default timeout has
            "wf_timeout": draw(st.sampled_from([None, 5000, 5000])) if timers else None,
            # the asking step first waits for an early confirmation (answered once by the harness) and only then for the reply:
            # two sequential waits in one step, so the step is parked on the later one with the earlier one settled
            "pre_wait": draw(st.sampled_from([False, False, True])) if hitl else False,
            # K more work items that carry no payload at all (equal-valued events sent back to back), handled by their own step
            "anon": draw(st.sampled_from([0, 0, 0, 2, 3])),
            "anon_workers": draw(st.integers(1, 2)),
            "anon_d": draw(st.sampled_from([0, 1, 2])),
            "ties": draw(st.lists(st.integers(0, 7), max_size=6)),
        }

    return case()


def det_factory(case: dict, log: dict):
    """A deterministic workflow: result is a function of the job list (and the reply payload)."""
    m = genwf.M()
    ge, step, Context, Workflow, rp = m["ge"], m["step"], m["Context"], m["Workflow"], m["rp"]
    jobs = case["jobs"]
    N = len(jobs)
    log.setdefault("work", [])
    log.setdefault("asked", [])
    log.setdefault("life", 0)

    K = case.get("anon", 0) or 0

    async def anon(self, ctx, ev):
        ent = {"life": log["life"], "t_in": VClock.t, "t_out": None, "exit": None}
        log.setdefault("anon", []).append(ent)
        try:
            if case.get("anon_d"):
                await asyncio.sleep(case["anon_d"])
            ent["exit"] = "returned"
            return ge.E4()
        except asyncio.CancelledError:
            ent["exit"] = "cancelled"
            raise
        finally:
            ent["t_out"] = VClock.t

    async def start(self, ctx, ev):
        log.setdefault("start", []).append({"life": log["life"], "t": VClock.t})
        last = N - 1 if case.get("send_mode") == "mixed" else N
        for _ in range(K):
            ctx.send_event(ge.E0())
        for i in range(last):
            ctx.send_event(ge.E1(idx=i))
        if last < N:
            return ge.E1(idx=N - 1)
        return None

    async def work(self, ctx, ev):
        i = ev.get("idx")
        ri = ctx.retry_info()
        ent = {"idx": i, "attempt": ri.retry_number, "life": log["life"], "t_in": VClock.t, "t_out": None, "exit": None}
        log["work"].append(ent)
        try:
            if jobs[i]["d"]:
                await asyncio.sleep(jobs[i]["d"])
            if ri.retry_number < jobs[i]["fail"]:
                raise ge.GenError(f"job{i}:{ri.retry_number}")
            await ctx.store.set(f"j{i}", i * 7 + 1)
            ent["exit"] = "returned"
            return ge.E2(idx=i)
        except asyncio.CancelledError:
            ent["exit"] = "cancelled"
            raise
        except BaseException:  # noqa: BLE001
            ent["exit"] = "raised"
            raise
        finally:
            ent["t_out"] = VClock.t

    async def gather(self, ctx, ev):
        got = ctx.collect_events(ev, [ge.E2] * N + [ge.E4] * K)
        if got is None:
            return None
        ids = sorted(e.get("idx") for e in got if isinstance(e, ge.E2))
        if case.get("gather_post"):
            await asyncio.sleep(case["gather_post"])
        return ge.E3(ids=ids)

    async def ask(self, ctx, ev):
        log.setdefault("ask_in", []).append(VClock.t)
        reply = None
        if case.get("pre_wait"):
            log.setdefault("pre_asked", []).append(VClock.t)
            await ctx.wait_for_event(ge.Reply2, waiter_id="pre", timeout=None)
            log.setdefault("pre_got", []).append(VClock.t)
        if case.get("wait"):
            req = {"key": "k"} if case["wait"] == "req" else None
            log.setdefault("wait_at", []).append(VClock.t)
            try:
                r = await ctx.wait_for_event(ge.Reply, waiter_id="ask", requirements=req, timeout=case.get("wait_timeout"))
                reply = r.get("key")
            except asyncio.TimeoutError:
                reply = "timeout"
            log["asked"].append({"life": log["life"], "t": VClock.t, "reply": reply})
            if case.get("ask_post"):
                await asyncio.sleep(case["ask_post"])  # work after the wait was settled (by a reply or by its timeout)
            await ctx.store.set("reply", reply)
        state = await ctx.store.get_state()
        data = dict(state.items()) if hasattr(state, "items") else dict(state)
        return ge.GStop(result={"ids": ev.get("ids"), "reply": reply, "store": {k: data[k] for k in sorted(data)}})

    def ann(fn, name, ev_t, ret_t):
        fn.__name__ = name
        fn.__qualname__ = f"DetWf.{name}"
        fn.__annotations__ = {"ctx": Context, "ev": ev_t, "return": ret_t}
        return fn

    Nn = type(None)
    U = typing.Union
    members = {
        "start": step(ann(start, "start", ge.GStart, U[ge.E1, ge.E0, Nn] if K else U[ge.E1, Nn])),
        **({"anon": step(num_workers=case.get("anon_workers", 1))(ann(anon, "anon", ge.E0, U[ge.E4, Nn]))} if K else {}),
        "work": step(num_workers=case["workers"], retry_policy=rp.retry_policy(wait=rp.wait_fixed(case.get("retry_wait", 0)), stop=rp.stop_after_attempt(case["attempts"])))(
            ann(work, "work", ge.E1, U[ge.E2, Nn])
        ),
        "gather": step(num_workers=1)(ann(gather, "gather", U[ge.E2, ge.E4] if K else ge.E2, U[ge.E3, Nn])),
        "ask": step(ann(ask, "ask", ge.E3, ge.GStop)),
    }
    cls = type("DetWf", (Workflow,), members)

    def factory():
        return cls(timeout=case.get("wf_timeout"))

    return factory


def expected_result(case: dict, reply: str | None):
    n = len(case["jobs"])
    store = {f"j{i}": i * 7 + 1 for i in range(n)}
    if case.get("wait"):
        store["reply"] = reply
    return {"ids": list(range(n)), "reply": reply if case.get("wait") else None, "store": {k: store[k] for k in sorted(store)}}


def cleanup_tmp(path: str | None) -> None:
    if path:
        shutil.rmtree(path, ignore_errors=True)


def canon(x) -> str:
    return json.dumps(x, sort_keys=True, default=repr)


# ------------------------------------------------------------------ human-in-the-loop accumulator workflow (C26 / C36)


def reply_factory(case: dict, log: dict):
    """A run that idles between external Reply events: every Reply is an ordinary step input (never lost to a missing
    waiter); the step records it in the state store and ends the run when `total` replies were recorded."""
    m = genwf.M()
    ge, step, Context, Workflow = m["ge"], m["step"], m["Context"], m["Workflow"]
    total = case["total"]
    log.setdefault("body", [])
    log.setdefault("life", 0)

    async def start(self, ctx, ev):
        await ctx.store.set("got", [])
        return None

    async def on_reply(self, ctx, ev):
        ent = {"n": ev.get("n"), "life": log["life"], "t_in": VClock.t, "t_out": None, "exit": None}
        log["body"].append(ent)
        try:
            if case.get("work"):
                await asyncio.sleep(case["work"])
            async with ctx.store.edit_state() as s:
                got = list(s.get("got", [])) + [ev.get("n")]
                s["got"] = got
            ent["exit"] = "returned"
            if case.get("fanout"):
                # hand the reply on to a second step with ctx.send_event (the event sits in the adapter mailbox when this step ends)
                ctx.send_event(ge.E1(n=ev.get("n")))
                return None
            if len(got) >= total:
                return ge.GStop(result={"got": sorted(got), "order": got})
            return None
        except asyncio.CancelledError:
            ent["exit"] = "cancelled"
            raise
        finally:
            ent["t_out"] = VClock.t

    async def post(self, ctx, ev):
        ent = {"n": ("post", ev.get("n")), "life": log["life"], "t_in": VClock.t, "t_out": None, "exit": None}
        log["body"].append(ent)
        try:
            if case.get("post_work"):
                await asyncio.sleep(case["post_work"])
            async with ctx.store.edit_state() as s:
                posts = list(s.get("posts", [])) + [ev.get("n")]
                s["posts"] = posts
                got = list(s.get("got", []))
            ent["exit"] = "returned"
            if len(posts) >= total:
                return ge.GStop(result={"got": sorted(got), "order": got, "posts": sorted(posts)})
            return None
        except asyncio.CancelledError:
            ent["exit"] = "cancelled"
            raise
        finally:
            ent["t_out"] = VClock.t

    def ann(fn, name, ev_t, ret_t):
        fn.__name__ = name
        fn.__qualname__ = f"ReplyWf.{name}"
        fn.__annotations__ = {"ctx": Context, "ev": ev_t, "return": ret_t}
        return fn

    Nn = type(None)
    U = typing.Union
    members = {
        "start": step(ann(start, "start", ge.GStart, U[ge.GStop, Nn])),
        "on_reply": step(num_workers=case.get("workers", 1))(ann(on_reply, "on_reply", ge.Reply, U[ge.GStop, ge.E1, Nn])),
        "post": step(num_workers=2)(ann(post, "post", ge.E1, U[ge.GStop, Nn])),
    }
    cls = type("ReplyWf", (Workflow,), members)
    return lambda: cls(timeout=None)


async def watch_release(cur: dict, run_id: str, obs: dict, period: float = 0.25):
    """Record when the run leaves / re-enters the idle-release decorator's active set, and the handler row at that moment."""
    was = True
    while True:
        await asyncio.sleep(period)
        lf = cur.get("life")
        if lf is None or lf.dead:
            was = True
            continue
        dec = lf.server._runtime._decorated
        active = run_id in dec._active_run_ids
        if was and not active:
            row = await handler_row(cur["store"], cur["handler_id"])
            obs.setdefault("released", []).append({"t": VClock.t, "idle_since_set": bool(row and row.idle_since), "status": row.status if row else None})
        if active and not was:
            obs.setdefault("reloaded", []).append(VClock.t)
        was = active
