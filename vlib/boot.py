"""Process bootstrap for every check: sys.path, shims, virtual clock.

Imported first by /verif/check.  Nothing from the repository is imported
before `install()` has run, so module-level default arguments such as
`get_time=time.monotonic` bind to the virtual functions.
"""

from __future__ import annotations

import asyncio
import datetime as _dt
import glob
import os
import sys
import time as _time
import types

VERIF = os.path.dirname(os.path.dirname(os.path.abspath(__file__)))
REPO = os.environ.get("VERIF_REPO", "/repo")

# real clocks, kept for wall-time measurement and watchdogs
REAL_PERF = _time.perf_counter
REAL_MONO = _time.monotonic
REAL_TIME = _time.time

EPOCH0 = 1_700_000_000.0
MONO0 = 5_000.0


class VClock:
    """One virtual instant, exposed through two different epochs."""

    t = 0.0
    enabled = False

    @classmethod
    def reset(cls) -> None:
        cls.t = 0.0


def _vtime() -> float:
    return EPOCH0 + VClock.t if VClock.enabled else REAL_TIME()


def _vmono() -> float:
    return MONO0 + VClock.t if VClock.enabled else REAL_MONO()


class VDateTime(_dt.datetime):
    @classmethod
    def now(cls, tz=None):  # type: ignore[override]
        return cls.fromtimestamp(_time.time(), tz=tz)

    @classmethod
    def utcnow(cls):  # type: ignore[override]
        return cls.fromtimestamp(_time.time(), tz=_dt.timezone.utc).replace(tzinfo=None)


class Quiescent(Exception):
    """Raised by VLoop when the loop would block forever (nothing can happen)."""


class Runaway(BaseException):
    """The loop spun without virtual time advancing (livelock at one instant) or exceeded the real-time budget."""


SPIN_LIMIT = 300_000
CASE_REAL_SECONDS = 60.0


class VLoop(asyncio.SelectorEventLoop):
    """Event loop on virtual time: select() never blocks, it jumps the clock."""

    def __init__(self) -> None:
        super().__init__()
        sel = self._selector
        orig = sel.select
        self._spins = 0
        self._calls = 0
        self._t0 = REAL_PERF()

        def select(timeout=None):
            ev = orig(0)
            if ev:
                return ev
            if timeout is None:
                raise Quiescent()
            self._calls += 1
            if self._calls % 4096 == 0 and REAL_PERF() - self._t0 > CASE_REAL_SECONDS:
                raise Runaway(f"case exceeded {CASE_REAL_SECONDS}s real time at t={VClock.t}")
            if timeout > 0:
                VClock.t += timeout
                self._spins = 0
            else:
                self._spins += 1
                if self._spins > SPIN_LIMIT:
                    raise Runaway(f"no virtual progress for {SPIN_LIMIT} loop iterations at t={VClock.t}")
            return ev

        sel.select = select  # type: ignore[method-assign]

    def time(self) -> float:
        return MONO0 + VClock.t


def run_virtual(coro_fn, *args, **kwargs):
    """Run `coro_fn(*args)` to completion on a fresh VLoop with a fresh clock.

    Returns (result, quiescent: bool).  `quiescent` means the loop would have
    blocked forever before the coroutine finished.  All leftover tasks are
    cancelled and awaited, the loop is closed; nothing outlives the case.
    An exception raised by the coroutine itself propagates (harness error).
    """
    VClock.reset()
    VClock.enabled = True
    loop = VLoop()
    asyncio.set_event_loop(loop)
    quiescent = False
    result = None
    error: BaseException | None = None
    main = loop.create_task(coro_fn(*args, **kwargs))
    # Watchdog for SYNCHRONOUS loops in the code under test (a reducer that never returns never comes back to the selector, so the
    # selector-side guards above cannot see it): a real-time alarm, twice the per-case budget, raises Runaway inside whatever is running.
    hit = {"alarm": False}
    armed = False
    old_handler = None
    try:
        import signal as _signal

        def _on_alarm(_signum, _frame):
            hit["alarm"] = True
            raise Runaway(f"case exceeded {2 * CASE_REAL_SECONDS}s real time inside one callback (synchronous loop) at t={VClock.t}")

        old_handler = _signal.signal(_signal.SIGALRM, _on_alarm)
        _signal.setitimer(_signal.ITIMER_REAL, 2 * CASE_REAL_SECONDS)
        armed = True
    except (ValueError, AttributeError, OSError):  # not the main thread / no SIGALRM: no watchdog
        armed = False
    try:
        try:
            result = loop.run_until_complete(main)
        except Quiescent:
            quiescent = True
        except BaseException as e:  # noqa: BLE001
            error = e
    finally:
        if armed:
            try:
                _signal.setitimer(_signal.ITIMER_REAL, 0)
                _signal.signal(_signal.SIGALRM, old_handler if old_handler is not None else _signal.SIG_DFL)
            except (ValueError, OSError):
                pass
        if hit["alarm"] and not isinstance(error, Runaway):
            # asyncio stores a BaseException raised inside a task on that task; make sure the case still ends as a runaway
            error = Runaway(f"case exceeded {2 * CASE_REAL_SECONDS}s real time inside one callback (synchronous loop)")
        try:
            for _ in range(8):
                pending = [t for t in asyncio.all_tasks(loop) if not t.done()]
                if not pending:
                    break
                for t in pending:
                    t.cancel()
                try:
                    loop.run_until_complete(
                        asyncio.gather(*pending, return_exceptions=True)
                    )
                except BaseException:  # noqa: BLE001
                    pass
            try:
                loop.run_until_complete(loop.shutdown_asyncgens())
            except BaseException:  # noqa: BLE001
                pass
        finally:
            asyncio.set_event_loop(None)
            loop.close()
            VClock.enabled = False
    if error is not None:
        raise error
    return result, quiescent


_installed = False


def seed_pkg(name: str, path: str | None = None) -> None:
    """Pre-seed a bare package in sys.modules so its heavy __init__ is skipped."""
    if name in sys.modules:
        return
    m = types.ModuleType(name)
    m.__path__ = [path] if path else []  # type: ignore[attr-defined]
    m.__package__ = name
    sys.modules[name] = m
    parent, _, child = name.rpartition(".")
    if parent and parent in sys.modules:
        setattr(sys.modules[parent], child, m)


def install() -> None:
    global _installed
    if _installed:
        return
    _installed = True
    sys.dont_write_bytecode = True
    os.environ["PYTHONDONTWRITEBYTECODE"] = "1"
    try:
        import resource

        lim = int(os.environ.get("VERIF_MEM_GB", "6")) * (1 << 30)
        resource.setrlimit(resource.RLIMIT_AS, (lim, lim))
    except Exception:  # noqa: BLE001
        pass
    # virtual clock (inactive until VClock.enabled)
    _time.time = _vtime  # type: ignore[assignment]
    _time.monotonic = _vmono  # type: ignore[assignment]
    paths = [os.path.join(VERIF, "shims")]
    paths += sorted(glob.glob(os.path.join(REPO, "packages", "*", "src")))
    paths.append(os.path.join(REPO, "src"))
    for p in reversed(paths):
        if p not in sys.path:
            sys.path.insert(0, p)
    if VERIF not in sys.path:
        sys.path.insert(0, VERIF)
    import logging

    logging.disable(logging.CRITICAL)
    import warnings

    warnings.simplefilter("ignore")


def seed_llama_agents() -> None:
    """Make `llama_agents.<pkg>` importable without running heavy __init__s."""
    import llama_agents  # namespace package

    for pkg, sub in [
        ("llama-agents-server", "server"),
        ("llama-agents-core", "core"),
        ("llama-agents-control-plane", "control_plane"),
        ("llamactl", "cli"),
        ("llama-agents-dbos", "dbos"),
        ("llama-agents-agentcore", "agentcore"),
        ("llama-agents-appserver", "appserver"),
    ]:
        seed_pkg(
            f"llama_agents.{sub}",
            os.path.join(REPO, "packages", pkg, "src", "llama_agents", sub),
        )


def patch_datetime(*modules) -> None:
    for m in modules:
        if hasattr(m, "datetime"):
            m.datetime = VDateTime
