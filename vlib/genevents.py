"""Fixed pool of module-level event classes for generated workflows.

Module level so that qualified-name (de)serialisation and Context.from_dict work.
Every instance carries a unique dynamic field `uid` so deliveries can be matched one-to-one.
"""

from __future__ import annotations

from workflows.events import (
    Event,
    HumanResponseEvent,
    InputRequiredEvent,
    StartEvent,
    StopEvent,
)


class GStart(StartEvent):
    pass


class GStop(StopEvent):
    pass


class E0(Event):
    pass


class E1(Event):
    pass


class E2(Event):
    pass


class E3(Event):
    pass


class E4(Event):
    pass


class E5(Event):
    pass


class E0Sub(E0):
    """Subclass of a consumed type: must NOT be routed to steps accepting E0 (exact-type routing)."""


class Ask(InputRequiredEvent):
    pass


class Reply(HumanResponseEvent):
    pass


class Reply2(HumanResponseEvent):
    pass


class ReplySub(Reply):
    """Subclass of a waited-for type: must not resolve a wait for Reply."""


class Fin(HumanResponseEvent):
    """Harness-sent 'finish now' event; HumanResponseEvent subclass so validation accepts it."""


class Note(Event):
    """Stream-only event (write_event_to_stream)."""


class GenError(Exception):
    pass


class GenErrorB(Exception):
    pass


POOL = {
    c.__name__: c
    for c in [GStart, GStop, E0, E1, E2, E3, E4, E5, E0Sub, Ask, Reply, Reply2, ReplySub, Fin, Note]
}
ETYPES = ["E0", "E1", "E2", "E3", "E4", "E5"]
EXC = {
    "GenError": GenError,
    "GenErrorB": GenErrorB,
    "ValueError": ValueError,
    "KeyError": KeyError,
    "RuntimeError": RuntimeError,
    "TimeoutError": TimeoutError,
}
