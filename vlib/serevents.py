"""Module-level event / model / exception classes for serialisation round trips (C18)."""

from __future__ import annotations

from datetime import datetime
from enum import Enum
from typing import Optional

from pydantic import BaseModel, ConfigDict, Field

from workflows.events import Event, HumanResponseEvent, InputRequiredEvent, StartEvent, StopEvent


class Color(Enum):
    RED = "red"
    GREEN = "green"


class Inner(BaseModel):
    x: int = 0
    tags: list[str] = Field(default_factory=list)
    deep: Optional["Inner"] = None


class TypedEv(Event):
    i: int = 0
    s: str = ""
    f: float = 0.0
    b: bool = False
    opt: Optional[int] = None
    items: list[str] = Field(default_factory=list)
    mapping: dict[str, int] = Field(default_factory=dict)
    nested: Inner = Field(default_factory=Inner)
    when: datetime = datetime(2020, 1, 1)
    color: Color = Color.RED


class PlainEv(Event):
    pass


class MyStart(StartEvent):
    topic: str = ""


class TypedStop(StopEvent):
    code: int = 0
    note: str = ""


class AskEv(InputRequiredEvent):
    prompt: str = ""


class AnswerEv(HumanResponseEvent):
    answer: str = ""


class AliasEv(Event):
    """Typed fields that declare a serialization alias (camelCase on the wire)."""

    step_label: str = Field(default="", serialization_alias="stepLabel")
    percent_done: int = Field(default=0, serialization_alias="percentDone")


class AliasStop(StopEvent):
    """A typed field with a validation+serialization alias, constructible by name."""

    model_config = ConfigDict(populate_by_name=True)
    total_count: int = Field(default=0, alias="totalCount")


class AliasInner(BaseModel):
    model_config = ConfigDict(populate_by_name=True)
    item_count: int = Field(default=0, alias="itemCount")


class NestedAliasEv(Event):
    """A nested plain model whose field has an alias."""

    inner: AliasInner = Field(default_factory=AliasInner)


class StrictAliasInner(BaseModel):
    """A plain model whose field can only be populated through its alias (no populate_by_name): the usual shape of an SDK/API model."""

    item_count: int = Field(default=0, alias="itemCount")


class StrictNestedAliasEv(Event):
    inner: StrictAliasInner = Field(default_factory=StrictAliasInner)


class HarnessError(Exception):
    pass


EVENTS = {c.__name__: c for c in [TypedEv, PlainEv, MyStart, TypedStop, AskEv, AnswerEv, AliasEv, AliasStop, NestedAliasEv, StrictNestedAliasEv]}
EVENTS["Event"] = Event
EVENTS["StopEvent"] = StopEvent
EVENTS["StartEvent"] = StartEvent
class DecoratedError(Exception):
    """An exception whose text decorates its single argument (str(exc) != args[0]), like configparser.NoSectionError."""

    def __str__(self) -> str:
        return "step failed: " + super().__str__()


import configparser as _configparser  # noqa: E402

EXCS = {"DecoratedError": DecoratedError, "NoSectionError": _configparser.NoSectionError, "ValueError": ValueError, "RuntimeError": RuntimeError, "KeyError": KeyError, "TimeoutError": TimeoutError,
        "HarnessError": HarnessError, "Exception": Exception, "FileNotFoundError": FileNotFoundError, "ZeroDivisionError": ZeroDivisionError}
