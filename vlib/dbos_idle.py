"""C36 / C26, DBOS half: the REAL `DBOSIdleReleaseDecorator` (llama_agents/dbos/idle_release.py) over an emulated DBOS base.

Public surface (wired into vlib/props/c36.py and vlib/props/c26.py): `setup()`, `strategy(tier, bursts=False)`, `run_case(case) ->
CaseResult`, `RULE`, `ASSUMPTIONS`, `RULE_BURSTS`, `ASSUMPTIONS_BURSTS`, `FLAGS`, `in_domain(case)`.  C36 uses `strategy(tier)` (one send
per position, timing around the release); C26 uses `strategy(tier, bursts=True)` (CONCURRENT senders around the release / resume,
and the death of the releasing replica with senders polling across the crash timeout).

CASE FORMAT.  {"total": positions (= len(gaps) = len(work)), "idle_timeout", "gaps": [...], "work": [...], "workers", "wake",
"release_takes", "ties"} plus two OPTIONAL keys (absent = the behaviour before they existed, every older replay keeps its meaning):
  * "burst": list aligned with `gaps`, entry null or {"pre": [k0, k1(, k2)], "order": [permutation]}.  At that position, instead
    of one send, len(pre) (2-3) DISTINCT replies are sent concurrently: task i is the i-th task started at the instant of the send,
    yields pre[i] times to the event loop (`await asyncio.sleep(0)`) and then sends reply number first+order[i] through its own
    external adapter.  Replies are numbered consecutively over the positions (`_layout`); the workflow waits for the larger total;
    `work[p]` applies to every reply of position p; a wake-up `at` position p is armed by the first reply of p.  The driver goes on
    to the next position when every reply of the burst was processed.  Oracle: "in order" becomes "each reply exactly once, positions
    never go back" (the order among the replies of one burst is free); each step must have seen exactly the replies recorded before
    it in the final record.
  * "io_yields": list of ints, a cyclic supply of event-loop yields spent at the entry and at the exit of every emulated
    lifecycle-lock call (begin_release / complete_release / try_begin_resume) and DBOS call (retrieve / get_result / delete).
    Absent or empty: those calls never suspend.  Only admitted with FLAGS["resume_not_atomic"] (see below).

  * "crash" (C26 bursts only): {"release": k, "delay": [d_0, ...]} -- RELEASER CRASH.  The replica that started release number k (0-based
    count of granted begin_release calls; the strategy picks the release that precedes the mandatory burst) dies inside
    `complete_release` after the generated `release_takes` and before the write commits: the calling task
    (`_await_and_mark_released`) ends there with CancelledError, the row stays `releasing` with the instant of begin_release.  `delay`
    is aligned with the `pre` of the burst that meets that release: task i makes its first call d_i virtual seconds after the burst
    instant (number) or at the instant the stuck row is CRASH_TIMEOUT_SECONDS + x old ({"timeout": x}); then its `pre` yields.  In
    such a case every send runs as a task under a watchdog: a sender still pending CRASH_GRACE (30 s) after the later of (row age =
    crash timeout + 1 s, burst instant + 60 s) is cancelled and recorded with t_ret None -> `send_never_returned` (attributes
    releaser_crashed, first_call_before_crash_timeout, polls_after_crash_timeout).  `crashed_release_never_taken_over`: all senders
    returned but no `released` grant followed the crashed release.

OBSERVERS for the C26 clauses (active for every case, quiet for the C36 family on the unchanged tree):
  * every `EmuBase.run_workflow` records how many earlier base runs of the id are still alive (task not done); the life spans of
    `_ControlLoopRunner.run` per run id are recorded by genwf's probe -> `two_live_control_loops` if a base run is started while
    an earlier one is alive or two spans overlap.  (`DBOS.delete_workflow_async` of a run that is still executing forgets the id
    but leaves the old control loop running, as DBOS leaves the coroutine running when its rows are deleted.)
  * every call of `DBOSIdleReleaseDecorator._do_resume` (harness-side wrapper on the instance) and every `released` grant of
    try_begin_resume is placed in the lifecycle-lock log -> `released_run_resumed_twice` if one release is followed by two resume
    calls or two grants before the next release; `resume_of_unreleased_run` for a resume call before any release.
  * `send_raised` for any exception out of a (concurrent) send, e.g. the base's "already exists" / "No active workflow";
    `send_never_returned` for a send that is still pending when nothing is left that could wake it.

What runs unmodified (repository code): DBOSIdleReleaseDecorator with its internal/external run adapters (timer bookkeeping,
begin_release / TickIdleRelease / _await_and_mark_released, try_begin_resume / the `releasing` poll / _do_resume incl. the rebuild
from the tick log and the state carry-over), EventInterceptorDecorator, TickPersistenceDecorator (tick log), MemoryWorkflowStore
(handler row, ticks, state stores), the workflow engine (control loop, reducer, retry policy, waiters) and BasicRuntime's
adapters/queues.  The chain is the one `DBOSRuntime.build_server_runtime` builds: IdleRelease(EventInterceptor(TickPersistence(
<base>))), everything on the virtual-time loop (boot.run_virtual), so the decorator's `asyncio.sleep(idle_timeout)` and its 0.5 s
"releasing" poll are virtual-time timers.

EMULATED / TRUSTED (`ASSUMPTIONS` below says the same, one item per string):
  * third-party modules `dbos`, `asyncpg`, `sqlalchemy` are the import-only stand-ins of /verif/shims (unchanged).  The only two
    DBOS calls the decorator makes are given behaviour per case (attributes set on the stand-in class `dbos.DBOS`, restored
    afterwards):
      - `DBOS.retrieve_workflow_async(run_id)` -> a handle whose `get_result()` waits for the most recent base run with that id
        to end and returns its result / re-raises its error (unknown id: `DBOSNonExistentWorkflowError`);
      - `DBOS.delete_workflow_async(run_id)` -> forgets that run in the base runtime so the same id can be started again (in
        DBOS: deletes the workflow's rows).  A delete of a still-running run forgets the id but leaves the old control loop running
        (reported as `two_live_control_loops` as soon as another run is started under the id); it never happens on the unchanged tree.
  * the DBOS engine itself (`DBOSRuntime`, `InternalDBOSAdapter`, `ExternalDBOSAdapter`, DBOS.send/recv, journal) is replaced by
    `EmuBase`, a `BasicRuntime` subclass: asyncio queues instead of DBOS notifications (ZERO delivery latency), the generated
    tie-break of genwf.SimRuntime among simultaneously finished workers, and DBOS's durable per-run-id state store: the run's
    state store is `store.create_state_store(run_id)` of the workflow store (the object `_do_resume` reads the carried state
    from), and a `serialized_state` handed to `run_workflow` is written into it before the control loop starts -- what
    `DBOSRuntime.run_workflow` does with its Sqlite/Postgres state store.  (Consequence: dropping the `serialized_state`
    argument in `_do_resume` is invisible here, as it is with a DB-backed store.)  While a finished run has not been deleted
    its id stays taken (BasicRuntime raises "already exists"; DBOS would hand back the old, finished workflow).
  * `RunLifecycleLock` is an in-memory implementation of the documented state machine (create -> active; begin_release: CAS
    active->releasing; complete_release: releasing->released; try_begin_resume: None for missing/active, released->active returns
    `released`, `releasing` returns `releasing` unless older than crash_timeout_seconds).  All calls are instantaneous except
    that the releasing->released write takes the generated `release_takes` virtual seconds (so that sends can meet a run in
    state `releasing`).  The Postgres/SQLite locks are not run here (C26 runs the SQLite one).  THE HARNESS CALLS
    `lifecycle.create(run_id)` BEFORE STARTING THE RUN: nothing in `llama_agents.dbos` ever creates the row (DESIGN.md section 5
    item 16); without it no release can happen at all.
  * the handler row is inserted by the harness (`PersistentHandler(status="running", run_id=...)`), as `_WorkflowService` does;
    `journal_crud` is None (no DBOS journal here).
  * instants: VClock; `datetime.now` of idle_release / lifecycle / the stores reads the virtual clock.  All generated durations
    are dyadic rationals, so instants that are meant to coincide do coincide exactly.  One process, one replica.

DOMAIN RESTRICTIONS.  Each is a named switch in `FLAGS` (all False = the claimed domain; C36_DBOS_FLAGS="a,b" switches them on
for reproducing, ./check never does).  Every one of them hides behaviour of the UNCHANGED repository code that violates the
oracle and does not depend on how DBOS is emulated (reported to the main session; minimal cases, all with workers=1, ties=[],
release_takes=0):
  * multi_cycle            [REPAIRED in /repo by a `fix:` commit (the pending tick is now appended to the tick log in `_do_resume`); since
                           then several release/resume cycles per run ARE generated when the lifecycle lock is instantaneous
                           (release_takes == 0); with a slow releasing->released write the second cycle still trips the oracle
                           (`idle_run_not_released`, state `releasing`) in a way that was not analysed, so that corner stays excluded.]
                           Originally: at most ONE release/resume cycle per run.  `_do_resume` folds the pending tick into the rebuilt state
                           (`rebuild_state_from_ticks(init_state, [pending_tick])`) but the tick never passes `on_tick`, so it
                           is missing from the tick log; the step result that follows is logged.  The next resume replays the log
                           and raises `ValueError: Worker 0 not found in in_progress` out of `send_event` (lifecycle already
                           flipped to active, no run in memory).  {"total":2,"idle_timeout":1.0,"gaps":[1.5,1.5],"work":[0,0],
                           "wake":null} -> send_raised.
  * wake_step_outlasts_timer   [REPAIRED in /repo 47be180 (any tick the run processes cancels the pending release timer); this region and
                           `send_ties_with_wakeup` are generated since then.]  Originally:
                           the release timer is cancelled only by ticks that arrive through `wait_receive`.  A step started by
                           an internal timed wake-up (retry back-off) while the run is idle does not cancel it: if that step is
                           still running idle_timeout after the EARLIER idle announcement, the run is released in the middle of
                           it (step cancelled, handler stamped idle, the reply is not processed).  {"total":2,"idle_timeout":1.0,
                           "gaps":[0.25,0.25],"work":[3,0],"wake":{"kind":"retry","delay":0.25,"at":0}} -> released_while_busy.
                           Domain: retry delay + duration of the retried step < idle_timeout.
  * send_ties_with_wakeup  same root cause, other order: an external tick is RECEIVED (timer cancelled) while the loop is about to
                           process an internal wake-up; the wake-up's step ends, the reducer sees empty queues (the received tick
                           is not folded in yet), announces idleness and re-arms the timer; the received event's step then runs
                           with a live timer.  Needs the send at the very instant a wake-up is due, so the driver postpones such
                           a send by 2^-10 s.  {"total":2,"idle_timeout":2.0,"gaps":[0.5,0.25],"work":[12,12],
                           "wake":{"kind":"waiter","delay":0.25,"at":0}} -> released_while_busy.
  * exact_deadline         no send at exactly the instant the release timer fires.  The send finds the lifecycle `active` and
                           hands the event to the old run, the timer's CAS active->releasing succeeds all the same (nothing
                           re-checks idleness), TickIdleRelease follows the event into the mailbox: the event's step is started
                           and cancelled, the run is released with the event unprocessed and stays so until some later event
                           reloads it.  {"total":2,"idle_timeout":2.0,"gaps":["at",0.5],"work":[1,0],"wake":null} ->
                           replies_lost_or_duplicated (reply 0 accepted, never processed).  Sends 2^-10 s and 0.25 s before and
                           after the deadline ARE generated.
  * wake_after_release     a timed wake-up is always due BEFORE the release (delay < idle_timeout).  A retry back-off / waiter
                           timeout that is still pending when idle_timeout expires lives only in the control loop's wake-up heap:
                           the release drops it and the reload does not re-arm it (C14's subject, not C36's).
                           {"total":2,"idle_timeout":2.0,"gaps":[0.5,"just_after"],"work":[0,0],"wake":{"kind":"retry",
                           "delay":3.0,"at":0}} -> reply 0 never processed.
  * resume_not_atomic      (found by the C26 bursts) every lifecycle-lock / DBOS call the decorator makes returns without suspending,
                           so a resume (CAS released->active ... run_workflow) is ATOMIC with respect to other senders.  In
                           production each of these calls is database I/O.  `try_begin_resume` flips the row to `active` at the
                           START of the resume; a second sender that asks while the first is suspended inside `_do_resume`
                           (retrieve / get_result / store.query / append_tick / delete) gets None ("missing or active") and
                           hands its event to `self._decorated.send_event`, i.e. to the OLD, finished run: the event is accepted
                           and never processed (the run is released again with the reply missing, nobody reloads it), or --
                           between delete_workflow and run_workflow -- the send raises ("No active workflow"; DBOS: send to a
                           non-existent workflow).  Nothing else than the lifecycle row guards the resume (the in-process
                           decorator has `_reload_lock`).  {"total":2,"idle_timeout":1.0,"gaps":[0.5,3.0],"work":[0,0],
                           "workers":1,"wake":null,"release_takes":0,"ties":[],"burst":[null,{"pre":[0,0],"order":[0,1]}],
                           "io_yields":[1]} -> send_after_release_did_not_reload_run + replies_lost_or_duplicated (reply 2 accepted,
                           never processed); C26_DBOS_FLAGS=resume_not_atomic makes the burst strategy generate io_yields.
                           Emulation dependence: "an event sent to the finished old workflow is not delivered to the run
                           started under the same id after delete_workflow" (DBOS deletes the notifications of a deleted
                           workflow).  With the flag off the bursts still decide order/uniqueness of concurrent sends, the
                           simultaneous 0.5 s polls of several senders on a `releasing` run, the single resume per release and
                           any resume the decorator starts without awaiting it.
"""

from __future__ import annotations

import asyncio
import json
import os
import typing
from typing import Any

from hypothesis import strategies as st

from . import boot, genwf
from .boot import Runaway, VClock
from .runner import CaseResult

RUN_ID = "run-c36-dbos"
HANDLER_ID = "h1"
EPS = 1.0 / 1024  # dyadic: exact in every clock epoch used here
TOL = 1e-6
CRASH_GRACE = 30.0  # "eventually" for a sender that meets a crashed release: this long after the crash timeout elapsed / after its own first call
MARK_AFTER = 2.5  # the harness samples what a client sees this long after a run left memory (beyond the slowest release write + one poll)

# Domain switches (see module docstring).  Environment overrides exist only for reproducing the excluded behaviour by hand
# (C36_DBOS_FLAGS="multi_cycle,exact_deadline"); ./check never sets them.
# (wake_step_outlasts_timer and send_ties_with_wakeup are part of the claimed domain since the repository fix 47be180: the decorator now
#  cancels the pending release timer on every tick the run processes; they are kept as names for the history in the docstring)
FLAGS = {"multi_cycle": False, "exact_deadline": False, "wake_after_release": False, "wake_step_outlasts_timer": True, "send_ties_with_wakeup": True,
         "resume_not_atomic": False}
for _f in filter(None, (os.environ.get("C36_DBOS_FLAGS", "") + "," + os.environ.get("C26_DBOS_FLAGS", "")).split(",")):
    FLAGS[_f.strip()] = True

RULE = (
    "DBOS half: case = a human-in-the-loop run driven through the REAL DBOSIdleReleaseDecorator (chain of DBOSRuntime."
    "build_server_runtime over an emulated DBOS base, in-memory lifecycle lock, MemoryWorkflowStore) that idles between external "
    "events: `total` (2-5) Reply events are sent through the decorator's external adapter, each a generated time after the END of "
    "the run's last activity (a number on either side of idle_timeout I in {1,2,5,10}, or 2^-10 s / 0.25 s before / after the "
    "release deadline), each step working a generated time (0..12 s, also longer than I); optionally one step fails once and is "
    "retried after a back-off delay, or a step parks on wait_for_event(timeout=...) and the timeout fires while the run is idle "
    "(internal timed wake-ups: a second idle announcement with no received tick in between); the lock's releasing->released write "
    "takes 0/0.5/1 s. Oracle (exact instants, virtual time): (a) no release starts (CAS active->releasing) while a step body is "
    "executing or less than I after the last activity (step start/end, send); (b) every quiet interval longer than I of a run "
    "that is in memory has a release started exactly I after its start, the run leaves memory with IdleReleasedEvent, the "
    "lifecycle becomes `released` and the handler row carries idle_since; (c) a send that finds the run releasing/released "
    "returns with the run restarted under the same id, lifecycle active, idle_since cleared, and its reply is processed; at the "
    "end every reply was processed exactly once, in order, each step saw the replies recorded before it (state carried) and the "
    "run completed with the full list; (d) no send raises; an armed timed wake-up fires when due. Non-trivial = at least one "
    "release followed by a reload that continued the run to completion."
)
RULE_BURSTS = (
    "CONCURRENT SENDERS (C26 family, strategy(bursts=True)): 2-4 positions; at least one position -- whose gap lies 2^-10 s / 0.25 s "
    "before the release deadline, 2^-10 s / 0.25 s after it, or beyond it -- and each other position with probability 1/4 sends a burst "
    "of 2-3 DISTINCT replies concurrently: one task per reply, all started at the same virtual instant in a generated order, each "
    "yielding 0-3 times to the event loop before its send, so that the senders meet the run active just before the timer fires, "
    "`releasing` (slow releasing->released write: they poll together) or released (they race for the resume). The workflow waits for "
    "all replies. Oracle in addition to the above: every reply is processed exactly once (order among the replies of one burst is "
    "free, positions never go back; each step saw exactly the replies recorded before it); no send raises; per release at most one "
    "`released` grant and at most one _do_resume call before the next release, none before the first release; no base run is started "
    "while an earlier run of the id is alive and the control-loop life spans of the id never overlap. Non-trivial = the run completed "
    "and a burst hit a releasing/released run or landed within 0.25 s before the deadline (or the C36 rule). "
    "RELEASER CRASH (one in four of the cases whose mandatory burst follows a release): the replica that started that release dies after "
    "the old run left memory and before its releasing->released write commits (the write never commits, the handler row is not stamped "
    "idle, the row stays `releasing`); each sender of the burst makes its first call at its own generated instant: 0 / 0.25 s / 60 s after "
    "the burst instant (the row is younger than idle_release.CRASH_TIMEOUT_SECONDS: the sender is in the 0.5 s poll loop when the timeout "
    "elapses) or when the row is CRASH_TIMEOUT_SECONDS + {-0.25, -2^-10, 0, 2^-10, 0.25, 1} s old (first call on either side of the "
    "timeout, also while other senders are polling); virtual time runs on beyond the timeout. Oracle in addition: every such send "
    "returns -- a sender still pending 30 s after the row passed the crash timeout (and after the last arrival) is reported as "
    "`send_never_returned` --, the stuck run is taken over (`crashed_release_never_taken_over` if all senders returned and nobody was "
    "granted ownership) by exactly one resumer (the one-grant / one-_do_resume clause above), every reply is processed exactly once "
    "and the run completes; the clauses about the lifecycle becoming `released` and the handler row carrying idle_since are not "
    "applied to the one release whose releaser was killed."
)
ASSUMPTIONS_BURSTS = [
    "concurrent senders are tasks of one event loop (one process, one replica); their interleaving is the generated start order and the "
    "generated numbers of event-loop yields before each send",
    "restricted domain (vlib/dbos_idle.FLAGS['resume_not_atomic'] off): the emulated lifecycle-lock and DBOS calls never suspend, so a "
    "resume is atomic with respect to other senders; with suspending calls (as with a database) a second sender that finds the row "
    "already `active` hands its event to the old, finished run while the first is still inside _do_resume -- event lost or send raises; "
    "reported (module docstring), not claimed",
    "releaser crash = the decorator's background task _await_and_mark_released ends with CancelledError inside complete_release (not an "
    "`Exception`: no handler of the repository code sees it, nothing after that point runs); crash point: after the old run ended with "
    "IdleReleasedEvent (the DBOS workflow is finished, get_result returns), before the releasing->released write commits. A crash "
    "between begin_release and the end of the old control loop is NOT generated (it needs DBOS's recovery of a pending workflow, which "
    "is not emulated). The senders reach the same decorator object afterwards: at that crash point it holds no other in-process state "
    "for the run (timer popped, control loop ended), which is what another / a restarted replica holds",
    "the crash timeout is the value the decorator passes to try_begin_resume (read from idle_release.CRASH_TIMEOUT_SECONDS for placing "
    "the senders); `eventually` for a sender behind a crashed release = within 30 virtual seconds after the stuck row passed it",
]
ASSUMPTIONS = [
    "DBOS half runs the real DBOSIdleReleaseDecorator / EventInterceptorDecorator / TickPersistenceDecorator / MemoryWorkflowStore / control loop; "
    "`dbos`, `asyncpg`, `sqlalchemy` are the import-only stand-ins of /verif/shims",
    "EMULATED: DBOS.retrieve_workflow_async(run_id).get_result() = wait for the latest base run with that id and return its result; "
    "DBOS.delete_workflow_async(run_id) = forget that run so the id can be started again (set per case on the stand-in class dbos.DBOS)",
    "EMULATED: the DBOS engine (DBOSRuntime, its adapters, send/recv, journal) is a BasicRuntime subclass: asyncio queues with zero "
    "delivery latency, generated tie-break among simultaneously finished workers, and a durable per-run-id state store "
    "(store.create_state_store(run_id); a serialized_state passed to run_workflow is written into it before the loop starts)",
    "EMULATED: RunLifecycleLock is an in-memory implementation of the documented state machine; all calls instantaneous except a "
    "generated duration of the releasing->released write; the Postgres/SQLite locks are not run here",
    "the harness calls RunLifecycleLock.create(run_id) and inserts the handler row before starting the run (nothing in llama_agents.dbos "
    "creates the lifecycle row; without it no release happens); journal_crud=None; one process, one replica",
    "restricted domain (vlib/dbos_idle.FLAGS): several release/resume cycles per run only with an instantaneous lifecycle lock "
    "(release_takes == 0; with a slow releasing->released write at most one gap reaches the deadline); no send at exactly the release "
    "deadline; a timed wake-up is due before the release (delay < idle_timeout) -- behaviour of the unchanged code outside this domain "
    "is reported (module docstring, notes/C36-dbos-findings.md), not claimed.  (Since the repository fixes 5478692 and 47be180 several "
    "cycles, wake-up steps that outlast the earlier timer and sends at the instant a wake-up is due ARE generated.)",
]

_m: dict[str, Any] = {}


def setup() -> None:
    M()



def M():
    """Lazy imports of repository modules (after boot.install())."""
    if not _m:
        g = genwf.M()
        boot.seed_llama_agents()
        import dbos as dbos_mod
        import llama_agents.dbos.idle_release as idle_mod
        import llama_agents.dbos.journal.lifecycle as life_mod
        import llama_agents.server._runtime.event_interceptor as icpt_mod
        import llama_agents.server._runtime.persistence_runtime as pers_mod
        import llama_agents.server._store.abstract_workflow_store as aws
        import llama_agents.server._store.memory_workflow_store as mws
        from dbos._error import DBOSNonExistentWorkflowError
        from workflows.context.serializers import JsonSerializer
        from workflows.context.state_store import deserialize_state_from_dict, infer_state_type
        from workflows.runtime.types import ticks as ticks_mod

        boot.patch_datetime(idle_mod, life_mod, pers_mod, aws, mws)
        _m.update(
            g=g,
            dbos=dbos_mod,
            idle_mod=idle_mod,
            life_mod=life_mod,
            icpt_mod=icpt_mod,
            pers_mod=pers_mod,
            aws=aws,
            mws=mws,
            NoWf=DBOSNonExistentWorkflowError,
            JsonSerializer=JsonSerializer,
            deserialize_state_from_dict=deserialize_state_from_dict,
            infer_state_type=infer_state_type,
            ticks=ticks_mod,
        )
        _build_classes()
    return _m


# ---------------------------------------------------------------------------------------------------------- emulation


async def _no_io() -> None:
    return None


def _make_io(yields: list):
    """Cyclic supply of event-loop yields for the emulated lifecycle-lock / DBOS calls (empty list: the calls never suspend)."""
    if not yields:
        return _no_io
    pos = [0]

    async def io() -> None:
        k = yields[pos[0] % len(yields)]
        pos[0] += 1
        for _ in range(k):
            await asyncio.sleep(0)

    return io


def _build_classes() -> None:
    g = _m["g"]
    basic, plugin = g["basic"], g["plugin"]
    life_mod = _m["life_mod"]
    State = life_mod.RunLifecycleState
    Sim = type(genwf.make_runtime())  # BasicRuntime + generated tie-break among simultaneously finished workers

    class MemLifecycle(life_mod.RunLifecycleLock):
        """In-memory lock with the documented state machine; every call is recorded with its virtual instant."""

        def __init__(self, obs: dict, release_takes: float = 0.0, io: Any = None, crash_release: int | None = None):
            self.state: dict[str, Any] = {}
            self.updated: dict[str, float] = {}
            self.obs = obs
            self.release_takes = release_takes  # virtual seconds the releasing->released write takes (every other call is instantaneous)
            self.io = io or _no_io  # event-loop yields around the atomic effect of a call (case["io_yields"], FLAGS["resume_not_atomic"])
            # case["crash"]: the replica that started release number `crash_release` (0-based count of granted begin_release calls) dies
            # while its releasing->released write is outstanding: the write never commits, the row stays `releasing`
            self.crash_release = crash_release
            self.begun = 0

        def _rec(self, op: str, run_id: str, res: Any) -> None:
            self.obs["lock"].append({"t": VClock.t, "op": op, "res": getattr(res, "value", res), "state": getattr(self.state.get(run_id), "value", None)})

        def _set(self, run_id: str, s: Any) -> None:
            self.state[run_id] = s
            self.updated[run_id] = VClock.t

        async def create(self, run_id: str) -> None:
            self._set(run_id, State.active)
            self._rec("create", run_id, None)

        async def begin_release(self, run_id: str) -> bool:
            await self.io()
            ok = self.state.get(run_id) == State.active
            if ok:
                self._set(run_id, State.releasing)
                self.begun += 1
            self._rec("begin_release", run_id, ok)
            await self.io()
            return ok

        async def complete_release(self, run_id: str) -> None:
            if self.release_takes:
                await asyncio.sleep(self.release_takes)
            if self.crash_release is not None and self.begun - 1 == self.crash_release and "crash" not in self.obs:
                # RELEASER CRASH: the process dies here -- nothing after this point of the calling task runs (the write does not commit,
                # the handler row is not stamped idle).  CancelledError ends the decorator's background task the way the death of the
                # process does: it is not an `Exception`, so no handler of the repository code sees it.
                self.obs["crash"] = {"t": VClock.t, "t_begin": self.updated.get(run_id), "release": self.crash_release,
                                     "state": getattr(self.state.get(run_id), "value", None)}
                self._rec("releaser_crashed", run_id, None)
                raise asyncio.CancelledError()
            await self.io()
            ok = self.state.get(run_id) == State.releasing
            if ok:
                self._set(run_id, State.released)
            self._rec("complete_release", run_id, ok)
            await self.io()

        async def try_begin_resume(self, run_id: str, crash_timeout_seconds: float | None = None):
            await self.io()
            s = self.state.get(run_id)
            if s is None or s == State.active:
                res = None
            elif s == State.released or (crash_timeout_seconds is not None and VClock.t - self.updated[run_id] > crash_timeout_seconds):
                self._set(run_id, State.active)
                res = State.released
            else:
                res = State.releasing
            self._rec("try_begin_resume", run_id, res)
            await self.io()
            return res

    class EmuBase(Sim):  # type: ignore[misc, valid-type]
        """Stands in for DBOSRuntime: see the module docstring."""

        def __init__(self, wstore, obs: dict, io: Any = None):
            super().__init__()
            self.wstore = wstore
            self.obs = obs
            self.io = io or _no_io
            self.incarnations: dict[str, list] = {}  # run_id -> queues of every run started under that id (strong references)
            self._pending_state: dict[str, Any] = {}
            self.on_idle_end = None  # harness observer: called when a run under this runtime ended with IdleReleasedEvent

        def register(self, workflow):
            reg = super().register(workflow)
            orig = reg.workflow_run_fn
            base = self

            async def run_fn(init_state, start_event=None, tags=None):
                rid = basic.get_current_run_id()
                pend = base._pending_state.pop(rid, None)
                if pend is not None:
                    # DBOSRuntime._run_workflow: "Write initial state to DB before starting workflow"
                    await base._durable(rid, workflow).set_state(pend)
                return await orig(init_state, start_event, tags)

            return plugin.RegisteredWorkflow(workflow=reg.workflow, workflow_run_fn=run_fn, steps=reg.steps)

        def _durable(self, run_id, workflow):
            return self.wstore.create_state_store(run_id, state_type=_m["infer_state_type"](workflow))

        def run_workflow(self, run_id, workflow, init_state, start_event=None, serialized_state=None, serializer=None):
            ser = serializer or _m["JsonSerializer"]()
            if serialized_state:
                self._pending_state[run_id] = _m["deserialize_state_from_dict"](serialized_state, ser, state_type=_m["infer_state_type"](workflow))
            ext = super().run_workflow(run_id, workflow, init_state, start_event=start_event, serialized_state=None, serializer=ser)
            q = self._queues[run_id]
            q.state_store = self._durable(run_id, workflow)
            inc = self.incarnations.setdefault(run_id, [])
            inc.append(q)
            k = len(inc) - 1
            # (alive_before: base runs of this id whose task has not ended at the moment this one is started -- the C26 observer)
            self.obs["starts"].append({"t": VClock.t, "k": k, "carried": bool(serialized_state), "alive_before": sum(1 for o in inc[:-1] if not o.complete.done())})

            def done(task, k=k):
                if task.cancelled():
                    kind = "cancelled"
                elif task.exception() is not None:
                    kind = "error:" + type(task.exception()).__name__
                else:
                    kind = type(task.result()).__name__
                self.obs["ends"].append({"t": VClock.t, "k": k, "kind": kind})
                if kind == "IdleReleasedEvent" and self.on_idle_end is not None:
                    self.on_idle_end()

            q.complete.add_done_callback(done)
            return ext

        # -- the two DBOS calls of the decorator
        async def dbos_retrieve(self, run_id: str):
            await self.io()
            inc = self.incarnations.get(run_id)
            if not inc:
                raise _m["NoWf"](run_id)
            task = inc[-1].complete
            io = self.io

            class Handle:
                workflow_id = run_id

                async def get_result(self, *a, **k):
                    try:
                        return await asyncio.shield(task)
                    finally:
                        await io()

            return Handle()

        async def dbos_delete(self, run_id: str) -> None:
            await self.io()
            inc = self.incarnations.get(run_id) or []
            if inc and not inc[-1].complete.done():
                # DBOS deletes the rows of a workflow whose coroutine is still executing in this process: the old control loop
                # lives on next to whatever is started under the id afterwards (judged by the oracle: two_live_control_loops)
                self.obs["deleted_running"].append({"t": VClock.t, "k": len(inc) - 1})
            self._queues.pop(run_id, None)
            await self.io()

    _m.update(MemLifecycle=MemLifecycle, EmuBase=EmuBase, State=State)


# ---------------------------------------------------------------------------------------------------------- workflow


def _layout(case: dict) -> dict:
    """Reply numbering: position p (one per entry of `gaps`) sends `size[p]` distinct replies first[p] .. first[p]+size[p]-1
    (size 1 unless the position carries a burst); without bursts reply number == position."""
    bursts = case.get("burst") or []
    size = [len(bursts[p]["pre"]) if p < len(bursts) and bursts[p] else 1 for p in range(case["total"])]
    first = [sum(size[:p]) for p in range(case["total"])]
    pos_of = [p for p in range(case["total"]) for _ in range(size[p])]
    return {"size": size, "first": first, "pos_of": pos_of, "n": len(pos_of), "any": any(k > 1 for k in size)}


def _wf_factory(case: dict, log: dict, wake_evt: list):
    g = _m["g"]
    ge, step, Context, Workflow, rp = g["ge"], g["step"], g["Context"], g["Workflow"], g["rp"]
    lay = _layout(case)
    total = lay["n"]  # replies the run waits for (== case["total"] without bursts)
    work = [case["work"][p] for p in lay["pos_of"]]  # per reply number
    wake = case.get("wake") or {}
    kind = wake.get("kind")
    at = wake.get("at")
    if at is not None and at >= 0:
        at = lay["first"][at]  # the wake-up is armed by the first reply of that position

    def enter(name, n, attempt):
        ent = {"step": name, "n": n, "attempt": attempt, "t_in": VClock.t, "t_out": None, "exit": None, "saw": None}
        log["body"].append(ent)
        return ent

    def leave(ent, how):
        ent["exit"] = how
        ent["t_out"] = VClock.t
        for e in wake_evt:
            e.set()

    async def start(self, ctx, ev):
        a = ctx.retry_info().retry_number
        ent = enter("start", -1, a)
        try:
            if kind == "retry" and at == -1 and a == 0:
                raise ge.GenError("start:0")
            await ctx.store.set("started", True)  # (never resets "got": a retried start may run after the first replies)
            leave(ent, "returned")
            if kind == "waiter" and at == -1:
                return ge.E1(k=-1)
            return None
        except asyncio.CancelledError:
            leave(ent, "cancelled")
            raise
        except ge.GenError:
            leave(ent, "raised")
            raise

    async def on_reply(self, ctx, ev):
        n = ev.get("n")
        a = ctx.retry_info().retry_number
        ent = enter("on_reply", n, a)
        try:
            if work[n]:
                await asyncio.sleep(work[n])
            if kind == "retry" and at == n and a == 0:
                raise ge.GenError(f"reply{n}:0")
            async with ctx.store.edit_state() as s:
                seen = list(s.get("got", None) or [])
                got = seen + [n]
                s["got"] = got
                tmo = s.get("timeouts", 0)
            ent["saw"] = seen
            leave(ent, "returned")
            if len(got) >= total:
                return ge.GStop(result={"order": got, "timeouts": tmo})
            if kind == "waiter" and at == n:
                return ge.E1(k=n)
            return None
        except asyncio.CancelledError:
            leave(ent, "cancelled")
            raise
        except ge.GenError:
            leave(ent, "raised")
            raise

    async def watch(self, ctx, ev):
        ent = enter("watch", ev.get("k"), 0)
        try:
            await ctx.wait_for_event(ge.Reply2, waiter_id="watch", timeout=wake.get("delay"))
        except asyncio.TimeoutError:
            async with ctx.store.edit_state() as s:
                s["timeouts"] = s.get("timeouts", 0) + 1
            leave(ent, "timed_out")
            return None
        except asyncio.CancelledError:
            leave(ent, "cancelled")
            raise
        except BaseException:
            leave(ent, "waiting")  # the engine's control-flow exception that parks the step on its waiter
            raise
        leave(ent, "answered")
        return None

    def ann(fn, name, ev_t, ret_t):
        fn.__name__ = name
        fn.__qualname__ = f"DbosIdleWf.{name}"
        fn.__annotations__ = {"ctx": Context, "ev": ev_t, "return": ret_t}
        return fn

    Nn = type(None)
    U = typing.Union
    pol = {}
    if kind == "retry":
        pol = {"retry_policy": rp.retry_policy(wait=rp.wait_fixed(wake["delay"]), stop=rp.stop_after_attempt(3))}
    members = {
        "start": step(**pol)(ann(start, "start", ge.GStart, U[ge.GStop, ge.E1, Nn])),
        "on_reply": step(num_workers=case.get("workers", 1), **pol)(ann(on_reply, "on_reply", ge.Reply, U[ge.GStop, ge.E1, Nn])),
        "watch": step(ann(watch, "watch", ge.E1, U[ge.GStop, Nn])),
    }
    cls = type("DbosIdleWf", (Workflow,), members)
    return lambda runtime: cls(timeout=None, runtime=runtime)


# ---------------------------------------------------------------------------------------------------------- strategy

# gap kinds, all measured from the end of the last activity of the run (a step body ending, a send):
#   number            send that long after the last activity
#   "before"/"just_before"   0.25 s / 2^-10 s before the release deadline (last activity + idle_timeout)
#   "after"/"just_after"     0.25 s / 2^-10 s after it
#   "at"                     exactly at it (only with FLAGS["exact_deadline"])
SHORT = [0.25, 0.5, 0.75, 1.5, 3.0, 4.0, 7.0]
LONG = [1.5, 3.0, 4.0, 7.0, 12.0, 25.0, 40.0]
IDLE_TIMEOUTS = [1.0, 2.0, 5.0, 10.0]
WAKE_DELAYS = [0.25, 0.5, 1.0, 1.5, 3.0, 4.0, 7.0]
NEAR_BEFORE = ["before", "just_before"]
NEAR_AFTER = ["after", "just_after"]
OFFSET = {"before": -0.25, "just_before": -EPS, "at": 0.0, "just_after": EPS, "after": 0.25}


def strategy(tier: str = "quick", bursts: bool = False):
    """bursts=False: the C36 family (one send per position; unchanged).  bursts=True: the C26 family, see `_burst_strategy`."""
    if bursts:
        return _burst_strategy(tier)

    @st.composite
    def case(draw):
        total = draw(st.integers(2, 5))
        I = draw(st.sampled_from(IDLE_TIMEOUTS))
        short = [g for g in SHORT if g < I] + NEAR_BEFORE
        long_ = [g for g in LONG if g > I] + NEAR_AFTER + (["at"] if FLAGS["exact_deadline"] else [])
        # (several release/resume cycles per run: with an instantaneous lifecycle lock; see `multi_cycle` above)
        release_takes = draw(st.sampled_from([0, 0, 0, 0.5, 1.0]))
        if FLAGS["multi_cycle"] or (release_takes == 0 and draw(st.booleans())):
            gaps = [draw(st.sampled_from(short + long_)) for _ in range(total)]
        else:
            # at most one gap reaches the release deadline (biased towards having one)
            where = draw(st.sampled_from([None] + list(range(total)) * 2))
            gaps = [draw(st.sampled_from(long_ if i == where else short)) for i in range(total)]
        # virtual seconds the step of reply n works (also beyond idle_timeout: a run that is busy for longer than the timeout)
        work = [draw(st.sampled_from([0, 0, 0.5, 1, 3, 12])) for _ in range(total)]
        wake = None
        wk = draw(st.sampled_from([None, None, "retry", "waiter"]))
        if wk is not None:
            at = draw(st.integers(-1, total - 2))
            # the step the wake-up starts: the retried attempt of reply `at` (works work[at] again); start / the waiter re-run take no time
            woken = work[at] if (wk == "retry" and at >= 0) else 0
            delays = [d for d in WAKE_DELAYS if (d < I and (d + woken < I or FLAGS["wake_step_outlasts_timer"])) or (d >= I and FLAGS["wake_after_release"])]
            if not delays:
                work[at] = woken = 0
                delays = [d for d in WAKE_DELAYS if d < I]
            wake = {"kind": wk, "delay": draw(st.sampled_from(delays)), "at": at}
        return {
            "total": total,
            "idle_timeout": I,
            "gaps": gaps,
            "work": work,
            "workers": draw(st.integers(1, 2)),
            "wake": wake,
            # virtual seconds the lifecycle lock's releasing->released write takes: sends shortly after the deadline then find the run
            # in state `releasing` and have to wait for the release to complete
            "release_takes": release_takes,
            "ties": draw(st.lists(st.integers(0, 7), max_size=3)),
        }

    return case()


def _burst_strategy(tier: str = "quick"):
    """C26 family: as above, but at least one position -- the one whose gap lies just before / just after the release deadline or
    beyond it -- sends a BURST of 2-3 distinct replies concurrently (see the module docstring, CASE FORMAT)."""

    @st.composite
    def case(draw):
        total = draw(st.integers(2, 4))
        I = draw(st.sampled_from(IDLE_TIMEOUTS))
        short = [g for g in SHORT if g < I] + NEAR_BEFORE
        beyond = [g for g in LONG if g > I]
        release_takes = draw(st.sampled_from([0, 0, 0.5, 1.0]))
        where = draw(st.integers(0, total - 1))  # the position of the mandatory burst
        # its gap: just before the deadline (senders race the timer on an active run), just after it (run `releasing` when the
        # lock's releasing->released write is slow, else freshly released) or well beyond it (released, handler stamped idle)
        near = draw(st.sampled_from(NEAR_BEFORE + NEAR_AFTER * 2 + beyond[:2] * 2 + (["at"] if FLAGS["exact_deadline"] else [])))
        many = FLAGS["multi_cycle"] or (release_takes == 0 and draw(st.booleans()))
        gaps = [near if i == where else draw(st.sampled_from(short + NEAR_AFTER + beyond if many else short)) for i in range(total)]
        work = [draw(st.sampled_from([0, 0, 0, 0.5, 1, 3])) for _ in range(total)]

        def one_burst():
            k = draw(st.integers(2, 3))
            return {
                # task i is the i-th one started at the instant of the send, yields pre[i] times to the event loop and then sends
                # reply number first + order[i]
                "pre": [draw(st.integers(0, 3)) for _ in range(k)],
                "order": draw(st.permutations(list(range(k)))),
            }

        burst = [one_burst() if (i == where or draw(st.integers(0, 3)) == 0) else None for i in range(total)]
        wake = None
        wk = draw(st.sampled_from([None, None, None, "retry", "waiter"]))
        if wk is not None:
            at = draw(st.integers(-1, total - 2))
            woken = work[at] if (wk == "retry" and at >= 0) else 0
            delays = [d for d in WAKE_DELAYS if (d < I and (d + woken < I or FLAGS["wake_step_outlasts_timer"])) or (d >= I and FLAGS["wake_after_release"])]
            if not delays:
                work[at] = woken = 0
                delays = [d for d in WAKE_DELAYS if d < I]
            wake = {"kind": wk, "delay": draw(st.sampled_from(delays)), "at": at}
        c = {
            "total": total,
            "idle_timeout": I,
            "gaps": gaps,
            "work": work,
            "workers": draw(st.integers(1, 2)),
            "wake": wake,
            "release_takes": release_takes,
            "ties": draw(st.lists(st.integers(0, 7), max_size=3)),
            "burst": burst,
            # virtual seconds the tick-log write of the RELEASE tick takes (every other store call is instantaneous): the window between
            # begin_release / TickIdleRelease and the exit of the old control loop, in which "just after the deadline" sends then land
            "release_tick_write_takes": 0 if (many or release_takes) else draw(st.sampled_from([0, 0.25, 0.5])),
        }
        if FLAGS["resume_not_atomic"]:
            c["io_yields"] = draw(st.sampled_from([[], [1], [0, 2], [2, 0, 1], [1, 3], [3, 1, 0, 2]]))
        # RELEASER CRASH (drawn last: every draw above keeps its place): when the mandatory burst follows a release, one time in
        # four the replica that started that release dies before its releasing->released write commits, and each sender of the burst
        # arrives at its own generated instant on either side of the instant the stuck row becomes older than the crash timeout
        if _reaches(near, I) and draw(st.integers(0, 3)) == 0:
            c["crash"] = {
                "release": sum(1 for g in gaps[:where] if _reaches(g, I)),  # the release that precedes the burst
                "delay": [draw(st.sampled_from(CRASH_DELAYS)) for _ in burst[where]["pre"]],
            }
        return c

    return case()


def _reaches(gap, I: float) -> bool:
    """The gap lasts beyond the release deadline: a release precedes the send."""
    return gap in ("just_after", "after") or (isinstance(gap, (int, float)) and float(gap) > I)


# when a sender of the burst that meets a crashed release makes its first call: a number = that many seconds after the instant of the
# burst (the row is young: the sender polls), {"timeout": x} = at the instant the `releasing` row is CRASH_TIMEOUT_SECONDS + x old
CRASH_DELAYS = [0, 0, 0.25, 60.0, 60.0, {"timeout": -0.25}, {"timeout": -EPS}, {"timeout": 0.0}, {"timeout": EPS}, {"timeout": 0.25}, {"timeout": 1.0}]


def in_domain(case: dict) -> str | None:
    """None if the case lies in the claimed domain, else the name of the FLAGS switch that would admit it."""
    I = float(case["idle_timeout"])
    gaps = case["gaps"]
    if not FLAGS["exact_deadline"] and any(g == "at" or (isinstance(g, (int, float)) and float(g) == I) for g in gaps):
        return "exact_deadline"
    reach = [g for g in gaps if g in ("at", "just_after", "after") or (isinstance(g, (int, float)) and float(g) >= I)]
    if not FLAGS["multi_cycle"] and len(reach) > 1 and float(case.get("release_takes", 0) or 0) + float(case.get("release_tick_write_takes", 0) or 0) > 0:
        return "multi_cycle"
    if case.get("io_yields") and not FLAGS["resume_not_atomic"]:
        return "resume_not_atomic"
    w = case.get("wake")
    if w:
        woken = case["work"][w["at"]] if (w["kind"] == "retry" and w["at"] >= 0) else 0
        if w["delay"] >= I and not FLAGS["wake_after_release"]:
            return "wake_after_release"
        if w["delay"] < I <= w["delay"] + woken and not FLAGS["wake_step_outlasts_timer"]:
            return "wake_step_outlasts_timer"
    return None


# ---------------------------------------------------------------------------------------------------------- run


def _horizon(case: dict) -> float:
    tot = 0.0
    for g in case["gaps"]:
        tot += g if isinstance(g, (int, float)) else case["idle_timeout"] + 1.0
    tot += sum(w * k for w, k in zip(case["work"], _layout(case)["size"])) * 2 + case["idle_timeout"] * (case["total"] + 2) + 2 * (float(case.get("release_takes", 0) or 0) + float(case.get("release_tick_write_takes", 0) or 0))
    if case.get("wake"):
        tot += 3 * case["wake"]["delay"]
    if case.get("crash"):
        return 60.0 + 10.0 * tot + float(M()["idle_mod"].CRASH_TIMEOUT_SECONDS) + 2 * CRASH_GRACE
    return 60.0 + 10.0 * tot


def _drive(case: dict) -> dict:
    m = M()
    ge = m["g"]["ge"]
    I = float(case["idle_timeout"])
    obs: dict = {"lock": [], "starts": [], "ends": [], "emu_gap": [], "deleted_running": [], "resumes": [], "spans": [], "sends": [], "marks": [],
                 "final": None, "t_end": None}
    lay = _layout(case)
    bursts = case.get("burst") or []
    log: dict = {"body": []}
    wake_evt: list = []
    H = _horizon(case)
    DBOS = m["dbos"].DBOS
    saved = (DBOS.__dict__["retrieve_workflow_async"], DBOS.__dict__["delete_workflow_async"])

    def last_activity() -> float:
        ts = [0.0] + [b["t_out"] for b in log["body"] if b["t_out"] is not None] + [s["t"] for s in obs["sends"]]
        return max(ts)

    def busy() -> bool:
        return any(b["t_out"] is None for b in log["body"])

    def wake_due_now() -> bool:
        w = case.get("wake")
        if not w:
            return False
        armed = "raised" if w["kind"] == "retry" else "waiting"
        return any(b["exit"] == armed and abs(b["t_out"] + w["delay"] - VClock.t) <= TOL for b in log["body"])

    async def until_quiet_for(off: float) -> None:
        """Return at the first instant that lies `off` after the end of the run's last activity."""
        while VClock.t < H:
            la = last_activity()
            if not busy() and VClock.t >= la + off - 1e-12:
                if not FLAGS["send_ties_with_wakeup"] and wake_due_now():
                    # domain restriction: no send at the very instant an armed internal wake-up is due; the wake-up goes first
                    # and is activity of the run, so the gap is measured anew from it
                    await asyncio.sleep(EPS)
                    continue
                return
            if busy():
                ev = asyncio.Event()
                wake_evt.append(ev)
                try:
                    await asyncio.wait_for(ev.wait(), timeout=max(H - VClock.t, 0.001))
                except (asyncio.TimeoutError, TimeoutError):
                    pass
                finally:
                    wake_evt.remove(ev)
                await asyncio.sleep(0)
                continue
            await asyncio.sleep(la + off - VClock.t)

    async def main():
        rec = genwf.CUR = genwf.Rec({"ties": case.get("ties", []), "ext": []})
        slow_release_tick = float(case.get("release_tick_write_takes", 0) or 0)

        class _Store(m["mws"].MemoryWorkflowStore):
            async def append_tick(self, run_id, tick_data):  # noqa: ANN001
                if slow_release_tick and isinstance(tick_data, dict) and tick_data.get("type") == "idle_release":
                    await asyncio.sleep(slow_release_tick)
                await super().append_tick(run_id, tick_data)

        store = _Store()
        io = _make_io(list(case.get("io_yields") or []))
        base = m["EmuBase"](store, obs, io)
        crash = case.get("crash") or None
        CT = float(m["idle_mod"].CRASH_TIMEOUT_SECONDS)
        lock = m["MemLifecycle"](obs, float(case.get("release_takes", 0) or 0), io, crash_release=crash["release"] if crash else None)
        DBOS.retrieve_workflow_async = staticmethod(base.dbos_retrieve)
        DBOS.delete_workflow_async = staticmethod(base.dbos_delete)
        runtime = m["idle_mod"].DBOSIdleReleaseDecorator(
            m["icpt_mod"].EventInterceptorDecorator(m["pers_mod"].TickPersistenceDecorator(base, store)),
            store,
            idle_timeout=I,
            lifecycle_lock=lambda: lock,
        )
        # C26 observer: every call of the decorator's _do_resume (harness-side wrapper on the instance; the method itself runs unmodified).
        # "i" = length of the lifecycle-lock log at the call: places the call between the lock operations.
        real_resume = runtime._do_resume

        async def observed_resume(run_id, pending_tick=None):
            ent = {"t": VClock.t, "i": len(obs["lock"]), "t_ret": None, "outcome": None}
            obs["resumes"].append(ent)
            try:
                res = await real_resume(run_id, pending_tick=pending_tick)
                ent["outcome"] = "returned"
                return res
            except BaseException as e:  # noqa: BLE001
                ent["outcome"] = "raised:" + type(e).__name__
                raise
            finally:
                ent["t_ret"] = VClock.t

        runtime._do_resume = observed_resume
        wf = _wf_factory(case, log, wake_evt)(runtime)
        store.handlers[HANDLER_ID] = m["aws"].PersistentHandler(
            handler_id=HANDLER_ID, workflow_name=wf.workflow_name, status="running", run_id=RUN_ID, started_at=boot.VDateTime.now(boot._dt.timezone.utc)
        )
        await lock.create(RUN_ID)
        handler = wf.run(run_id=RUN_ID, start_event=ge.GStart())
        external = runtime.get_external_adapter(RUN_ID)

        def row():
            return store.handlers.get(HANDLER_ID)

        async def mark(tag: str):
            """What a client would see now: lifecycle state, handler row, whether a run with that id is in memory."""
            inc = base.incarnations.get(RUN_ID) or []
            h = row()
            obs["marks"].append(
                {"t": VClock.t, "tag": tag, "state": getattr(lock.state.get(RUN_ID), "value", None), "idle_since": bool(h and h.idle_since),
                 "status": h.status if h else None, "in_memory": bool(inc and not inc[-1].complete.done())}
            )

        async def mark_later():
            await asyncio.sleep(MARK_AFTER)
            await mark("after_release")

        watchers: list = []
        base.on_idle_end = lambda: watchers.append(asyncio.ensure_future(mark_later()))

        try:
            for p, gap in enumerate(case["gaps"]):
                n = lay["first"][p]
                off = float(gap) if isinstance(gap, (int, float)) else I + OFFSET[gap]
                await until_quiet_for(off)
                if VClock.t >= H:
                    break
                await mark(f"before_send{n}")
                b = bursts[p] if p < len(bursts) else None
                if crash and not b:
                    b = {"pre": [0], "order": [0]}  # (crash cases: every send runs as a task under the watchdog below)
                if not b:
                    ent = {"n": n, "t": VClock.t, "gap": gap, "quiet_for": VClock.t - last_activity(), "state_before": obs["marks"][-1]["state"], "error": None, "t_ret": None}
                    obs["sends"].append(ent)
                    try:
                        await external.send_event(m["ticks"].TickAddEvent(event=ge.Reply(n=n)))
                    except Exception as e:  # noqa: BLE001
                        ent["error"] = f"{type(e).__name__}: {e}"[:200]
                    ent["t_ret"] = VClock.t
                    await mark(f"after_send{n}")
                    ents = [ent]
                else:
                    # a burst: len(pre) distinct replies, each sent by its own task through its own external adapter; the tasks are
                    # started at this instant in the generated order and yield pre[i] times to the event loop before sending
                    quiet = VClock.t - last_activity()
                    ents = [
                        {"n": n + j, "t": VClock.t, "gap": gap, "quiet_for": quiet, "state_before": obs["marks"][-1]["state"], "error": None, "t_ret": None,
                         "pos": p, "burst": len(b["pre"])}
                        for j in range(len(b["pre"]))
                    ]
                    obs["sends"].extend(ents)

                    t_burst = VClock.t
                    # the burst meets the release whose releaser dies (has died or will die before its write commits)
                    met_crash = bool(crash) and lock.begun - 1 == crash["release"] and lock.state.get(RUN_ID) == m["State"].releasing
                    t_begin = lock.updated.get(RUN_ID, t_burst) if met_crash else t_burst

                    async def one(ent, pre, delay=None):
                        if delay:
                            # (crash cases) this sender's first call: `delay` after the burst instant / when the stuck row has that age
                            at = t_begin + CT + delay["timeout"] if isinstance(delay, dict) else t_burst + float(delay)
                            if at > VClock.t:
                                await asyncio.sleep(at - VClock.t)
                                ent["t"] = VClock.t
                                ent["state_before"] = getattr(lock.state.get(RUN_ID), "value", None)
                        for _ in range(pre):
                            await asyncio.sleep(0)
                        ent["state_at_send"] = getattr(lock.state.get(RUN_ID), "value", None)
                        try:
                            await runtime.get_external_adapter(RUN_ID).send_event(m["ticks"].TickAddEvent(event=ge.Reply(n=ent["n"])))
                        except Exception as e:  # noqa: BLE001
                            ent["error"] = f"{type(e).__name__}: {e}"[:200]
                        ent["t_ret"] = VClock.t
                        await mark(f"after_send{ent['n']}")

                    if not crash:
                        await asyncio.gather(*[asyncio.ensure_future(one(ents[j], k)) for j, k in zip(b["order"], b["pre"])])
                    else:
                        # crash cases: the senders that meet the crashed release arrive at their generated instants; a sender that has
                        # not returned CRASH_GRACE after (the later of) the crash timeout and the last arrival is given up (t_ret None)
                        delays = list(crash["delay"]) if (met_crash and len(crash["delay"]) == len(b["pre"])) else [None] * len(b["pre"])
                        if met_crash:
                            obs["crash_met_by"] = [e["n"] for e in ents]
                            obs["crash_t_begin"] = t_begin
                        tasks = [asyncio.ensure_future(one(ents[j], k, d)) for j, k, d in zip(b["order"], b["pre"], delays)]
                        give_up = (max(t_begin + CT + 1.0, t_burst + 60.0) if met_crash else t_burst) + CRASH_GRACE
                        _, pending = await asyncio.wait(tasks, timeout=max(give_up - VClock.t, 0.001))
                        for t in pending:
                            t.cancel()
                        await asyncio.gather(*tasks, return_exceptions=True)
                        if pending:
                            break
                # wait until every reply of this position was processed (body returned), or give up at the horizon
                while VClock.t < H and not all(any(x["step"] == "on_reply" and x["n"] == e["n"] and x["exit"] == "returned" for x in log["body"]) for e in ents):
                    ev = asyncio.Event()
                    wake_evt.append(ev)
                    try:
                        await asyncio.wait_for(ev.wait(), timeout=max(H - VClock.t, 0.001))
                    except (asyncio.TimeoutError, TimeoutError):
                        pass
                    finally:
                        wake_evt.remove(ev)
                if any(e["error"] for e in ents):
                    break
            # the run ends with the last reply; give everything that is still armed the time to fire
            inc = base.incarnations.get(RUN_ID) or []
            t_stop = min(H, VClock.t + 3 * I + 2.0)
            while VClock.t < t_stop and inc and not inc[-1].complete.done():
                await asyncio.sleep(0.25)
            await asyncio.sleep(2 * I + 2.0)
            inc = base.incarnations.get(RUN_ID) or []
            last = inc[-1].complete if inc else None
            if last is not None and last.done() and not last.cancelled() and last.exception() is None:
                res = last.result()
                obs["final"] = {"type": type(res).__name__, "result": getattr(res, "result", None) if type(res).__name__ == "GStop" else None}
            elif last is not None and last.done():
                obs["final"] = {"type": "cancelled" if last.cancelled() else "error:" + repr(last.exception())[:120], "result": None}
            await mark("end")
            st_store = store.state_stores.get(RUN_ID)
            if st_store is not None:
                state = await st_store.get_state()
                obs["state_got"] = list(state.get("got", None) or [])
            obs["ticks"] = [t.tick_data.get("type") for t in store.ticks.get(RUN_ID, [])]
            obs["t_end"] = VClock.t
            del handler
        finally:
            obs["spans"] = [{"t0": x["t0"], "t1": x["t1"]} for x in getattr(rec, "runner_spans", []) if x["run_id"] == RUN_ID]
            if obs["t_end"] is None:
                obs["t_end"] = VClock.t  # the driver did not get to its end: a send that never returns (nothing left that could wake it)
            genwf.CUR = None

    try:
        boot.run_virtual(main)
    finally:
        DBOS.retrieve_workflow_async, DBOS.delete_workflow_async = saved
    obs["body"] = log["body"]
    obs["H"] = H
    return obs


def run_case(case: dict) -> CaseResult:
    case = json.loads(json.dumps(case))
    r = CaseResult()
    M()
    if in_domain(case) is not None:
        r.skipped = True  # outside the claimed domain (e.g. a hand-written replay); never produced by strategy()
        return r
    I = float(case["idle_timeout"])
    lay = _layout(case)
    total = lay["n"]  # replies sent / expected (== case["total"] without bursts)
    pos_of = lay["pos_of"]
    L = float(case.get("release_takes", 0) or 0) + float(case.get("release_tick_write_takes", 0) or 0)
    try:
        obs = _drive(case)
    except Runaway as e:
        r.v("runaway", detail=str(e)[:80])
        return r
    if obs["emu_gap"]:
        raise RuntimeError(f"dbos_idle: outside what the DBOS emulation covers: {obs['emu_gap'][0]}")
    body = obs["body"]
    sends = obs["sends"]
    marks = obs["marks"]
    wake = case.get("wake") or {}
    INF = float("inf")
    send_failed = any(s["error"] for s in sends)

    # ---- what the run did, as seen from outside: step bodies executing [t_in, t_out], sends
    def executing_at(t: float):
        """A step body that started before t and has not ended by t (a body the release itself cancelled counts as executing)."""
        for b in body:
            out = INF if b["t_out"] is None else b["t_out"]
            if b["t_in"] < t - TOL and (out > t + TOL or (b["exit"] == "cancelled" and out >= t - TOL)):
                return b
        return None

    def executing_after(t: float) -> bool:
        return any(b["t_in"] <= t + TOL and (b["t_out"] is None or b["t_out"] > t + TOL) for b in body)

    def send_at(t: float) -> bool:
        return any(abs(s["t"] - t) <= TOL for s in sends)

    def last_activity_upto(t: float) -> float:
        ts = [0.0] + [s["t"] for s in sends if s["t"] <= t + TOL]
        ts += [b["t_in"] for b in body if b["t_in"] <= t + TOL] + [b["t_out"] for b in body if b["t_out"] is not None and b["t_out"] <= t + TOL]
        return max(ts)

    begins = [x for x in obs["lock"] if x["op"] == "begin_release" and x["res"] is True]
    completes = [x for x in obs["lock"] if x["op"] == "complete_release" and x["res"] is True]
    idle_ends = [x for x in obs["ends"] if x["kind"] == "IdleReleasedEvent"]
    # bodies started by an internal timed wake-up: a retried attempt, the re-run of a step whose waiter timed out
    woke = [b for b in body if (b["step"] == "watch" and b["exit"] == "timed_out") or b["attempt"] > 0]

    # RELEASER CRASH (case["crash"]): the injected death of the releasing replica, if the run got that far
    crashed = obs.get("crash")
    CT = float(_m["idle_mod"].CRASH_TIMEOUT_SECONDS)

    def released_at(t: float) -> bool:
        for e in idle_ends:
            restart = min((x["t"] for x in obs["starts"] if x["k"] > e["k"]), default=INF)
            if e["t"] <= t + TOL and t + TOL < restart:
                return True
        return False

    # ---- (a) never released while executing a step or within idle_timeout of the last activity
    for x in begins:
        t = x["t"]
        b = executing_at(t)
        wake_before = any(w["t_in"] < t - TOL for w in woke)
        if b is not None:
            ev = max((s["t"] for s in sends if s["t"] <= t + TOL), default=None)
            r.v("released_while_busy", step=b["step"], since_last_event=None if ev is None else round(t - ev, 4), idle_timeout=I,
                timed_wakeup_before=wake_before, send_at_same_instant=send_at(t))
        elif send_at(t):
            # an event handed over at the very instant the timer fires: a tie, judged only by (c), (d) and the end state
            r.classes.append("release_ties_with_send")
        else:
            la = last_activity_upto(t)
            if t - la < I - TOL:
                r.v("released_before_idle_timeout", idle_for=round(t - la, 4), idle_timeout=I, timed_wakeup_before=wake_before,
                    last_activity="send" if send_at(la) else "step")

    # ---- (b) an idle run is released once idle_timeout has elapsed: quiet intervals (a, nxt) of the run while it is in memory
    finished_at = next((e["t"] for e in obs["ends"] if e["kind"] != "IdleReleasedEvent"), None)
    t_last = obs["t_end"] if finished_at is None else finished_at
    points = sorted({0.0} | {b["t_in"] for b in body} | {b["t_out"] for b in body if b["t_out"] is not None} | {s["t"] for s in sends})
    n_released_ok = 0
    for i, a in enumerate(points):
        if i + 1 < len(points) and points[i + 1] - a <= TOL:
            continue
        nxt = points[i + 1] if i + 1 < len(points) else t_last
        if a >= t_last - TOL or executing_after(a) or released_at(a):
            continue
        if any(s["error"] for s in sends if s["t"] <= a + TOL):
            continue  # after a send that raised nothing is known about the run
        if nxt - a <= I + TOL:
            continue  # (no release inside a short interval: clause (a))
        if any(e["t"] < a + I - TOL and a + I + TOL < min((x["t"] for x in obs["starts"] if x["k"] > e["k"]), default=INF) for e in idle_ends):
            # the interval starts at a send that arrived while a release was already under way: STRICTLY before a release would be due
            # the run has left memory, and it has not been started again (the sender is still polling the lifecycle row -- for the whole
            # crash timeout when the releaser died); nothing is in memory to release
            r.classes.append("quiet_interval_starts_inside_a_release")
            continue
        after_wake = any(w["t_out"] is not None and abs(w["t_out"] - a) <= TOL for w in woke)
        inside = [x for x in begins if a + TOL < x["t"] <= nxt + TOL]
        on_time = [x for x in inside if abs(x["t"] - (a + I)) <= TOL]
        if not on_time:
            r.v("idle_run_not_released", stage="no_release_started", idle_for=round(nxt - a, 4), idle_timeout=I,
                started_after=[round(x["t"] - a, 4) for x in inside][:2], after_timed_wakeup=after_wake)
            continue
        t0 = on_time[0]["t"]
        if not any(t0 - TOL <= e["t"] <= t0 + 1.0 for e in idle_ends):
            r.v("idle_run_not_released", stage="run_still_in_memory", idle_for=round(nxt - a, 4), idle_timeout=I, after_timed_wakeup=after_wake)
            continue
        if crashed is not None and abs(t0 - crashed["t_begin"]) <= TOL:
            continue  # the releaser of this release was killed before its releasing->released write: nothing after that point is owed
        if not any(t0 - TOL <= c["t"] <= t0 + 1.0 + L for c in completes):
            r.v("idle_run_not_released", stage="lifecycle_not_released", idle_for=round(nxt - a, 4), idle_timeout=I, after_timed_wakeup=after_wake)
            continue
        # what a client sees a little after the run left memory (unless an event arrived meanwhile)
        mk = next((k for k in marks if k["tag"] == "after_release" and t0 + TOL < k["t"] <= t0 + MARK_AFTER + 1.0 + TOL), None)
        if mk is not None and not any(t0 - TOL <= s["t"] <= mk["t"] + TOL for s in sends):
            if not mk["idle_since"]:
                r.v("idle_run_not_released", stage="handler_not_marked_idle", state=mk["state"], idle_timeout=I, after_timed_wakeup=after_wake)
                continue
            if mk["state"] != "released" or mk["in_memory"]:
                r.v("idle_run_not_released", stage="not_released_afterwards", state=mk["state"], in_memory=mk["in_memory"], idle_timeout=I)
                continue
        n_released_ok += 1

    # ---- (c) a send after a release reloads the run
    n_reload_ok = 0
    hung = [s for s in sends if s["t_ret"] is None and not s["error"]]
    if hung:
        extra = {}
        if crashed is not None:
            # a sender that met the release of a crashed replica: given up CRASH_GRACE after the stuck row passed the crash timeout
            t_out = crashed["t_begin"] + CT
            extra = {"releaser_crashed": True, "first_call_before_crash_timeout": hung[0]["t"] <= t_out + TOL,
                     "polls_after_crash_timeout": len([x for x in obs["lock"] if x["op"] == "try_begin_resume" and x["res"] == "releasing" and x["t"] > t_out + TOL]),
                     "senders_given_up": len(hung)}
        r.v("send_never_returned", n=hung[0]["n"], state_before=hung[0]["state_before"], concurrent_senders=hung[0].get("burst", 1),
            resume_calls=len(obs["resumes"]), lifecycle=marks[-1]["state"] if marks else None, **extra)
    for s in sends:
        if s["state_before"] in ("released", "releasing") and not s["error"] and s["t_ret"] is not None:
            after = next((k for k in marks if k["tag"] == f"after_send{s['n']}"), None)
            restarted = any(s["t"] - TOL <= x["t"] <= s["t_ret"] + TOL and x["k"] > 0 for x in obs["starts"])
            if not restarted or after is None or after["state"] != "active" or after["idle_since"] or not after["in_memory"]:
                r.v("send_after_release_did_not_reload_run", restarted=restarted, state=after and after["state"], still_marked_idle=bool(after and after["idle_since"]),
                    in_memory=bool(after and after["in_memory"]), waited=round(s["t_ret"] - s["t"], 3))
            elif any(b["step"] == "on_reply" and b["n"] == s["n"] and b["exit"] == "returned" for b in body):
                n_reload_ok += 1
    # ---- (d) no exception escapes a send
    for s in sends:
        if s["error"]:
            extra = {"concurrent_senders": s["burst"], "state_at_send": s.get("state_at_send")} if "burst" in s else {}
            r.v("send_raised", error=s["error"].split(":")[0], detail=s["error"][:160], n=s["n"], state_before=s["state_before"],
                releases_before=len([x for x in completes if x["t"] <= s["t"] + TOL]), **extra)
            break

    # ---- C26: control loops alive per run id, resumes per release (observers: EmuBase.run_workflow, _ControlLoopRunner.run, _do_resume)
    for x in obs["starts"]:
        if x.get("alive_before"):
            r.v("two_live_control_loops", seen="base_run_started_while_previous_alive", incarnation=x["k"], alive_before=x["alive_before"],
                old_run_deleted_while_running=bool(obs["deleted_running"]), concurrent_senders=max((s.get("burst", 1) for s in sends if abs(s["t"] - x["t"]) <= 1.0), default=1))
            break
    else:
        spans = sorted(obs["spans"], key=lambda z: z["t0"])
        for i, a in enumerate(spans):
            a1 = INF if a["t1"] is None else a["t1"]
            clash = next((b for b in spans[i + 1:] if b["t0"] < a1 - TOL and a["t0"] < (INF if b["t1"] is None else b["t1"]) - TOL), None)
            if clash is not None:
                r.v("two_live_control_loops", seen="control_loop_spans_overlap", first=[a["t0"], a["t1"]], second=[clash["t0"], clash["t1"]])
                break
    lock_log = obs["lock"]
    rel_idx = [i for i, x in enumerate(lock_log) if x["op"] == "begin_release" and x["res"] is True]
    for k, i0 in enumerate([-1] + rel_idx):
        i1 = rel_idx[k] if k < len(rel_idx) else len(lock_log)  # window: after release k-1 (k == 0: before any release) up to the next release
        calls = [x for x in obs["resumes"] if i0 < x["i"] <= i1]
        grants = [x for x in lock_log[i0 + 1:i1] if x["op"] == "try_begin_resume" and x["res"] == "released"]
        if k == 0:
            if calls:
                r.v("resume_of_unreleased_run", resume_calls=len(calls), grants=len(grants), outcome=calls[0]["outcome"])
                break
            continue
        if crashed is not None and not hung and abs(lock_log[i0]["t"] - crashed["t_begin"]) <= TOL and obs.get("crash_met_by") and not grants:
            # the release of the crashed replica: senders arrived and returned, yet nobody took the stuck run over
            r.v("crashed_release_never_taken_over", senders=len(obs["crash_met_by"]), resume_calls=len(calls),
                lifecycle=marks[-1]["state"] if marks else None)
            break
        if len(calls) > 1 or len(grants) > 1:
            r.v("released_run_resumed_twice", release_index=k - 1, resume_calls=len(calls), ownership_grants=len(grants),
                outcomes=[x["outcome"] for x in calls][:3], same_instant=len({x["t"] for x in calls}) == 1,
                concurrent_senders=max((s.get("burst", 1) for s in sends if any(abs(s["t_ret"] - x["t_ret"]) <= TOL for x in calls if s["t_ret"] is not None and x["t_ret"] is not None)), default=1))
            break

    # ---- end state: every reply processed exactly once, in order (order among the replies of one burst is free), with the state carried
    # across release/reload
    def in_order(lst) -> bool:
        """`lst` holds every reply exactly once and positions never go back (== `lst == want` when no position carries a burst)."""
        return sorted(lst) == want and [pos_of[n] for n in lst] == pos_of

    done = [b["n"] for b in body if b["step"] == "on_reply" and b["exit"] == "returned"]
    want = list(range(total))
    fin = obs["final"] or {}
    if not send_failed:
        order = (fin.get("result") or {}).get("order")
        if not in_order(done):
            extra = {"concurrent_senders": max(lay["size"])} if lay["any"] else {}
            r.v("replies_lost_or_duplicated", processed=done, want=want, sent=[s["n"] for s in sends], releases=len(completes),
                cancelled_bodies=len([b for b in body if b["exit"] == "cancelled"]), **extra)
        else:
            # what each step saw = the replies recorded before it: the prefix of the final record (== 0..n-1 without bursts)
            ref = order if (isinstance(order, list) and in_order(order)) else want
            bad = next((b for b in body if b["step"] == "on_reply" and b["exit"] == "returned" and b["saw"] != ref[: ref.index(b["n"])]), None)
            if bad is not None:
                r.v("state_not_carried", at_reply=bad["n"], saw=bad["saw"], releases_before=len([x for x in completes if x["t"] <= bad["t_in"] + TOL]))
            elif fin.get("type") != "GStop":
                r.v("run_did_not_complete", final=fin.get("type"), releases=len(completes), state=marks[-1]["state"] if marks else None)
            elif not isinstance(order, list) or not in_order(order) or obs.get("state_got") != order:
                r.v("state_not_carried", at_reply=None, result=order, stored=obs.get("state_got"), releases_before=len(completes))
    # an armed internal wake-up fires when due (the run is in memory all that time: delay < idle_timeout)
    if wake and not FLAGS["wake_after_release"] and not send_failed:
        armed = [b for b in body if (wake["kind"] == "retry" and b["exit"] == "raised") or (wake["kind"] == "waiter" and b["exit"] == "waiting")]
        for b in armed:
            due = b["t_out"] + wake["delay"]
            if due >= t_last - TOL:
                continue
            # (with a burst the retried step's workers can all be busy with the other replies of the burst when the back-off ends:
            #  the attempt then starts when a body of that step ends; never the case without bursts, where the run is idle by then)
            rivals = [o for o in body if o is not b and o["step"] == b["step"] and o["t_in"] <= due + TOL and (o["t_out"] is None or o["t_out"] > due + TOL)]
            if lay["any"] and len(rivals) >= case.get("workers", 1) and b["step"] == "on_reply":
                if any(w["t_in"] >= due - TOL and any(o["t_out"] is not None and abs(o["t_out"] - w["t_in"]) <= TOL for o in body if o["step"] == b["step"]) for w in woke):
                    continue
            if not any(abs(w["t_in"] - due) <= TOL for w in woke):
                r.v("timed_wakeup_lost", wakeup=wake["kind"], delay=wake["delay"], idle_timeout=I, released_meanwhile=any(b["t_out"] < x["t"] < due + TOL for x in begins))

    # ---- classes / non-triviality
    if begins:
        r.classes.append("release")
    if n_released_ok:
        r.classes.append("release_on_time_and_marked_idle")
    if n_reload_ok:
        r.classes.append("release_then_reload")
    if len(completes) >= 2:
        r.classes.append("released_twice_or_more")
    if wake:
        r.classes.append("wake_" + wake["kind"])
    idle_wakes = [w for w in woke if executing_at(w["t_in"]) is None and not send_at(w["t_in"])]
    if idle_wakes:
        r.classes.append("timed_wakeup_while_idle")
        if any(s["t"] > w["t_out"] - TOL and s["t"] - w["t_out"] < I for w in idle_wakes if w["t_out"] is not None for s in sends):
            r.classes.append("send_within_timeout_after_timed_wakeup")
        if any(x["t"] > w["t_in"] for w in idle_wakes for x in begins):
            r.classes.append("release_after_timed_wakeup")
    for gk in sorted({g for g in case["gaps"] if isinstance(g, str)}):
        r.classes.append("send_" + gk + "_deadline")
    if any(s["state_before"] == "releasing" for s in sends):
        r.classes.append("send_while_releasing")
    if case.get("crash"):
        r.classes.append("crash_case")
        if crashed is None:
            r.classes.append("crash_not_reached")
        else:
            t_out = crashed["t_begin"] + CT
            met = [s for s in sends if s["n"] in (obs.get("crash_met_by") or [])]
            r.classes.append(f"releaser_crashed_on_release_{crashed['release']}")
            pollers = [s for s in met if s["t"] <= t_out + TOL]  # first call while the stuck row is not older than the crash timeout: they poll
            late = [s for s in met if s["t"] > t_out + TOL]  # first call after it
            across = [s for s in pollers if s["t_ret"] is None or s["t_ret"] > t_out + TOL]
            if across:
                r.classes.append(f"crash_{len(across)}_senders_polling_across_crash_timeout")
            if late:
                r.classes.append("crash_sender_first_call_after_crash_timeout")
            if across and not late:
                r.classes.append("crash_only_pollers_can_take_over")
            took = [x for x in obs["resumes"] if x["t"] > crashed["t_begin"] + TOL]
            if took:
                r.classes.append("crashed_release_taken_over" + ("_by_late_sender" if any(abs(s["t"] - took[0]["t"]) <= TOL for s in late) else "_by_poller"))
    if any(w >= I for w in case["work"]):
        r.classes.append("work_not_shorter_than_timeout")
    r.nontrivial = n_reload_ok > 0 and fin.get("type") == "GStop"
    if lay["any"]:
        # bursts (C26 family): in which lifecycle state the concurrent senders found the run, and whether they raced for the resume
        near = False
        for p in range(case["total"]):
            grp = [s for s in sends if s.get("pos") == p]
            if len(grp) < 2:
                continue
            st0 = grp[0]["state_before"]
            r.classes.append("burst_while_" + str(st0))
            r.classes.append(f"burst_of_{len(grp)}")
            if st0 in ("released", "releasing"):
                near = True
                r.classes.append("burst_senders_race_for_resume")
                if len({s["t_ret"] for s in grp}) > 1 or any(s["t_ret"] is not None and s["t_ret"] > s["t"] + TOL for s in grp):
                    r.classes.append("burst_senders_waited_for_release_to_complete")
            elif abs(grp[0]["quiet_for"] - I) <= 0.25 + TOL:
                near = True
                r.classes.append("burst_just_before_deadline")
        if len(obs["resumes"]) >= 1 and any(s.get("burst") for s in sends):
            r.classes.append("resumed_by_burst_sender" if any(abs(x["t_ret"] - s["t_ret"]) <= TOL for x in obs["resumes"] if x["t_ret"] is not None for s in sends if s.get("burst") and s["t_ret"] is not None) else "resumed_by_single_sender")
        if case.get("io_yields"):
            r.classes.append("lock_and_dbos_calls_suspend")
        # non-trivial (C26 family) = the run completed and a burst hit a released/releasing run or landed within 0.25 s before the deadline
        r.nontrivial = fin.get("type") == "GStop" and (n_reload_ok > 0 or near)
    r.sample = {"case": case, "release_begin": [x["t"] for x in begins][:4], "reloads": [x["t"] for x in obs["starts"] if x["k"] > 0][:4],
                "sends": [[s["n"], s["t"], s["state_before"]] for s in sends], "final": fin.get("type")}
    return r
