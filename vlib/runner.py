"""Generic property runner: Hypothesis-driven search, known findings, replay, evidence."""

from __future__ import annotations

import hashlib
import json
import multiprocessing
import os
import sys
import traceback
from dataclasses import dataclass, field
from typing import Any, Iterable

from . import boot

VERIF = boot.VERIF
# VERIF_OUT_DIR (set only by tools/sens.py) keeps runs against mutated scratch copies from
# overwriting the evidence / replay files of the real tree.
_OUT = os.environ.get("VERIF_OUT_DIR") or VERIF
EVIDENCE_DIR = os.path.join(_OUT, "evidence")
REPLAY_DIR = os.path.join(_OUT, "replays")
KNOWN_FILE = os.path.join(VERIF, "known_findings.json")


def canon(obj: Any) -> str:
    return json.dumps(obj, sort_keys=True, separators=(",", ":"), default=repr)


def chash(obj: Any) -> str:
    return hashlib.sha1(canon(obj).encode()).hexdigest()[:16]


@dataclass
class CaseResult:
    violations: list[dict] = field(default_factory=list)
    nontrivial: bool = False
    classes: list[str] = field(default_factory=list)
    sample: Any = None  # what to show in evidence (default: the case itself)
    skipped: bool = False  # case outside the property's domain (counted, not evaluated)

    def v(self, kind: str, **attrs: Any) -> None:
        self.violations.append({"kind": kind, **attrs})


class Prop:
    """Base class of a property check."""

    id: str = "C00"
    level: str = "exploration"
    rule: str = ""
    assumptions: list[str] = []
    budgets: dict[str, int] = {"quick": 200, "thorough": 1000}  # examples per shard
    wall: dict[str, float] = {"quick": 75.0, "thorough": 600.0}  # soft cap (s), per shard
    shards: dict[str, int] = {"quick": 1, "thorough": 16}
    min_nontrivial_frac: float = 0.02
    exhaustive: bool = False

    def setup(self) -> None:  # imports of repo modules etc.
        pass

    def strategy(self, tier: str):  # -> SearchStrategy producing a JSON-able case
        raise NotImplementedError

    def enumerate(self, tier: str) -> Iterable[Any] | None:
        return None

    def run_case(self, case: Any) -> CaseResult:
        raise NotImplementedError

    def extra_coverage(self) -> dict:
        return {}


class HarnessError(Exception):
    pass


# ---------------------------------------------------------------- known findings


def load_known(prop_id: str) -> list[dict]:
    if not os.path.exists(KNOWN_FILE):
        return []
    with open(KNOWN_FILE) as f:
        data = json.load(f)
    return [e for e in data.get("findings", []) if e.get("property") == prop_id]


def match_known(v: dict, known: list[dict]) -> dict | None:
    for e in known:
        if e.get("status", "known") != "known":
            continue  # "fixed" entries suppress nothing
        if e.get("kind") != v.get("kind"):
            continue
        m = e.get("match", {})
        ok = True
        for k, want in m.items():
            have = v.get(k)
            if isinstance(want, dict) and "in" in want:
                if have not in want["in"]:
                    ok = False
            elif have != want:
                ok = False
            if not ok:
                break
        if ok:
            return e
    return None


# ---------------------------------------------------------------- one shard


class _Found(Exception):
    pass


def _run_shard(args) -> dict:
    prop, tier, seed, shard, replay_cases = args
    import hypothesis
    from hypothesis import HealthCheck, Phase, given, settings

    t0 = boot.REAL_PERF()
    known = load_known(prop.id)
    out: dict[str, Any] = {
        "evaluations": 0,
        "skipped": 0,
        "nontrivial_hashes": set(),
        "classes": {},
        "samples": [],
        "known_hits": {},
        "failures": [],  # (size, case, violations)
        "budget_exhausted": False,
        "harness_error": None,
    }
    budget = prop.budgets[tier]
    wall = prop.wall[tier]
    state = {"first_fail_at": None}

    def evaluate(case: Any, from_replay: bool = False) -> list[dict]:
        res = prop.run_case(case)
        if res.skipped:
            out["skipped"] += 1
            return []
        out["evaluations"] += 1
        for c in res.classes:
            out["classes"][c] = out["classes"].get(c, 0) + 1
        if res.nontrivial:
            h = chash(case)
            if h not in out["nontrivial_hashes"]:
                out["nontrivial_hashes"].add(h)
                if len(out["samples"]) < 3 and not from_replay:
                    out["samples"].append(res.sample if res.sample is not None else case)
        unmatched = []
        for v in res.violations:
            e = match_known(v, known)
            if e is not None:
                out["known_hits"][e["id"]] = out["known_hits"].get(e["id"], 0) + 1
            else:
                unmatched.append(v)
        return unmatched

    try:
        # replay tier first (regressions of known findings and saved violations)
        for name, case in replay_cases:
            um = evaluate(case, from_replay=True)
            if um:
                out["failures"].append((len(canon(case)), case, um))
        if out["failures"]:
            out["wall_s"] = boot.REAL_PERF() - t0
            return _ser(out)

        enum = prop.enumerate(tier) if shard == 0 else None
        if enum is not None:
            for case in enum:
                um = evaluate(case)
                if um:
                    out["failures"].append((len(canon(case)), case, um))
                    break
        else:
            phases = [Phase.generate]
            do_shrink = os.environ.get("VERIF_NO_SHRINK") != "1"
            if do_shrink:
                phases.append(Phase.shrink)
            shrink_cap = 40.0 if tier == "quick" else 150.0
            # The budget is spent in chunks (separate Hypothesis runs with derived seeds) so that a wall-clock
            # cap ends the search at a chunk boundary instead of generating the remaining examples for nothing.
            n_chunks = 8 if budget >= 400 else 1
            chunk = (budget + n_chunks - 1) // n_chunks

            def run_chunk(ci: int) -> None:
                @hypothesis.seed((seed * 1000 + shard) * 16 + ci)
                @settings(
                    max_examples=chunk,
                    database=None,
                    deadline=None,
                    derandomize=False,
                    report_multiple_bugs=False,
                    phases=phases,
                    suppress_health_check=list(HealthCheck),
                    print_blob=False,
                )
                @given(case=prop.strategy(tier))
                def test(case):
                    now = boot.REAL_PERF()
                    if state["first_fail_at"] is None:
                        if now - t0 > wall:
                            out["budget_exhausted"] = True
                            return
                    else:
                        if now - state["first_fail_at"] > shrink_cap:
                            return  # stop shrinking: nothing else "fails"
                    um = evaluate(case)
                    if um:
                        if state["first_fail_at"] is None:
                            state["first_fail_at"] = now
                        out["failures"].append((len(canon(case)), case, um))
                        raise _Found()

                try:
                    test()
                except _Found:
                    pass
                except hypothesis.errors.HypothesisException as e:
                    if not out["failures"]:
                        out["harness_error"] = "hypothesis: " + repr(e)
                except BaseException as e:  # noqa: BLE001
                    if not out["failures"]:
                        out["harness_error"] = "".join(
                            traceback.format_exception(type(e), e, e.__traceback__)
                        )[-4000:]

            for ci in range(n_chunks):
                if out["failures"] or out["budget_exhausted"] or out["harness_error"]:
                    break
                if ci and boot.REAL_PERF() - t0 > wall:
                    out["budget_exhausted"] = True
                    break
                run_chunk(ci)
    except BaseException as e:  # noqa: BLE001
        out["harness_error"] = "".join(
            traceback.format_exception(type(e), e, e.__traceback__)
        )[-4000:]
    out["wall_s"] = boot.REAL_PERF() - t0
    try:
        out["extra"] = prop.extra_coverage()
    except Exception:  # noqa: BLE001
        out["extra"] = {}
    return _ser(out)


def _ser(out: dict) -> dict:
    out["nontrivial_hashes"] = sorted(out["nontrivial_hashes"])
    if out["failures"]:
        out["failures"].sort(key=lambda x: x[0])
        out["failures"] = out["failures"][:1]
    return out


def load_prop(prop_id: str) -> Prop:
    import importlib

    mod = importlib.import_module(f"vlib.props.{prop_id.lower()}")
    return mod.PROP()


def _shard_entry(args):
    try:
        prop = load_prop(args[0])
        prop.setup()
        return _run_shard((prop,) + tuple(args[1:]))
    except BaseException as e:  # noqa: BLE001
        return {
            "evaluations": 0,
            "skipped": 0,
            "nontrivial_hashes": [],
            "classes": {},
            "samples": [],
            "known_hits": {},
            "failures": [],
            "budget_exhausted": False,
            "wall_s": 0.0,
            "extra": {},
            "harness_error": "".join(
                traceback.format_exception(type(e), e, e.__traceback__)
            )[-4000:],
        }


# ---------------------------------------------------------------- driver


def _load_replays(prop: Prop) -> list[tuple[str, Any]]:
    cases = []
    d = os.path.join(VERIF, "replays", "known")  # committed regression inputs
    if os.path.isdir(d):
        for fn in sorted(os.listdir(d)):
            if fn.startswith(prop.id + "-") and fn.endswith(".json"):
                with open(os.path.join(d, fn)) as f:
                    cases.append((fn, json.load(f)["case"]))
    return cases


def write_evidence(prop: Prop, tier: str, seed: int, merged: dict, wall_s: float, nviol: int) -> None:
    os.makedirs(EVIDENCE_DIR, exist_ok=True)
    cov = {
        "evaluations": merged["evaluations"],
        "distinct_nontrivial": len(merged["nontrivial_hashes"]),
        "rule": prop.rule,
        "samples": merged["samples"][:3],
        "classes": merged["classes"],
        "skipped_out_of_domain": merged["skipped"],
        "known_finding_hits": merged["known_hits"],
        "shards": merged["shards"],
        "budget_exhausted_shards": merged["budget_exhausted"],
        "exhaustive": bool(prop.exhaustive),
    }
    cov.update(merged.get("extra", {}))
    ev = {
        "property_id": prop.id,
        "tier": tier,
        "seed": seed,
        "level": prop.level,
        "coverage": cov,
        "assumptions": list(prop.assumptions),
        "wall_s": round(wall_s, 3),
        "violations": nviol,
    }
    with open(os.path.join(EVIDENCE_DIR, f"{prop.id}.json"), "w") as f:
        json.dump(ev, f, indent=1, sort_keys=True, default=repr)
        f.write("\n")


def run_property(prop: Prop, tier: str, seed: int, replay: str | None = None) -> int:
    t0 = boot.REAL_PERF()
    known = load_known(prop.id)
    if replay is not None:
        prop.setup()
        with open(replay) as f:
            case = json.load(f)["case"]
        res = prop.run_case(case)
        unmatched = [v for v in res.violations if match_known(v, known) is None]
        print(json.dumps({"violations": res.violations, "classes": res.classes}, indent=1, default=repr))
        if unmatched:
            print(f"VIOLATION property={prop.id} replay={replay}")
            return 1
        return 0

    nshards = prop.shards[tier]
    if prop.enumerate(tier) is not None:
        nshards = 1
    replays = _load_replays(prop)
    jobs = [(prop.id, tier, seed, i, replays if i == 0 else []) for i in range(nshards)]
    if nshards == 1:
        results = [_shard_entry(jobs[0])]
    else:
        ctx = multiprocessing.get_context("fork")
        with ctx.Pool(min(nshards, os.cpu_count() or 1)) as pool:
            results = pool.map(_shard_entry, jobs, chunksize=1)

    merged: dict[str, Any] = {
        "evaluations": 0,
        "skipped": 0,
        "nontrivial_hashes": set(),
        "classes": {},
        "samples": [],
        "known_hits": {},
        "shards": nshards,
        "budget_exhausted": 0,
        "extra": {},
    }
    failures = []
    herr = None
    for r in results:
        merged["evaluations"] += r["evaluations"]
        merged["skipped"] += r["skipped"]
        merged["nontrivial_hashes"].update(r["nontrivial_hashes"])
        for k, v in r["classes"].items():
            merged["classes"][k] = merged["classes"].get(k, 0) + v
        for k, v in r["known_hits"].items():
            merged["known_hits"][k] = merged["known_hits"].get(k, 0) + v
        merged["samples"].extend(r["samples"])
        merged["budget_exhausted"] += 1 if r["budget_exhausted"] else 0
        for k, v in (r.get("extra") or {}).items():
            if isinstance(v, (int, float)) and not isinstance(v, bool):
                merged["extra"][k] = merged["extra"].get(k, 0) + v
            else:
                merged["extra"].setdefault(k, v)
        failures.extend(r["failures"])
        if r["harness_error"] and herr is None:
            herr = r["harness_error"]
    wall_s = boot.REAL_PERF() - t0

    for e in known:
        if e.get("status", "known") == "known" and merged["known_hits"].get(e["id"], 0) > 0:
            print(f"KNOWN-FINDING: property={prop.id} {e['id']}: {e['what']} (hits={merged['known_hits'][e['id']]})")

    if failures:
        failures.sort(key=lambda x: x[0])
        _, case, viols = failures[0]
        os.makedirs(REPLAY_DIR, exist_ok=True)
        path = os.path.join(REPLAY_DIR, f"{prop.id}-{chash(case)}.json")
        with open(path, "w") as f:
            json.dump({"property": prop.id, "violations": viols, "case": case}, f, indent=1, default=repr)
            f.write("\n")
        write_evidence(prop, tier, seed, merged, wall_s, len(failures))
        for v in viols[:5]:
            print("  violation:", canon(v)[:600])
        print(f"VIOLATION property={prop.id} replay={path}")
        return 1

    if herr is not None:
        sys.stderr.write(f"HARNESS-ERROR property={prop.id}\n{herr}\n")
        return 2

    if merged["evaluations"] == 0:
        sys.stderr.write(f"HARNESS-ERROR property={prop.id} no cases evaluated\n")
        return 2
    frac = len(merged["nontrivial_hashes"]) / max(1, merged["evaluations"])
    write_evidence(prop, tier, seed, merged, wall_s, 0)
    if len(merged["nontrivial_hashes"]) < 2 or frac < prop.min_nontrivial_frac:
        sys.stderr.write(
            f"HARNESS-ERROR property={prop.id} generator degenerate: "
            f"{len(merged['nontrivial_hashes'])}/{merged['evaluations']} non-trivial\n"
        )
        return 2
    print(
        f"OK property={prop.id} tier={tier} seed={seed} evaluations={merged['evaluations']} "
        f"distinct_nontrivial={len(merged['nontrivial_hashes'])} wall_s={wall_s:.1f} "
        f"classes={json.dumps(merged['classes'], sort_keys=True)}"
    )
    return 0
