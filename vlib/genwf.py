"""Generated workflow programs: spec -> real Workflow subclass, run on virtual time, with observers.

A program spec is plain JSON data.  Everything observed goes into a `Rec`:
  rec.inv     body log: one dict per step-body execution (enter/exit, attempt, in/out uids)
  rec.emits   every event instance created by the harness or by a generated body (uid -> info)
  rec.stream  (t, event) as yielded by handler.stream_events(expose_internal=True)
  rec.ticks   per-tick probe records (live BrokerState projection etc.), if probing is on
"""

from __future__ import annotations

import asyncio
import typing
from typing import Any

from . import boot
from .boot import VClock

_mods: dict[str, Any] = {}


def M():
    """Lazy imports of repository modules (after boot.install())."""
    if not _mods:
        import workflows
        from workflows import Context, Workflow, step
        from workflows.decorators import catch_error
        from workflows.plugins import basic
        from workflows.runtime import control_loop
        from workflows.runtime.types import named_task, plugin, results
        import workflows.retry_policy as rp
        import workflows.events as wev
        import workflows.errors as werr

        from . import genevents

        _mods.update(
            workflows=workflows,
            Context=Context,
            Workflow=Workflow,
            step=step,
            catch_error=catch_error,
            basic=basic,
            control_loop=control_loop,
            named_task=named_task,
            plugin=plugin,
            results=results,
            rp=rp,
            wev=wev,
            werr=werr,
            ge=genevents,
        )
        _install_probe()
    return _mods


# ------------------------------------------------------------------ record


class Rec:
    def __init__(self, spec: dict, ties: list[int] | None = None):
        self.spec = spec
        self.inv: list[dict] = []
        self.emits: dict[int, dict] = {}
        self.stream: list[tuple[float, Any]] = []
        self.ticks: list[dict] = []
        self.notes: list[dict] = []
        self._uid = 0
        self._ties = list(ties if ties is not None else spec.get("ties", []))
        self._ti = 0
        self.tie_points = 0  # how often >1 worker was done at once
        self.outcome: dict = {"kind": "unset"}
        self.consumer_done = False
        self.probe = False
        self.runners: list[Any] = []
        self.segment = 0  # incremented on resume
        self.handler = None
        self.consumer_error = None
        self.seq = 0
        self.resumed = False
        self.snapshot = None

    def nseq(self) -> int:
        self.seq += 1
        return self.seq

    def uid(self) -> int:
        self._uid += 1
        return self._uid

    def choice(self, n: int) -> int:
        if n <= 1:
            return 0
        self.tie_points += 1
        if not self._ties:
            return 0
        v = self._ties[self._ti % len(self._ties)]
        self._ti += 1
        return v % n

    def mk(self, tname: str, via: str, by: Any = None, target: str | None = None, **fields) -> Any:
        m = M()
        u = self.uid()
        cls = m["ge"].POOL[tname]
        ev = cls(uid=u, **fields)
        self.emits[u] = {"uid": u, "type": tname, "via": via, "by": by, "target": target, "t": VClock.t, "seg": self.segment, "fields": dict(fields)}
        return ev


CUR: Rec | None = None


def cur() -> Rec:
    assert CUR is not None
    return CUR


# ------------------------------------------------------------------ tick probe

_probe_installed = False


def _install_probe() -> None:
    """Harness-side wrapper over _ControlLoopRunner (no repository change)."""
    global _probe_installed
    if _probe_installed:
        return
    _probe_installed = True
    cl = _mods["control_loop"]
    R = cl._ControlLoopRunner
    orig_init = R.__init__
    orig_pt = R._process_tick

    def __init__(self, *a, **k):
        orig_init(self, *a, **k)
        if CUR is not None:
            CUR.runners.append(self)

    async def _process_tick(self, tick):
        rec = CUR
        ok = False
        if rec is not None:
            rec.cur_pubs = []
            rec.pre_tick = {
                "buffer": [type(t).__name__ for t in self.tick_buffer],
            }
        try:
            res = await orig_pt(self, tick)
            ok = True
            return res
        finally:
            if rec is not None and rec.probe:
                try:
                    rec.ticks.append(_snapshot(self, tick, ok, rec))
                except Exception as e:  # noqa: BLE001
                    rec.notes.append({"probe_error": repr(e)})
            if rec is not None and getattr(rec, "tick_hook", None) is not None:
                recorded = ok
                if not ok:
                    # a tick whose commands end the run by raising (failure, timeout, cancel) was still reduced and recorded
                    try:
                        tl = base_adapter(self.adapter)._queues.ticks
                        recorded = bool(tl) and tl[-1] is tick
                    except Exception:  # noqa: BLE001
                        recorded = False
                if recorded:
                    rec.tick_hook(self, tick)

    orig_run = R.run

    async def run(self, *a, **k):
        rec = CUR
        span = None
        if rec is not None:
            try:
                rid = self.adapter.run_id
            except Exception:  # noqa: BLE001
                rid = None
            span = {"run_id": rid, "t0": VClock.t, "t1": None, "runner": id(self)}
            if not hasattr(rec, "runner_spans"):
                rec.runner_spans = []
            rec.runner_spans.append(span)
        try:
            return await orig_run(self, *a, **k)
        finally:
            if span is not None:
                span["t1"] = VClock.t

    R.__init__ = __init__
    R._process_tick = _process_tick
    R.run = run


def _snapshot(runner, tick, ok: bool, rec: Rec) -> dict:
    st = runner.state
    workers = {}
    for name, w in st.workers.items():
        workers[name] = {
            "queue": [(_uid_of(a.event), a.attempts) for a in w.queue],
            "in_progress": [(ip.worker_id, _uid_of(ip.event), ip.attempts) for ip in w.in_progress],
            "num_workers": w.config.num_workers,
            "collected": {k: [_uid_of(e) for e in v] for k, v in w.collected_events.items()},
            "waiters": [(x.waiter_id, _uid_of(x.event), x.resolved_event is not None, x.timed_out) for x in w.collected_waiters],
            "waiters_full": [
                {
                    "id": x.waiter_id,
                    "input_uid": _uid_of(x.event),
                    "type": x.waiting_for_event.__name__,
                    "resolved": x.resolved_event is not None,
                    "resolved_uid": _uid_of(x.resolved_event) if x.resolved_event is not None else None,
                    "timed_out": x.timed_out,
                    "requirements": dict(x.requirements),
                }
                for x in w.collected_waiters
            ],
        }
    heap = [(at, type(t).__name__, getattr(t, "step_name", None)) for (at, _s, t) in runner.scheduled_wakeups]
    try:
        mailbox = base_adapter(runner.adapter)._queues.receive_queue.qsize()
    except Exception:  # noqa: BLE001
        mailbox = None
    return {
        "t": VClock.t,
        "now_engine": __import__("time").time(),  # the clock the engine stamps its wake-ups with
        "tick": type(tick).__name__,
        "tick_obj": tick,
        "ok": ok,
        "is_running": st.is_running,
        "workers": workers,
        "heap": heap,
        "buffer": [type(t).__name__ for t in runner.tick_buffer],
        "mailbox": mailbox,
        "run_id": runner.adapter.run_id,
        "published": list(getattr(rec, "cur_pubs", [])),
        "state_obj": st,
        "runner": runner,
    }


def base_adapter(adapter):
    """Unwrap runtime-decorator adapters down to the BasicRuntime adapter that owns the queues."""
    seen = 0
    while not hasattr(adapter, "_queues") and hasattr(adapter, "_decorated") and seen < 10:
        adapter = adapter._decorated
        seen += 1
    return adapter


def _uid_of(ev) -> Any:
    try:
        return ev.get("uid")
    except Exception:  # noqa: BLE001
        return None


# ------------------------------------------------------------------ runtime with generated tie-breaks


def make_runtime(get_now: str = "mono"):
    m = M()
    basic = m["basic"]
    plugin = m["plugin"]
    nt_mod = m["named_task"]

    class SimAdapter(basic.InternalAsyncioAdapter):
        """Inherited real adapter; only the choice among simultaneously-done workers is generated."""

        async def write_to_event_stream(self, event):
            rec = CUR
            if rec is not None and hasattr(rec, "cur_pubs"):
                try:
                    mb = self._queues.receive_queue.qsize()
                except Exception:  # noqa: BLE001
                    mb = None
                rec.cur_pubs.append({"type": type(event).__name__, "idle": getattr(event, "idle", None), "mailbox": mb, "t": VClock.t})
            return await super().write_to_event_stream(event)

        async def wait_for_next_task(self, running, pending, timeout=None):
            started = [p.start(asyncio.create_task(p.coro)) for p in pending]
            all_named = running + started
            tasks = nt_mod.all_tasks(all_named)
            if not tasks:
                return plugin.WaitForNextTaskResult(None, started)
            done, _ = await asyncio.wait(tasks, timeout=timeout, return_when=asyncio.FIRST_COMPLETED)
            if not done:
                return plugin.WaitForNextTaskResult(None, started)
            workers = sorted(
                [nt for nt in all_named if isinstance(nt, nt_mod.WorkerTask) and nt.task in done],
                key=lambda nt: nt.key,
            )
            if workers:
                rec = CUR
                i = rec.choice(len(workers)) if rec is not None else 0
                return plugin.WaitForNextTaskResult(workers[i].task, started)
            pulls = [nt for nt in all_named if nt.task in done]
            return plugin.WaitForNextTaskResult(pulls[0].task, started)

    if get_now == "epoch":

        async def _epoch_now(self) -> float:
            import time

            return time.time()

        SimAdapter.get_now = _epoch_now  # type: ignore[method-assign]

    class SimRuntime(basic.BasicRuntime):
        def get_internal_adapter(self, workflow):
            a = super().get_internal_adapter(workflow)
            return SimAdapter(a._queues)

    return SimRuntime()


# ------------------------------------------------------------------ building the workflow


def build_retry(spec):
    m = M()
    rp = m["rp"]
    if spec is None:
        return None
    if "tree" in spec:  # full policy (C05/C06), built by the caller
        raise ValueError("full policy specs are built by the property module")
    return rp.retry_policy(wait=rp.wait_fixed(spec.get("w", 0)), stop=rp.stop_after_attempt(spec["n"]))


class _Stop(Exception):
    """Internal: script decided to return this value now."""

    def __init__(self, value):
        self.value = value


async def _interp(ctx, ev, acts, inv, rec: Rec, step_name: str):
    m = M()
    ge = m["ge"]
    by = (step_name, inv["id"])
    for act in acts:
        k = act[0]
        if k == "sleep":
            await asyncio.sleep(act[1])
        elif k == "send":
            _, tname, n, target = act
            for _i in range(n):
                e = rec.mk(tname, "send", by=by, target=target, parent=_uid_of(ev))
                inv["sent"].append(_uid_of(e))
                ctx.send_event(e, step=target)
        elif k == "stream":
            e = rec.mk(act[1], "stream", by=by, **(act[2] if len(act) > 2 and act[2] else {}))
            inv["streamed"].append(_uid_of(e))
            ctx.write_event_to_stream(e)
        elif k == "wait_terminal":
            # the body parks until a consumer of the run's stream has SEEN a terminal event (it is told out of band), i.e. it becomes
            # runnable only after the run's terminal event was published; a body that is cancelled with the run never gets here
            gate = getattr(rec, "terminal_seen", None)
            if gate is None:
                gate = rec.terminal_seen = asyncio.Event()
            await gate.wait()
        elif k == "fail":
            _, upto, exc_name = act
            if upto is None or inv["attempt"] < upto:
                raise ge.EXC[exc_name](f"{step_name}:{_uid_of(ev)}:{inv['attempt']}")
        elif k == "fail_gen":
            _, G, exc_name = act
            g = (ev.get("gen") or 0) if hasattr(ev, "get") else 0
            if G is None or g < G:
                raise ge.EXC[exc_name](f"{step_name}:{_uid_of(ev)}:{inv['attempt']}")
        elif k == "resend_failed":
            # inside a @catch_error handler: re-emit the event whose processing failed (same lineage, next generation)
            orig = ev.input_event
            e = rec.mk(type(orig).__name__, "send", by=by, parent=_uid_of(orig), gen=(orig.get("gen") or 0) + 1)
            inv["sent"].append(_uid_of(e))
            ctx.send_event(e)
        elif k == "collect":
            _, tnames, buf = act
            got = ctx.collect_events(ev, [ge.POOL[t] for t in tnames], buf)
            if got is None:
                inv["collect"] = None
                return None
            inv["collect"] = [(type(e).__name__, _uid_of(e)) for e in got]
        elif k == "collect_cont":
            # collect_events whose incomplete result does NOT end the invocation: the body goes on (and may fail) in the same invocation
            _, tnames, buf = act
            got = ctx.collect_events(ev, [ge.POOL[t] for t in tnames], buf)
            inv["collect"] = None if got is None else [(type(e).__name__, _uid_of(e)) for e in got]
        elif k == "wait":
            _, tname, req, wid, timeout, with_wev, on_timeout = act
            if wid == "auto":
                wid = f"w-{step_name}-{_uid_of(ev)}"
            wev = rec.mk("Ask", "waiter_event", by=by, wid=wid) if with_wev else None
            try:
                got = await ctx.wait_for_event(
                    ge.POOL[tname], waiter_event=wev, waiter_id=wid, requirements=req or None, timeout=timeout
                )
            except asyncio.TimeoutError:
                inv["waits"].append({"wid": wid, "timeout": True})
                if on_timeout == "raise":
                    raise
                continue
            inv["waits"].append({"wid": wid, "got": _uid_of(got), "got_type": type(got).__name__, "got_fields": dict(got.items())})
        elif k == "set":
            await ctx.store.set(act[1], act[2])
        elif k == "incr":
            async with ctx.store.edit_state() as s:
                s[act[1]] = s.get(act[1], 0) + act[2]
        elif k == "ret":
            tname = act[1]
            if tname is None:
                return None
            if tname == "nonevent":
                return 12345
            if tname == "GStop":
                return rec.mk("GStop", "ret", by=by, result={"by": step_name, "in": _uid_of(ev)})
            e = rec.mk(tname, "ret", by=by, parent=_uid_of(ev))
            return e
        else:
            raise ValueError(f"unknown act {k}")
    return None


def build_workflow(spec: dict, runtime=None, retry_builder=None, wf_kwargs: dict | None = None):
    m = M()
    ge, step, Context, Workflow = m["ge"], m["step"], m["Context"], m["Workflow"]
    WaitingForEvent = m["results"].WaitingForEvent
    members: dict[str, Any] = {}
    all_ret = set()
    for s in spec["steps"]:
        for acts in s["acts"].values():
            for a in acts:
                if a[0] == "send":
                    all_ret.add(a[1])
                elif a[0] == "ret" and a[1] not in (None, "nonevent"):
                    all_ret.add(a[1])

    for s in spec["steps"]:
        name = s["name"]

        def make(s=s, name=name):
            async def body(self, ctx, ev):
                rec = cur()
                ri = ctx.retry_info()
                inv = {
                    "id": len(rec.inv),
                    "step": name,
                    "uid": _uid_of(ev),
                    "type": type(ev).__name__,
                    "attempt": ri.retry_number,
                    "ri": ri,
                    "t_in": VClock.t,
                    "s_in": rec.nseq(),
                    "s_out": None,
                    "t_out": None,
                    "exit": None,
                    "sent": [],
                    "streamed": [],
                    "waits": [],
                    "seg": rec.segment,
                    "fields": dict(ev.items()) if hasattr(ev, "items") else {},
                }
                if type(ev).__name__ == "StepFailedEvent":
                    inv["sfe"] = {
                        "step_name": ev.step_name,
                        "input_uid": _uid_of(ev.input_event),
                        "exc": ev.exception,
                        "attempts": ev.attempts,
                        "elapsed": ev.elapsed_seconds,
                    }
                rec.inv.append(inv)
                acts = s["acts"].get(type(ev).__name__, [])
                try:
                    out = await _interp(ctx, ev, acts, inv, rec, name)
                except WaitingForEvent:
                    inv["t_out"], inv["exit"], inv["s_out"] = VClock.t, "waiting", rec.nseq()
                    raise
                except asyncio.CancelledError:
                    inv["t_out"], inv["exit"], inv["s_out"] = VClock.t, "cancelled", rec.nseq()
                    if s.get("cancel_delay"):
                        # teardown that takes a moment to honour the cancellation (within the engine's 0.5 s grace)
                        try:
                            await asyncio.sleep(s["cancel_delay"])
                        except asyncio.CancelledError:
                            pass
                        inv["t_out"] = VClock.t
                    if s.get("cancel_note"):
                        # teardown code that reports progress while being cancelled
                        try:
                            ctx.write_event_to_stream(rec.mk("Note", "stream", by=(name, inv["id"]), on_cancel=True))
                        except Exception:  # noqa: BLE001
                            pass
                    raise
                except BaseException as e:  # noqa: BLE001
                    inv["t_out"], inv["exit"], inv["exc"], inv["s_out"] = VClock.t, "raised", e, rec.nseq()
                    raise
                inv["t_out"], inv["exit"], inv["s_out"] = VClock.t, "returned", rec.nseq()
                inv["out"] = _uid_of(out) if out is not None and hasattr(out, "get") else None
                inv["out_type"] = type(out).__name__ if out is not None else None
                return out

            return body

        body = make()
        body.__name__ = name
        body.__qualname__ = f"GenWf.{name}"
        accepted = tuple(_cls(t) for t in s["accepts"])
        declared = set(s.get("declares") or [])
        for acts in s["acts"].values():
            for a in acts:
                if a[0] == "send":
                    declared.add(a[1])
                elif a[0] == "ret" and a[1] not in (None, "nonevent"):
                    declared.add(a[1])
        if s.get("declare_stop", True):
            declared.add("GStop")
        ret_types = tuple(_cls(t) for t in sorted(declared)) + (type(None),)
        body.__annotations__ = {
            "ctx": Context,
            "ev": typing.Union[accepted] if len(accepted) > 1 else accepted[0],
            "return": typing.Union[ret_types],
        }
        if s.get("role") == "catch_error":
            members[name] = m["catch_error"](for_steps=s.get("for_steps"), max_recoveries=s.get("max_recoveries", 1))(body)
        else:
            rpol = (retry_builder or build_retry)(s.get("retry"))
            members[name] = step(num_workers=s.get("workers", 4), retry_policy=rpol)(body)
    cls = type("GenWf", (Workflow,), members)
    kw = dict(timeout=spec.get("timeout"), runtime=runtime)
    kw.update(wf_kwargs or {})
    return cls(**kw)


def _cls(tname: str):
    m = M()
    if tname == "StepFailedEvent":
        return m["wev"].StepFailedEvent
    return m["ge"].POOL[tname]


# ------------------------------------------------------------------ running


def horizon_of(spec: dict) -> float:
    tot = 0.0
    for s in spec["steps"]:
        r = s.get("retry") or {}
        tot += float(r.get("w", 0)) * max(1, int(r.get("n", 1))) * 4
        for acts in s["acts"].values():
            for a in acts:
                if a[0] == "sleep":
                    tot += a[1]
                elif a[0] == "wait" and a[4]:
                    tot += a[4]
    for e in spec.get("ext", []):
        tot += e[0]
    tot += float(spec.get("timeout") or 0)
    return 50.0 + 40.0 * tot


async def consume_stream(rec: Rec, handler) -> None:
    try:
        async for ev in handler.stream_events(expose_internal=True):
            rec.stream.append((VClock.t, ev))
            if type(ev).__name__ in ("WorkflowFailedEvent", "WorkflowTimedOutEvent", "WorkflowCancelledEvent", "GStop", "StopEvent"):
                gate = getattr(rec, "terminal_seen", None)
                if gate is None:
                    gate = rec.terminal_seen = asyncio.Event()
                gate.set()
        rec.consumer_done = True
    except asyncio.CancelledError:
        raise
    except BaseException as e:  # noqa: BLE001
        rec.notes.append({"consumer_error": repr(e)})
        rec.consumer_error = e
        rec.consumer_done = True


async def apply_ext(rec: Rec, handler, ext: list) -> None:
    """External stimuli at virtual times: ["send", type, target, fields] | ["cancel"]."""
    m = M()

    async def one(e):
        at = e[0]
        if at > VClock.t:
            await asyncio.sleep(at - VClock.t)
        op = e[1]
        try:
            if op == "send":
                _, _, tname, target, fields = e
                ev = rec.mk(tname, "ext", target=target, **(fields or {}))
                rec.handler.ctx.send_event(ev, step=target)
            elif op == "cancel":
                rec.notes.append({"cancel_at": VClock.t})
                await rec.handler.cancel_run(timeout=1e9)
        except m["werr"].WorkflowRuntimeError as ex:
            rec.notes.append({"ext_rejected": repr(ex)})
        except Exception as ex:  # noqa: BLE001
            rec.notes.append({"ext_error": repr(ex)})

    tasks = [asyncio.create_task(one(e)) for e in sorted(ext, key=lambda x: x[0])]
    rec.ext_tasks = set(tasks)
    try:
        await asyncio.gather(*tasks)
    except asyncio.CancelledError:
        for t in tasks:
            t.cancel()
        raise


def classify_outcome(rec: Rec, handler) -> dict:
    m = M()
    werr = m["werr"]
    t = handler._result_task
    if not t.done():
        return {"kind": "unfinished"}
    if t.cancelled():
        return {"kind": "task_cancelled"}
    exc = t.exception()
    if exc is None:
        return {"kind": "result", "stop": t.result()}
    if isinstance(exc, werr.WorkflowCancelledByUser):
        return {"kind": "cancelled", "exc": exc}
    if isinstance(exc, werr.WorkflowTimeoutError):
        return {"kind": "timeout", "exc": exc}
    return {"kind": "failed", "exc": exc}


async def run_program(spec: dict, rec: Rec, *, runtime=None, retry_builder=None, wf_kwargs=None, probe=False, ctx_factory=None, horizon=None, start=True, settle=5.0, wf_factory=None):
    """Run a generated program to completion or to the virtual horizon."""
    global CUR
    CUR = rec
    rec.probe = probe
    runtime = runtime or make_runtime()

    def _build():
        if wf_factory is not None:
            return wf_factory(spec, runtime)
        return build_workflow(spec, runtime=runtime, retry_builder=retry_builder, wf_kwargs=wf_kwargs)

    wf = _build()
    rec.wf = wf
    H = horizon if horizon is not None else horizon_of(spec)
    rec.horizon = H
    if ctx_factory is not None:
        handler = wf.run(ctx=ctx_factory(wf))
    elif spec.get("prior_run"):
        # an earlier, unrelated run on the same runtime ended under the very run id this run asks for; its handler is still referenced
        # and nobody read its stream.  The new submission is either refused (then it is made under a fresh id) or is a run of its own.
        m_ = M()

        wev_ = m_["wev"]

        async def only(self, ev):
            return wev_.StopEvent(result="prior")

        only.__qualname__ = "PriorWf.only"
        only.__annotations__ = {"ev": wev_.StartEvent, "return": wev_.StopEvent}
        prior_cls = type("PriorWf", (m_["Workflow"],), {"only": m_["step"](only)})
        rec.prior_handler = prior_cls(timeout=None, runtime=runtime).run(run_id="run-0")
        await asyncio.wait({rec.prior_handler._result_task}, timeout=5.0)
        try:
            handler = wf.run(start_event=rec.mk("GStart", "start"), run_id="run-0")
            rec.notes.append({"prior_run_id": "reused"})
        except Exception as e:  # noqa: BLE001
            rec.notes.append({"prior_run_id": "refused", "error": repr(e)[:120]})
            handler = wf.run(start_event=rec.mk("GStart", "start"), run_id="run-0b")
    else:
        handler = wf.run(start_event=rec.mk("GStart", "start"), run_id="run-0")
    rec.handler = handler
    consumer = asyncio.create_task(consume_stream(rec, handler))
    stim = asyncio.create_task(apply_ext(rec, handler, spec.get("ext", [])))
    t_end = H
    snap = spec.get("snap")
    if snap is not None:
        done, _ = await asyncio.wait({handler._result_task}, timeout=max(0.0, snap - VClock.t))
        if not done:
            import json as _json

            m = M()
            d = handler.ctx.to_dict()
            d = _json.loads(_json.dumps(d))
            rec.snapshot = d
            rec.snap_t = VClock.t
            rec.stream_seg0 = len(rec.stream)
            # "the process stops here": abort() alone leaves step tasks started in the current
            # wait_for_next_task call running, so kill every task of the first life explicitly
            handler._external_adapter.abort()
            keep = {asyncio.current_task(), stim} | set(getattr(rec, "ext_tasks", ()))
            victims = [t for t in asyncio.all_tasks() if t not in keep and not t.done()]
            for t in victims:
                t.cancel()
            await asyncio.gather(*victims, return_exceptions=True)
            rec.segment += 1
            rec.inv_seg0 = len(rec.inv)
            for inv in rec.inv:
                if inv["exit"] is None:
                    inv["exit"], inv["t_out"], inv["s_out"] = "aborted", VClock.t, rec.nseq()
            wf = _build()
            rec.wf = wf
            ctx2 = m["Context"].from_dict(wf, d)
            handler = wf.run(ctx=ctx2)
            if spec.get("resnap"):
                # the resumed run is serialized again at once (before its control loop had a turn), stopped, and resumed from THAT
                # snapshot: a snapshot of a just-restored state must be as good as the one it was restored from
                d2 = _json.loads(_json.dumps(handler.ctx.to_dict()))
                rec.snapshot2 = d2
                handler._external_adapter.abort()
                keep2 = {asyncio.current_task(), stim} | set(getattr(rec, "ext_tasks", ()))
                victims2 = [t for t in asyncio.all_tasks() if t not in keep2 and not t.done()]
                for t in victims2:
                    t.cancel()
                await asyncio.gather(*victims2, return_exceptions=True)
                wf = _build()
                rec.wf = wf
                handler = wf.run(ctx=m["Context"].from_dict(wf, d2))
            rec.handler = handler
            rec.resumed = True
            consumer = asyncio.create_task(consume_stream(rec, handler))
    done, _ = await asyncio.wait({handler._result_task}, timeout=max(0.0, t_end - VClock.t))
    rec.t_result = VClock.t if done else None
    # give the stream consumer a bounded amount of virtual time to terminate
    await asyncio.wait({consumer}, timeout=settle if done else 0.0)
    if not stim.done():
        await asyncio.wait({stim}, timeout=0)
    rec.outcome = classify_outcome(rec, handler)
    rec.consumer_finished = consumer.done()
    try:
        rec.publish_left = handler._external_adapter._queues.publish_queue.qsize()
        _left = list(getattr(handler._external_adapter._queues.publish_queue, "_queue", []))
        rec.publish_left_types = sorted({type(x).__name__ for x in _left})
        rec.publish_left_reaction = any(type(x).__name__ == "Note" and x.get("reaction", None) for x in _left)
    except Exception:  # noqa: BLE001
        rec.publish_left = None
    for t in (consumer, stim):
        if not t.done():
            t.cancel()
    if not handler._result_task.done():
        try:
            handler._external_adapter.abort()
        except Exception:  # noqa: BLE001
            pass
    await asyncio.gather(consumer, stim, return_exceptions=True)
    try:
        await asyncio.gather(handler._result_task, return_exceptions=True)
    except BaseException:  # noqa: BLE001
        pass
    return rec


def run_case_program(spec: dict, **kw) -> Rec:
    rec = Rec(spec)

    async def main():
        return await run_program(spec, rec, **kw)

    try:
        boot.run_virtual(main)
    finally:
        global CUR
        CUR = None
    return rec


# ------------------------------------------------------------------ program generator (Hypothesis)


def program_strategy(
    *,
    max_types: int = 4,
    retries: bool = True,
    ext_sends: bool = True,
    targeted: bool = True,
    stop_mode: str = "fin",  # "fin": only a Fin-triggered step stops; "any": steps may return GStop
    cancel: bool = False,
    timeouts: bool = False,
    nonevent: bool = False,
    collect: bool = False,
    waits: bool = False,
    resume: bool = False,
    unhandled: bool = False,
    reply_step: bool = False,
    ask: bool = False,
    ask_consumer: bool = False,  # the InputRequiredEvent a step returns may ALSO be consumed inside the workflow (audit step / waiter)
    max_events: int = 60,
):
    from hypothesis import strategies as st

    durations = st.sampled_from([0, 0, 1, 1, 1, 2, 2, 3, 5])

    @st.composite
    def prog(draw):
        k = draw(st.integers(1, max_types))
        types = [f"E{i}" for i in range(k)]
        order = ["GStart"] + types
        steps = []
        consumers: dict[str, list[str]] = {t: [] for t in order}
        # consumers: every type gets 1-2 accepting steps; a step may accept two types
        names = iter("abcdefghijklmnop")
        first = {"name": next(names), "accepts": ["GStart"]}
        steps.append(first)
        consumers["GStart"].append(first["name"])
        for t in types:
            n_cons = draw(st.sampled_from([1, 1, 2]))
            for _ in range(n_cons):
                reuse = [s for s in steps if len(s["accepts"]) == 1 and s["accepts"][0] != "GStart" and s["accepts"][0] < t and s["name"] not in consumers[t]]
                if reuse and draw(st.integers(0, 3)) == 0:
                    s = draw(st.sampled_from(reuse))
                    s["accepts"].append(t)
                else:
                    s = {"name": next(names), "accepts": [t]}
                    steps.append(s)
                consumers[t].append(s["name"])
        # producers: every type E_j must be emitted by some step accepting a lower type
        need = set(types)
        for s in steps:
            s["workers"] = draw(st.integers(1, 4))
            s["retry"] = None
            s["acts"] = {}
            if retries and draw(st.integers(0, 2)) == 0:
                s["retry"] = {"n": draw(st.integers(1, 3)), "w": draw(st.sampled_from([0, 0, 1, 2, 5]))}
        for s in steps:
            for acc in s["accepts"]:
                higher = [t for t in types if order.index(t) > order.index(acc)]
                acts = []
                d = draw(durations)
                if d:
                    acts.append(["sleep", d])
                if s["retry"] is not None and draw(st.integers(0, 1)) == 0:
                    upto = draw(st.integers(1, s["retry"]["n"]))
                    # fails on attempts < upto; upto == n means the last attempt still fails only if upto>=n... keep < n so it recovers
                    acts.append(["fail", min(upto, s["retry"]["n"] - 1) if stop_mode == "fin" else upto, "GenError"])
                    if acts[-1][1] <= 0:
                        acts.pop()
                nsend = draw(st.integers(0, 2)) if higher else 0
                for _ in range(nsend):
                    t = draw(st.sampled_from(higher))
                    n = draw(st.integers(1, 3))
                    tgt = None
                    if targeted and draw(st.integers(0, 3)) == 0:
                        tgt = draw(st.sampled_from(consumers[t]))
                    acts.append(["send", t, n, tgt])
                    need.discard(t)
                if draw(st.integers(0, 3)) == 0:
                    for _ in range(draw(st.sampled_from([0, 0, 1, 2]))):
                        acts.append(["sleep", 0])  # bare yields: move the publication to a later loop iteration
                    acts.append(["stream", "Note"])
                if draw(st.integers(0, 3)) == 0:
                    acts.append(["sleep", draw(durations)])
                r = None
                if higher and draw(st.integers(0, 2)) > 0:
                    r = draw(st.sampled_from(higher))
                    need.discard(r)
                elif stop_mode == "any" and draw(st.integers(0, 5)) == 0:
                    r = "GStop"
                elif nonevent and draw(st.integers(0, 9)) == 0:
                    r = "nonevent"
                elif ask and draw(st.integers(0, 5)) == 0:
                    r = "Ask"
                acts.append(["ret", r])
                s["acts"][acc] = acts
        # make sure every type is produced: add sends to the start step (or nearest lower consumer)
        for t in sorted(need):
            lower = [s for s in steps if any(order.index(a) < order.index(t) for a in s["accepts"])]
            s = lower[0]
            acc = [a for a in s["accepts"] if order.index(a) < order.index(t)][0]
            s["acts"][acc].insert(len(s["acts"][acc]) - 1, ["send", t, 1, None])
        if reply_step and draw(st.integers(0, 1)) == 0:
            rs = {"name": next(names), "accepts": ["Reply"], "workers": draw(st.integers(1, 3)), "retry": None,
                  "acts": {"Reply": [["sleep", draw(durations)], ["ret", None]]}}
            if draw(st.integers(0, 1)) == 0:
                # the same step also waits for a (second) Reply when it gets one as input
                rs["acts"]["Reply"].insert(0, ["wait", "Reply", {}, "auto", draw(st.sampled_from([None, 4, 9])), False, "continue"])
                n_wait_extra = 1
            steps.append(rs)
            consumers.setdefault("Reply", []).append(rs["name"])
        ask_inside = bool(ask and ask_consumer and draw(st.integers(0, 2)) == 0)
        if ask_inside:
            rets = [acts for s_ in steps for acts in s_["acts"].values()]
            if not any(acts[-1] == ["ret", "Ask"] for acts in rets):
                free_ = [acts for acts in rets if acts[-1] == ["ret", None]]
                if free_:
                    draw(st.sampled_from(free_))[-1][1] = "Ask"
                else:
                    ask_inside = False
        if ask_inside and draw(st.integers(0, 2)) > 0:
            steps.append({"name": next(names), "accepts": ["Ask"], "workers": draw(st.integers(1, 2)), "retry": None,
                          "acts": {"Ask": [["sleep", draw(durations)], ["ret", None]]}})
        if collect:
            for s in steps:
                if len(s["accepts"]) == 2 and draw(st.integers(0, 1)) == 0:
                    a, b = s["accepts"]
                    exp = draw(st.sampled_from([[a, b], [b, a], [a, a, b], [a, b, b]]))
                    for acc in s["accepts"]:
                        s["acts"][acc].insert(0, ["collect", exp, draw(st.sampled_from([None, "buf"]))])
                elif len(s["accepts"]) == 1 and s["accepts"][0] != "GStart" and draw(st.integers(0, 5)) == 0:
                    a = s["accepts"][0]
                    s["acts"][a].insert(0, ["collect", [a] * draw(st.integers(2, 3)), None])
        n_wait = 0
        if waits:
            for s in steps:
                for acc in s["accepts"]:
                    if draw(st.integers(0, 3)) == 0 and not any(x[0] == "collect" for x in s["acts"][acc]):
                        to = draw(st.sampled_from([None, None, 2, 5, 9]))
                        s["acts"][acc].insert(
                            0, ["wait", draw(st.sampled_from(["Reply", "Reply", "Reply2"] + (["Ask", "Ask"] if ask_inside else []))), {}, "auto", to, draw(st.booleans()), "continue"]
                        )
                        n_wait += 1
        # the finishing step
        fin = {"name": "fin", "accepts": ["Fin"], "workers": 1, "retry": None, "acts": {"Fin": [["ret", "GStop"]]}}
        steps.append(fin)
        spec = {"steps": steps, "timeout": None, "ext": [], "ties": draw(st.lists(st.integers(0, 7), min_size=0, max_size=12))}
        _cap_events(spec, order, max_events)
        if ext_sends:
            for _ in range(draw(st.integers(0, 3))):
                t = draw(st.sampled_from(types))
                tgt = None
                if t in consumers and targeted and draw(st.integers(0, 2)) == 0:
                    tgt = draw(st.sampled_from(consumers[t]))
                spec["ext"].append([draw(st.sampled_from([0, 0, 1, 2, 3, 5, 8])), "send", t, tgt, {}])
        if unhandled:
            for _ in range(draw(st.integers(0, 3))):
                spec["ext"].append([draw(st.sampled_from([0, 1, 2, 3, 5, 8])), "send", draw(st.sampled_from(["E5", "Reply2", "Ask", "Note", "E0Sub", "E0Sub", "ReplySub"])), None, {}])
        if n_wait or reply_step:
            for _ in range(draw(st.integers(0, 4))):
                spec["ext"].append([draw(st.sampled_from([0, 1, 2, 3, 4, 5, 6, 8, 10, 12])), "send", draw(st.sampled_from(["Reply", "Reply", "Reply2"])), None, {}])
        if cancel and draw(st.integers(0, 1)) == 0:
            spec["ext"].append([draw(st.sampled_from([0, 1, 1, 2, 3, 5, 8, 13])), "cancel"])
        if timeouts and draw(st.integers(0, 1)) == 0:
            spec["timeout"] = draw(st.sampled_from([1, 2, 3, 4, 5, 8, 13, 21]))
        if resume and draw(st.integers(0, 2)) == 0:
            spec["snap"] = draw(st.sampled_from([0, 1, 1, 2, 2, 3, 4, 5, 6, 8, 10]))
        return spec

    return prog()


def _cap_events(spec: dict, order: list[str], max_events: int) -> None:
    """Bound the static fan-out (number of deliveries) by decrementing send multiplicities."""
    for _ in range(200):
        cnt = static_counts(spec, order)
        if sum(cnt.values()) <= max_events:
            return
        best = None
        for s in spec["steps"]:
            for acts in s["acts"].values():
                for a in acts:
                    if a[0] == "send" and a[2] > 1 and (best is None or a[2] > best[2]):
                        best = a
        if best is None:
            # drop a send altogether (never the only producer of a type: keep first occurrence)
            seen = set()
            for s in spec["steps"]:
                for acts in s["acts"].values():
                    for a in list(acts):
                        if a[0] == "send":
                            if a[1] in seen:
                                acts.remove(a)
                                break
                            seen.add(a[1])
            return
        best[2] -= 1


def static_counts(spec: dict, order: list[str]) -> dict[str, float]:
    """Expected number of event instances per type if nothing fails (fan-out bound)."""
    cnt = {t: 0.0 for t in order}
    cnt["GStart"] = 1.0
    for t in order:
        for s in spec["steps"]:
            if t in s["accepts"]:
                for a in s["acts"].get(t, []):
                    if a[0] == "send":
                        cnt[a[1]] = cnt.get(a[1], 0) + cnt[t] * a[2] * (1 if a[3] else 1)
                    elif a[0] == "ret" and a[1] in cnt:
                        cnt[a[1]] += cnt[t]
    return cnt


def fin_time(spec: dict) -> float:
    """A virtual instant by which a generated program (without Fin) is certainly quiescent."""
    S = R = 0.0
    n_inv = 5
    for st_ in spec["steps"]:
        r = st_.get("retry") or {}
        R += float(r.get("w", 0)) * max(1, int(r.get("n", 1)))
        for acts in st_["acts"].values():
            for a in acts:
                if a[0] == "sleep":
                    S += a[1]
                elif a[0] == "wait" and a[4]:
                    S += a[4]
                elif a[0] == "send":
                    n_inv += a[2] * 4
                n_inv += 1
    ext = max([e[0] for e in spec.get("ext", [])] + [0])
    return 20.0 + ext + (S + R + 1.0) * (n_inv * 4 + 60)


def consumers_of(spec: dict) -> dict[str, list[str]]:
    out: dict[str, list[str]] = {}
    for s in spec["steps"]:
        for a in s["accepts"]:
            out.setdefault(a, []).append(s["name"])
    return out
