"""C12 — pausing to a serialized context and resuming gives the same result (metamorphic) + serialization stability."""

from __future__ import annotations

import asyncio
import json
import typing

from hypothesis import strategies as st

from .. import boot, genwf
from ..boot import Runaway, VClock
from ..runner import CaseResult, Prop
from .c11 import _canon, norm


class C12(Prop):
    id = "C12"
    rule = (
        "cases = a deterministic workflow (fan-out of 1-5 jobs to a worker step with num_workers 1..3 and a retry policy of 1-4 "
        "attempts with delay 0/1/3, per-job virtual durations and numbers of failing attempts, idempotent state-store writes keyed by "
        "job; a collect_events gatherer; optionally a final wait_for_event with or without requirements answered by an external reply) "
        "and a snapshot instant. The workflow is run once uninterrupted and once interrupted: ctx.to_dict() at the instant, through "
        "json.dumps/loads, every task of the first life killed, a fresh workflow instance resumed from Context.from_dict. Oracle: the "
        "resumed run finishes (virtual horizon) with the same result and state-store contents; per job the attempt numbers seen after "
        "the resume continue from the failures recorded before it and the total executions stay within the policy budget (+1 for an "
        "attempt that was in flight); the serialized form is a fixpoint after one round trip (from_serialized/to_serialized twice). "
        "Non-trivial = the snapshot was taken with at least one queued, running, collecting, waiting or retry-pending item."
    )
    assumptions = [
        "determinism: the result is a function of job payloads and the reply payload only; state writes are idempotent sets",
        "'the process stops' = abort() plus cancellation of every task of the first life at one virtual instant",
        "the external reply is sent once at a generated instant and again late, so that it reaches the waiter in both runs",
    ]
    budgets = {"quick": 2000, "thorough": 10000}
    wall = {"quick": 60.0, "thorough": 900.0}

    def setup(self):
        m = genwf.M()
        from workflows.runtime.types.internal_state import BrokerState

        self.BrokerState = BrokerState
        self.m = m

    def strategy(self, tier):
        @st.composite
        def case(draw):
            n = draw(st.integers(1, 5))
            attempts = draw(st.integers(1, 4))
            jobs = [{"d": draw(st.sampled_from([0, 1, 1, 2, 3, 5])), "fail": draw(st.integers(0, attempts - 1))} for _ in range(n)]
            return {
                "jobs": jobs,
                "workers": draw(st.integers(1, 3)),
                "attempts": attempts,
                "retry_wait": draw(st.sampled_from([0, 0, 1, 3])),
                "gather_workers": draw(st.integers(1, 2)),
                "gather_post": draw(st.sampled_from([0, 0, 1, 2])),
                "wait": draw(st.sampled_from([None, None, "plain", "req"])),
                "ask_post": draw(st.sampled_from([0, 1, 2, 3])),
                "reply_at": draw(st.sampled_from([0, 2, 4, 6, 9, 13, 18, 25])),
                "snap": draw(st.sampled_from([0, 1, 1, 2, 2, 3, 3, 4, 5, 6, 7, 8, 10, 12, 15, 20])),
                "ties": draw(st.lists(st.integers(0, 7), max_size=8)),
                # K more work items that carry NO payload at all (equal-valued events, as a plain `Tick()` fan-out produces),
                # processed by their own step with fewer workers than items: some run while equal ones are still queued
                "anon": draw(st.sampled_from([0, 0, 2, 3, 4])),
                "anon_workers": draw(st.integers(1, 2)),
                "anon_d": draw(st.sampled_from([1, 2, 3])),
            }

        from .c08 import C08

        def contend(p):
            spec, snap, busy, d = p
            if busy:
                # one worker, several lineages, slow bodies: what a handler re-emits has to QUEUE behind the other lineages
                spec = json.loads(json.dumps(spec))
                b = spec["steps"][1]
                b["workers"] = 1
                b["acts"]["E0"][0] = ["sleep", d]
                send = spec["steps"][0]["acts"]["GStart"][0]
                send[2] = max(send[2], 2)
                for s_ in spec["steps"]:
                    if s_.get("role") == "catch_error" and (s_["for_steps"] is None or "b" in s_["for_steps"]) and busy > 1:
                        s_["acts"]["StepFailedEvent"] = [["sleep", 0], ["resend_failed"], ["ret", None]]
                        s_["action"] = "resend"
            return {"handler": spec, "snap": snap}

        handler = st.tuples(C08().strategy(tier), st.sampled_from([0, 1, 1, 2, 2, 3, 4, 5, 6, 8]), st.sampled_from([0, 0, 1, 2]), st.sampled_from([1, 2, 3])).map(contend)
        return st.one_of(case(), case(), case(), handler)

    # ------------------------------------------------------------------ @catch_error programs across a snapshot
    def run_handler_case(self, case):
        """C08's program family (failing steps, @catch_error handlers with recovery budgets) snapshotted at a generated instant:
        the recovery budget of a lineage is part of what a resumed run must remember."""
        from .c08 import C08

        r = CaseResult()
        c8 = C08()
        spec = c8.prepare(case["handler"])
        try:
            ref = genwf.run_case_program(json.loads(json.dumps(spec)), probe=False)
        except Runaway:
            raise RuntimeError("inconclusive reference run") from None
        spec2 = json.loads(json.dumps(spec))
        spec2["snap"] = case["snap"]
        try:
            rec = genwf.run_case_program(spec2, probe=False)
        except Runaway:
            r.v("resumed_run_runaway", handler_program=True)
            return r
        r.classes.append("handler_program")
        if not rec.resumed:
            r.classes.append("finished_before_snapshot")
            return r
        handlers = {s_["name"]: s_ for s_ in spec["steps"] if s_.get("role") == "catch_error"}
        parent = {}
        for inv in rec.inv:
            p_ = inv["fields"].get("parent") if inv.get("fields") else None
            if inv["uid"] is not None and p_ is not None:
                parent[inv["uid"]] = p_

        def root(u):
            for _ in range(50):
                p_ = parent.get(u)
                if p_ is None or rec.emits.get(p_, {}).get("type") == "GStart":
                    return u
                u = p_
            return u

        # what the snapshot held for recovery lineages
        d = rec.snapshot or {}
        queued_lineage = 0
        for w in d.get("workers", {}).values():
            for q in w.get("queue", []):
                if q.get("recovery_counts"):
                    queued_lineage += 1
                    if q.get("first_attempt_at") is None:
                        r.classes.append("snap_recovery_lineage_event_queued_unstarted")
        if queued_lineage:
            r.classes.append("snap_recovery_lineage_event_queued")
        # a recovery-lineage event (re-emitted by a handler: its parent is not the start event) running when the snapshot was taken
        lineage_in_flight = False
        for w in d.get("workers", {}).values():
            for raw in w.get("in_progress", []):
                try:
                    obj = json.loads(raw)
                    if obj.get("qualified_name", "").endswith("StepFailedEvent"):
                        lineage_in_flight = True  # a handler invocation: its StepFailedEvent carries the lineage's recovery counts
                        continue
                    f = obj["value"]["_data"]
                except Exception:  # noqa: BLE001
                    continue
                p_ = f.get("parent")
                if p_ is not None and rec.emits.get(p_, {}).get("type") != "GStart":
                    lineage_in_flight = True
        # a retry delay being waited out at the snapshot instant (first-life body log)
        retry_cfg = {s_["name"]: s_.get("retry") or {} for s_ in spec["steps"]}
        snap_t = rec.snap_t
        backoff = False
        inv0 = [i for i in rec.inv if i["seg"] == 0]
        for i in inv0:
            cfg = retry_cfg.get(i["step"], {})
            if i["exit"] == "raised" and "sfe" not in i and i["attempt"] + 1 < cfg.get("n", 1) and cfg.get("w", 0) > 0 and i["t_out"] is not None:
                if i["t_out"] <= snap_t + 1e-9 <= i["t_out"] + cfg["w"] + 2e-9 and not any(
                    j["step"] == i["step"] and j["uid"] == i["uid"] and j["attempt"] > i["attempt"] for j in inv0
                ):
                    backoff = True
        if backoff:
            r.classes.append("snap_retry_backoff")
        if lineage_in_flight:
            r.classes.append("snap_recovery_lineage_event_in_flight")
        attrs = dict(handler_program=True, lineage_event_queued_at_snapshot=bool(queued_lineage), lineage_event_in_flight_at_snapshot=lineage_in_flight, retry_backoff_pending=backoff)
        entries: dict = {}
        seen_sfe = set()
        for inv in rec.inv:
            e = inv.get("sfe")
            if not e:
                continue
            # a handler invocation that was running at the snapshot is started again after the resume: the same failure, one entry
            ident = (inv["step"], e["step_name"], e["input_uid"])
            if ident in seen_sfe:
                continue
            seen_sfe.add(ident)
            k = (inv["step"], root(e["input_uid"]))
            entries[k] = entries.get(k, 0) + 1
        for (h, _rt), n in entries.items():
            if n > handlers[h]["max_recoveries"]:
                r.v("recovery_budget_exceeded_across_resume", handler=h, entries=n, max_recoveries=handlers[h]["max_recoveries"], **attrs)
                break
        if any(v >= 2 for v in entries.values()):
            r.classes.append("lineage_reentered")
        # the resumed run ends the way the uninterrupted one does -- judged only for programs whose way of ending does not depend on
        # which of two terminal causes comes first (a handler's StopEvent racing an unowned failure, ...): work that was in flight at
        # the snapshot legitimately starts over and takes longer, which may reverse such a race
        kinds = set()
        handlers_by_step = {}
        for h_ in handlers.values():
            for t_ in (h_["for_steps"] or ["b", "c"]):
                handlers_by_step.setdefault(t_, h_)
        for h_ in handlers.values():  # scoped handlers take precedence over the wildcard
            for t_ in (h_["for_steps"] or []):
                handlers_by_step[t_] = h_
        sends_e1 = any(a_[0] == "send" and a_[1] == "E1" for a_ in spec["steps"][0]["acts"]["GStart"])
        for s_ in spec["steps"]:
            if s_["name"] not in ("b", "c") or (s_["name"] == "c" and not sends_e1):
                continue
            if not any(a_[0] == "fail_gen" for acts in s_["acts"].values() for a_ in acts):
                continue
            owner_ = handlers_by_step.get(s_["name"])
            if owner_ is None:
                kinds.add("failed")
            elif owner_["action"] == "stop":
                kinds.add("result_by_handler")
            elif owner_["action"] in ("raise", "resend"):
                kinds.add("failed")
        race_free = len(kinds) <= 1
        if race_free:
            r.classes.append("ending_independent_of_timing")
        a, b = ref.outcome["kind"], rec.outcome["kind"]
        if a != b and race_free:
            r.v("outcome_differs_from_uninterrupted", uninterrupted=a, resumed=b, **attrs)
        r.nontrivial = bool(entries) and any(i["seg"] > 0 for i in rec.inv if "sfe" in i) or bool(queued_lineage)
        r.sample = {"case": case, "uninterrupted": a, "resumed": b, "handler_entries": sum(entries.values())}
        return r

    # ------------------------------------------------------------------ workflow
    def _factory(self, case, rec, log):
        m = self.m
        ge, step, Context, Workflow, rp = m["ge"], m["step"], m["Context"], m["Workflow"], m["rp"]
        jobs = case["jobs"]
        N = len(jobs)

        K = case.get("anon", 0)

        async def start(self, ctx, ev):
            for i in range(N):
                ctx.send_event(rec.mk("E1", "send", idx=i))
            for _ in range(K):
                ctx.send_event(ge.E0())
            return None

        async def anon(self, ctx, ev):
            ent = {"seg": rec.segment, "t_in": VClock.t, "t_out": None, "exit": None}
            log.setdefault("anon", []).append(ent)
            try:
                await asyncio.sleep(case.get("anon_d", 1))
                ent["exit"] = "returned"
                return ge.E4()
            except asyncio.CancelledError:
                ent["exit"] = "cancelled"
                raise
            finally:
                ent["t_out"] = VClock.t

        async def work(self, ctx, ev):
            i = ev.get("idx")
            ri = ctx.retry_info()
            ent = {"idx": i, "attempt": ri.retry_number, "seg": rec.segment, "t_in": VClock.t, "t_out": None, "exit": None}
            log["work"].append(ent)
            try:
                if jobs[i]["d"]:
                    await asyncio.sleep(jobs[i]["d"])
                if ri.retry_number < jobs[i]["fail"]:
                    raise ge.GenError(f"job{i}:{ri.retry_number}")
                await ctx.store.set(f"j{i}", i * 7 + 1)
                ent["exit"] = "returned"
                return rec.mk("E2", "ret", idx=i)
            except asyncio.CancelledError:
                ent["exit"] = "cancelled"
                raise
            except BaseException:  # noqa: BLE001
                ent["exit"] = "raised"
                raise
            finally:
                ent["t_out"] = VClock.t

        async def gather(self, ctx, ev):
            got = ctx.collect_events(ev, [ge.E2] * N + [ge.E4] * K)
            if got is None:
                return None
            ids = sorted(e.get("idx") for e in got if isinstance(e, ge.E2))
            log["gathered"].append({"ids": ids, "seg": rec.segment, "t": VClock.t})
            if case["gather_post"]:
                await asyncio.sleep(case["gather_post"])
            return rec.mk("E3", "ret", ids=ids)

        async def ask(self, ctx, ev):
            reply = None
            if case["wait"]:
                req = {"key": "k"} if case["wait"] == "req" else None
                r = await ctx.wait_for_event(ge.Reply, waiter_id="ask", requirements=req, timeout=None)
                reply = r.get("key")
                log["asked"].append({"seg": rec.segment, "n": r.get("n"), "t": VClock.t})
                if case.get("ask_post"):
                    await asyncio.sleep(case["ask_post"])
                await ctx.store.set("reply", reply)
            state = await ctx.store.get_state()
            data = dict(state.items()) if hasattr(state, "items") else dict(state)
            return rec.mk("GStop", "ret", result={"ids": ev.get("ids"), "reply": reply, "store": {k: data[k] for k in sorted(data)}})

        def ann(fn, name, ev_t, ret_t):
            fn.__name__ = name
            fn.__qualname__ = f"C12Wf.{name}"
            fn.__annotations__ = {"ctx": Context, "ev": ev_t, "return": ret_t}
            return fn

        Nn = type(None)
        U = typing.Union
        members = {
            "start": step(ann(start, "start", ge.GStart, U[ge.E1, ge.E0, Nn] if K else U[ge.E1, Nn])),
            **({"anon": step(num_workers=case.get("anon_workers", 1))(ann(anon, "anon", ge.E0, U[ge.E4, Nn]))} if K else {}),
            "work": step(num_workers=case["workers"], retry_policy=rp.retry_policy(wait=rp.wait_fixed(case["retry_wait"]), stop=rp.stop_after_attempt(case["attempts"])))(
                ann(work, "work", ge.E1, U[ge.E2, Nn])
            ),
            "gather": step(num_workers=case["gather_workers"])(ann(gather, "gather", U[ge.E2, ge.E4] if K else ge.E2, U[ge.E3, Nn])),
            "ask": step(ann(ask, "ask", ge.E3, ge.GStop)),
        }
        cls = type("C12Wf", (Workflow,), members)

        def factory(spec, runtime):
            return cls(timeout=None, runtime=runtime)

        return factory

    def _run(self, case, snap):
        log = {"work": [], "gathered": [], "asked": []}
        span = sum(j["d"] * case["attempts"] for j in case["jobs"]) + case["retry_wait"] * case["attempts"] * len(case["jobs"]) + case["gather_post"] + case["reply_at"] + 10
        late = 3 * span + 20
        ext = []
        if case["wait"]:
            ext = [[case["reply_at"], "send", "Reply", None, {"key": "k", "n": 1}], [late, "send", "Reply", None, {"key": "k", "n": 2}]]
        spec = {"steps": [], "ext": ext, "ties": case["ties"], "timeout": None}
        if snap is not None:
            spec["snap"] = snap
        rec = genwf.Rec(spec)

        async def main():
            return await genwf.run_program(spec, rec, wf_factory=self._factory(case, rec, log), horizon=late * 3 + 60, probe=False)

        try:
            boot.run_virtual(main)
        finally:
            genwf.CUR = None
        return rec, log

    def run_case(self, case):
        case = json.loads(json.dumps(case))
        if "handler" in case:
            return self.run_handler_case(case)
        r = CaseResult()
        try:
            ref, ref_log = self._run(case, None)
        except Runaway as e:
            raise RuntimeError(f"inconclusive reference run: {e}") from None
        if ref.outcome["kind"] != "result":
            # the reference itself must be a clean deterministic completion, otherwise the case says nothing
            r.v("reference_run_did_not_complete", outcome=ref.outcome["kind"], exc=repr(ref.outcome.get("exc"))[:100])
            return r
        want = ref.outcome["stop"].result if hasattr(ref.outcome["stop"], "result") else ref.outcome["stop"]
        try:
            rec, log = self._run(case, case["snap"])
        except Runaway as e:
            r.v("resumed_run_runaway", detail=str(e)[:80])
            return r
        if not rec.resumed:
            r.classes.append("finished_before_snapshot")
            r.sample = {"case": case, "resumed": False}
            return r
        snap_t = rec.snap_t
        d = rec.snapshot
        # ---- what was pending at the snapshot (from the body log of the first life and the snapshot itself)
        w0 = [e for e in log["work"] if e["seg"] == 0]
        # in flight = what the snapshot itself lists as running for the worker step (a body that returned or raised at the
        # snapshot instant, but whose result had not been processed yet, is still in flight as far as the engine knows)
        snap_running = set()
        for raw in d.get("workers", {}).get("work", {}).get("in_progress", []):
            try:
                snap_running.add(json.loads(raw)["value"]["_data"]["idx"])
            except Exception:  # noqa: BLE001
                pass
        in_flight = sorted({e["idx"] for e in w0 if e["exit"] in ("cancelled", None)} | snap_running)
        fails0 = {}
        done0 = set()
        for e in w0:
            processed = e["t_out"] is not None and (e["t_out"] < snap_t or e["idx"] not in snap_running)
            if e["exit"] == "raised" and processed:
                fails0[e["idx"]] = fails0.get(e["idx"], 0) + 1
            if e["exit"] == "returned" and processed:
                done0.add(e["idx"])
        backoff = sorted(
            i for i, n in fails0.items() if i not in done0 and i not in in_flight and n < case["attempts"] and case["retry_wait"] > 0
            and max(e["t_out"] for e in w0 if e["idx"] == i) + case["retry_wait"] >= snap_t
        )
        workers = d.get("workers", {})
        queued = sum(len(w.get("queue", [])) for w in workers.values())
        running = sum(len(w.get("in_progress", [])) for w in workers.values())
        collecting = sum(len(v) for w in workers.values() for v in w.get("collected_events", {}).values())
        waiting = sum(len(w.get("collected_waiters", [])) for w in workers.values())
        for name, n in (("queued", queued), ("running", running), ("collecting", collecting), ("waiting", waiting), ("retry_backoff", len(backoff))):
            if n:
                r.classes.append("snap_" + name)
        if case.get("anon"):
            r.classes.append("payloadless_items")
            aw = d.get("workers", {}).get("anon", {})
            if aw.get("in_progress") and aw.get("queue"):
                r.classes.append("snap_equal_events_running_and_queued")
        r.nontrivial = bool(queued or running or collecting or waiting or backoff)
        attrs = dict(retry_backoff_pending=bool(backoff), in_flight_with_failures=any(fails0.get(i) for i in in_flight))

        # ---- (1) equivalence of outcome
        kind = rec.outcome["kind"]
        if kind == "unfinished":
            r.v("resumed_run_did_not_finish", **attrs)
        elif kind != "result":
            r.v("resumed_run_wrong_outcome", outcome=kind, exc=type(rec.outcome.get("exc")).__name__, **attrs)
        else:
            got = rec.outcome["stop"].result
            if _canon(got) != _canon(want):
                field = next((k for k in ("ids", "reply", "store") if _canon((got or {}).get(k)) != _canon((want or {}).get(k))), "other") if isinstance(got, dict) and isinstance(want, dict) else "type"
                r.v("resumed_result_differs", field=field, **attrs)
        # ---- (1b) a wait that had already returned an event before the snapshot must return that very event after the resume
        a0 = [a for a in log["asked"] if a["seg"] == 0]
        a1 = [a for a in log["asked"] if a["seg"] == 1]
        if a0:
            r.classes.append("snap_resolved_waiter")
            if a1 and a1[0]["n"] != a0[0]["n"]:
                r.v("resolved_wait_returned_other_event_after_resume", had=a0[0]["n"], got=a1[0]["n"])
        # ---- (2) retry counts / budgets across the two lives
        w1 = [e for e in log["work"] if e["seg"] == 1]
        for i in range(len(case["jobs"])):
            e1 = [e for e in w1 if e["idx"] == i]
            if i in done0:
                # completed strictly before the snapshot: must not run again
                t_done = max(e["t_out"] for e in w0 if e["idx"] == i and e["exit"] == "returned")
                if e1 and t_done < snap_t:
                    r.v("completed_invocation_reexecuted", **attrs)
                continue
            if not e1:
                continue
            first = e1[0]["attempt"]
            prior_fail = fails0.get(i, 0)
            if first < prior_fail:
                r.v("retry_count_reset_on_resume", was_in_flight=i in in_flight, failures_before=prior_fail, attempt_after=first)
            total = len([e for e in w0 if e["idx"] == i]) + len(e1)
            budget = case["attempts"] + (1 if i in in_flight else 0)
            if total > budget:
                r.v("executions_exceed_retry_budget", was_in_flight=i in in_flight, total=total, budget=budget)
        # ---- (3) serialized form is a fixpoint after one round trip
        try:
            Context, BrokerState = self.m["Context"], self.BrokerState
            wf = self._factory(case, genwf.Rec({"ext": []}), {"work": [], "gathered": [], "asked": []})(None, genwf.make_runtime())
            ctx1 = Context.from_dict(wf, json.loads(json.dumps(d)))
            pre = ctx1._face
            ser = pre._serializer
            s1 = BrokerState.from_serialized(pre.init_snapshot, wf, ser)
            d2 = s1.to_serialized(ser)
            d2j = json.loads(json.dumps(d2.model_dump(mode="python")))
            ctx2 = Context.from_dict(wf, dict(d2j, state=d.get("state", {})))
            s2 = BrokerState.from_serialized(ctx2._face.init_snapshot, wf, ser)
            d3j = json.loads(json.dumps(s2.to_serialized(ser).model_dump(mode="python")))
            if _canon(norm(s1)) != _canon(norm(s2)):
                r.v("state_changes_on_second_round_trip")
            if _canon(d2j) != _canon(d3j):
                r.v("serialized_form_not_a_fixpoint")
        except Exception as e:  # noqa: BLE001
            r.v("round_trip_raised", error=type(e).__name__, detail=str(e)[:120])
        r.classes.append("outcome_" + kind)
        r.sample = {"case": case, "snap_t": snap_t, "pending": {"queued": queued, "running": running, "collecting": collecting, "waiting": waiting, "retry_backoff": len(backoff)}}
        return r


PROP = C12
