"""C19 — state stores agree with a plain nested-dict model; get_state() results are isolated snapshots.

One case = a root type (DictState, or a typed pydantic model ChildState(ParentState)) and a list of store operations.
The same list is executed on a fresh InMemoryStateStore and on a fresh SqliteStateStore (created the way the server does it:
SqliteWorkflowStore(db_path).create_state_store(run_id, state_type) on a temp file); each run is compared operation by operation
with a reference model made of plain dicts / lists / field tables that implements the documented dotted-path rules.
"""

from __future__ import annotations

import copy
import os
import shutil
import tempfile
from typing import Any

from hypothesis import strategies as st
from pydantic import BaseModel, Field

from .. import boot
from ..runner import CaseResult, Prop

# ----------------------------------------------------------------------------- state models used by the typed cases
# (module level: the JSON serializer of the repository re-imports them by qualified name when the SQLite store reloads a row)


class Inner(BaseModel):
    num: int = 0
    meta: dict[str, Any] = Field(default_factory=dict)


class ParentState(BaseModel):
    num: int = 0
    label: str = "p"
    tags: list[Any] = Field(default_factory=list)
    meta: dict[str, Any] = Field(default_factory=dict)


class ChildState(ParentState):
    label: str = "c"
    extra: Any = None
    inner: Inner = Field(default_factory=Inner)


class Unrelated(BaseModel):
    other: int = 1


# ----------------------------------------------------------------------------- reference model

MISSING = object()
UNDEF = object()  # behaviour not covered by the documented rules (index into a string): the operation is not executed


class Obj:
    """A typed node of the model: class name + field table."""

    __slots__ = ("cls", "f")

    def __init__(self, cls: str, f: dict):
        self.cls = cls
        self.f = f


class Opaque:
    def __init__(self, what: str):
        self.what = what


SCHEMA = {
    "Inner": {"num": "int", "meta": "dict"},
    "ParentState": {"num": "int", "label": "str", "tags": "list", "meta": "dict"},
    "ChildState": {"num": "int", "label": "str", "tags": "list", "meta": "dict", "extra": "any", "inner": "Inner"},
}


def default_obj(cls: str) -> Obj:
    if cls == "Inner":
        return Obj("Inner", {"num": 0, "meta": {}})
    if cls == "ParentState":
        return Obj("ParentState", {"num": 0, "label": "p", "tags": [], "meta": {}})
    if cls == "ChildState":
        return Obj("ChildState", {"num": 0, "label": "c", "tags": [], "meta": {}, "extra": None, "inner": default_obj("Inner")})
    raise KeyError(cls)


def type_ok(kind: str, v: Any) -> bool:
    if kind == "int":
        return type(v) is int
    if kind == "str":
        return type(v) is str
    if kind == "list":
        return type(v) is list
    if kind == "dict":
        return type(v) is dict
    if kind == "any":
        return not isinstance(v, Obj)
    return isinstance(v, Obj) and v.cls == kind


def is_idx(seg: str) -> bool:
    return seg.isdigit() and seg.isascii() and (seg == "0" or not seg.startswith("0"))


def m_step(node: Any, seg: str) -> Any:
    """Documented traversal: dict key, list index, or attribute (field) of a model."""
    if isinstance(node, dict):
        return node[seg] if seg in node else MISSING
    if isinstance(node, list):
        if is_idx(seg) and int(seg) < len(node):
            return node[int(seg)]
        return MISSING
    if isinstance(node, Obj):
        return node.f[seg] if seg in node.f else MISSING
    if isinstance(node, str) and is_idx(seg):
        return UNDEF
    return MISSING


def m_get(root: Any, segs: list[str]) -> Any:
    cur = root
    for seg in segs:
        cur = m_step(cur, seg)
        if cur is MISSING or cur is UNDEF:
            return cur
    return cur


def m_assign(node: Any, seg: str, value: Any) -> str:
    if isinstance(node, dict):
        node[seg] = value
        return "ok"
    if isinstance(node, list):
        if is_idx(seg) and int(seg) < len(node):
            node[int(seg)] = value
            return "ok"
        return "error"
    if isinstance(node, Obj):
        if seg not in node.f:
            return "error"
        if not type_ok(SCHEMA[node.cls][seg], value):
            return "typeinvalid"
        node.f[seg] = value
        return "ok"
    return "error"


def m_set(root: Any, segs: list[str], value: Any) -> str:
    """'Intermediate dicts are created as needed'.  Atomic: nothing is changed unless the result is 'ok'
    (a failure can only happen before the first intermediate dict is created)."""
    cur = root
    for seg in segs[:-1]:
        nxt = m_step(cur, seg)
        if nxt is UNDEF:
            return "error"
        if nxt is MISSING:
            if isinstance(cur, Obj) or not isinstance(cur, (dict, list)):
                return "error"  # unknown field / scalar: nothing can be created below it
            new: dict = {}
            if m_assign(cur, seg, new) != "ok":
                return "error"
            cur = new
        else:
            cur = nxt
    return m_assign(cur, segs[-1], value)


def same(a: Any, b: Any) -> bool:
    """Type-strict deep equality (1, 1.0 and True are different values)."""
    if isinstance(a, Obj) or isinstance(b, Obj):
        return isinstance(a, Obj) and isinstance(b, Obj) and a.cls == b.cls and same(a.f, b.f)
    if isinstance(a, Opaque) or isinstance(b, Opaque):
        return False
    if type(a) is not type(b):
        return False
    if isinstance(a, dict):
        if len(a) != len(b):
            return False
        for k, v in a.items():
            if type(k) is not str or k not in b or not same(v, b[k]):
                return False
        return True
    if isinstance(a, list):
        return len(a) == len(b) and all(same(x, y) for x, y in zip(a, b))
    return a == b


def show(v: Any, depth: int = 0) -> Any:
    if isinstance(v, Obj):
        return {"<" + v.cls + ">": show(v.f, depth + 1)}
    if isinstance(v, Opaque):
        return "<opaque " + v.what + ">"
    if v is MISSING:
        return "<missing>"
    if isinstance(v, dict):
        return {k if isinstance(k, str) else f"<{type(k).__name__} key {k!r}>": show(x, depth + 1) for k, x in list(v.items())[:6]}
    if isinstance(v, list):
        return [show(x, depth + 1) for x in v[:6]]
    if isinstance(v, (type(None), bool, int, float, str)):
        return v
    return repr(v)[:60]


def m_from_fields(cls: str, data: dict) -> Obj:
    o = default_obj(cls)
    for k, v in data.items():
        o.f[k] = Obj("Inner", {"num": v["num"], "meta": copy.deepcopy(v["meta"])}) if k == "inner" else copy.deepcopy(v)
    return o


# ----------------------------------------------------------------------------- generators

ROOT_PLAIN = ["a", "b", "c"]
ROOT_SPECIAL = ["0", "1", "items"]
SUBS = ["a", "b", "c", "0", "1", "2", "k"]
ALL_SEGS = sorted(set(ROOT_PLAIN + ROOT_SPECIAL + SUBS + ["zz"] + list(SCHEMA["ChildState"])))

# Values come from fixed pools (one cheap draw each; value variety matters little here, paths and operation order do):
# JSON leaves of every type incl. int/float/bool look-alikes, and containers nested up to three levels whose keys and lengths
# overlap with the path alphabet so that later path segments land inside them.
LEAVES = [None, True, False, 0, 1, -3, 12, 2**70, -(2**40), 0.5, 3.0, -1.25, 1e10, "", "x", "hello", "é✓", "0"]


def _pools():
    lists: list = [[], [1], [None, "x"], [0.5, True, "0"], [[1, 2], []], [{"a": 1}], [{"k": [3.0]}, 2], ["hello", {"0": {"a": None}}, [False]]]
    dicts: list = [
        {}, {"a": 1}, {"b": None}, {"a": {"b": 2}}, {"0": "x"}, {"k": [1, 2, 3]}, {"a": {"b": {"c": 3.0}}}, {"a": [], "b": {}},
        {"c": [{"a": 1}, {"b": [0]}]}, {"a": "hello", "k": False}, {"0": {"1": {"2": "deep"}}}, {"a": 2**70, "b": -1.25, "c": "é✓"},
        {"b": [[], [None]], "0": 0},
    ]
    for i, leaf in enumerate(LEAVES):
        lists.append([leaf, LEAVES[(i * 7 + 3) % len(LEAVES)]])
        dicts.append({"abc0k"[i % 5]: leaf, "abc0k"[(i + 2) % 5]: [leaf]})
    return lists, dicts


_LISTS, _DICTS = _pools()
_json = st.sampled_from(LEAVES * 2 + _LISTS + _DICTS).map(copy.deepcopy)
_ints = st.sampled_from([0, 1, -3, 5, 12, 2**70])
_strs = st.sampled_from(["", "x", "hello", "é✓", "0"])
_lists = st.sampled_from(_LISTS).map(copy.deepcopy)
_dicts = st.sampled_from(_DICTS).map(copy.deepcopy)
_subs = st.lists(st.sampled_from(SUBS), max_size=3)
_default = st.sampled_from([[False, None], [False, None], [True, None], [True, "dflt"], [True, 0]])


def _weighted(*pairs):
    """Choose among strategies with integer weights (st.one_of de-duplicates and flattens, so repetition does not weight)."""
    table = [i for i, (w, _) in enumerate(pairs) for _ in range(w)]
    return st.sampled_from(table).flatmap(lambda i: pairs[i][1])


def _join(first, rest):
    return ".".join([first] + list(rest))


def _root_key(special: bool):
    return st.sampled_from(ROOT_PLAIN * 6 + (ROOT_SPECIAL * 2 if special else []))


def _dict_path(special: bool):
    return st.builds(_join, _root_key(special), _subs)


_typed_direct = _weighted(
    (2, st.tuples(st.just("num"), _ints)),
    (1, st.tuples(st.just("label"), _strs)),
    (2, st.tuples(st.just("tags"), _lists)),
    (2, st.tuples(st.just("meta"), _dicts)),
    (2, st.tuples(st.just("extra"), _json)),
)
_typed_inner_val = st.fixed_dictionaries({"num": _ints, "meta": _dicts})
_typed_deep_path = st.builds(
    _join, st.sampled_from(["meta", "meta", "tags", "extra", "inner.meta"]), st.lists(st.sampled_from(SUBS), min_size=1, max_size=3)
)
_typed_wild_path = st.builds(_join, st.sampled_from(["num", "label", "zz", "inner", "a", "0", "tags", "extra"]), _subs)
_typed_set = _weighted(
    (6, _typed_direct),
    (1, st.tuples(st.just("inner.num"), _ints)),
    (1, st.tuples(st.just("inner.meta"), _dicts)),
    (9, st.tuples(_typed_deep_path, _json)),
    (2, st.tuples(_typed_wild_path, _json)),
)
_typed_path = _weighted(
    (6, st.sampled_from(["num", "label", "tags", "meta", "extra", "inner", "inner.num", "inner.meta"])),
    (10, _typed_deep_path),
    (2, _typed_wild_path),
)
_FIELD_VALUES = {"num": _ints, "label": _strs, "tags": _lists, "meta": _dicts, "extra": _json, "inner": _typed_inner_val}
_typed_fields = st.lists(st.sampled_from(sorted(_FIELD_VALUES)), max_size=4, unique=True).flatmap(
    lambda ks: st.fixed_dictionaries({k: _FIELD_VALUES[k] for k in sorted(ks)})
)
_parent_fields = st.lists(st.sampled_from(["num", "label", "tags", "meta"]), max_size=3, unique=True).flatmap(
    lambda ks: st.fixed_dictionaries({k: _FIELD_VALUES[k] for k in sorted(ks)})
)


def _ops(root: str, special: bool):
    if root == "dict":
        path = _dict_path(special)
        set_pv = st.tuples(path, _json)
        snap_mut = st.tuples(_root_key(special), _json)
        set_state = _weighted(
            (5, st.tuples(st.just("set_state"), st.just("same"), st.dictionaries(_root_key(special), _json, max_size=3))),
            (1, st.tuples(st.just("set_state"), st.just("unrelated"), st.just({}))),
        )
    else:
        path = _typed_path
        set_pv = _typed_set
        snap_mut = _weighted((5, _typed_direct), (1, st.tuples(st.just("inner"), _typed_inner_val)))
        set_state = _weighted(
            (3, st.tuples(st.just("set_state"), st.just("same"), _typed_fields)),
            (5, st.tuples(st.just("set_state"), st.just("parent"), _parent_fields)),
            (1, st.tuples(st.just("set_state"), st.just("unrelated"), st.just({}))),
        )
    op_set = set_pv.map(lambda t: ["set", t[0], t[1]])
    op_get = st.tuples(path, _default).map(lambda t: ["get", t[0], t[1][0], t[1][1]])
    sub = _weighted(
        (5, set_pv.map(lambda t: ["assign", t[0], t[1]])),
        (2, st.tuples(path, _json).map(lambda t: ["append", t[0], t[1]])),
        (3, path.map(lambda p: ["read", p])),
    )
    op_edit = st.lists(sub, min_size=1, max_size=4).map(lambda s: ["edit", s])
    op_snap = st.tuples(st.lists(snap_mut.map(list), min_size=1, max_size=3), st.booleans()).map(lambda t: ["snap", t[0], t[1]])
    rare = st.sampled_from(
        [["clear"]] * 4
        + [["state"]] * 4
        + [["deep_get", 1000, True], ["deep_get", 1000, False], ["deep_get", 1001, True], ["deep_get", 1001, False], ["deep_set", 1001], ["set", "", 1]]
    )
    op = _weighted((14, op_set), (14, op_get), (3, op_edit), (3, op_snap), (3, set_state.map(list)), (3, rare))
    # three concatenated lists: Hypothesis' list sizes average ~4 each, so histories average ~12 operations
    return st.tuples(st.lists(op, max_size=8), st.lists(op, max_size=8), st.lists(op, min_size=1, max_size=8)).map(lambda t: t[0] + t[1] + t[2])


_case = st.tuples(st.sampled_from(["dict", "typed"]), st.sampled_from([False] * 7 + [True])).flatmap(
    lambda t: st.fixed_dictionaries({"root": st.just(t[0]), "ops": _ops(t[0], t[1])})
)


def _shm() -> str | None:
    d = "/dev/shm"
    return d if os.path.isdir(d) and os.access(d, os.W_OK) else None


class _Stop(Exception):
    """Raised inside one store run after its first violation (the run is out of sync with the model from there on)."""


class C19(Prop):
    id = "C19"
    rule = (
        "case = a root type (DictState | typed ChildState(ParentState) with a nested Inner model) + up to 24 operations: set(path,v) / "
        "get(path[,default]) with 1-4 segment dotted paths over a small alphabet (dict keys, list indices, model fields, unknown names, "
        "paths through scalars, the empty path, 1000/1001-segment paths) and generated JSON values; set_state with the same type, the "
        "parent type (merge) or an unrelated type; clear; edit_state blocks doing several plain-Python assignments/appends/reads on the "
        "yielded state; get_state followed by top-level mutation of the returned object, either discarded or written back with set_state; "
        "full reads through get_state. The same list runs on a fresh InMemoryStateStore and on a fresh SqliteStateStore obtained from "
        "SqliteWorkflowStore.create_state_store on a temp file; every returned value / raised-or-not outcome / full state is compared "
        "(type-strictly) with a reference model of plain dicts, lists and field tables that implements the documented path rules "
        "(dict key, list index, attribute; missing -> default or ValueError; intermediate dicts created on set; a write through a scalar, "
        "an out-of-range index or an unknown field fails and changes nothing), and after mutating a get_state() result the store is read "
        "again and must be unchanged. Non-trivial = a write with >=2 segments later read successfully through a different overlapping "
        "path (prefix or extension), or a snapshot mutation."
    )
    assumptions = [
        "values are JSON values (finite floats, string keys); values written to typed fields have the field's declared type (int, str, "
        "list, dict, Inner); an operation the model classifies as type-incorrect is not executed",
        "a digit segment applied to a string value (the code indexes the string) is outside the documented rules: such an operation is not executed",
        "errors are compared as raised / not raised; the exception class is compared only where it is documented (ValueError for a "
        "missing path without default, an empty path, a path over 1000 segments, an incompatible set_state type)",
        "edit_state blocks never raise and never suspend; snapshots are dropped after the optional write back; nested containers of a "
        "snapshot are never mutated (the property speaks of top-level fields/keys only)",
        "the SQLite database lives on a tmpfs temp directory when /dev/shm is writable (otherwise the default temp dir); one store object per run, "
        "connection-per-operation mode (single_connection=False) as SqliteWorkflowStore does by default",
        "pydantic (real, from /venv) decides what assigning an unknown attribute to a model does",
    ]
    budgets = {"quick": 800, "thorough": 2500}
    wall = {"quick": 45.0, "thorough": 420.0}

    def setup(self):
        boot.seed_llama_agents()
        from llama_agents.server._store.sqlite.sqlite_workflow_store import SqliteWorkflowStore
        from workflows.context.state_store import DictState, InMemoryStateStore

        self.DictState = DictState
        self.InMemoryStateStore = InMemoryStateStore
        self.SqliteWorkflowStore = SqliteWorkflowStore
        # generator hygiene: no path segment may name a real attribute of a container/scalar/typed model
        # ("items" is deliberately a DictState root key only, see ROOT_SPECIAL)
        for seg in ALL_SEGS:
            for probe in ([], "", 0, 0.5, True, None, {}, ChildState(), Inner()):
                if hasattr(probe, seg) and not (isinstance(probe, BaseModel) and seg in type(probe).model_fields):
                    if seg == "items" and isinstance(probe, dict):
                        continue  # dicts are looked up by key, never by attribute
                    raise RuntimeError(f"segment {seg!r} is an attribute of {type(probe).__name__}")

    def strategy(self, tier):
        return _case

    # ------------------------------------------------------------------ helpers working on real objects

    def norm(self, v: Any) -> Any:
        if isinstance(v, self.DictState):
            return {k: self.norm(x) for k, x in v.items()}
        if isinstance(v, BaseModel):
            return Obj(type(v).__name__, {f: self.norm(getattr(v, f)) for f in type(v).model_fields})
        if isinstance(v, dict):
            return {k: self.norm(x) for k, x in v.items()}
        if isinstance(v, list):
            return [self.norm(x) for x in v]
        if v is None or isinstance(v, (bool, int, float, str)):
            return v
        return Opaque(type(v).__name__)

    @staticmethod
    def real_value(field: str | None, v: Any) -> Any:
        if field == "inner":
            return Inner(num=v["num"], meta=copy.deepcopy(v["meta"]))
        return copy.deepcopy(v)

    def real_step(self, node: Any, mnode: Any, seg: str) -> Any:
        """Plain-Python navigation a user would write, guided by the kind of the model node."""
        if isinstance(mnode, Obj):
            return getattr(node, seg)
        if isinstance(mnode, list):
            return node[int(seg)]
        return node[seg]  # dict or DictState root

    def real_assign(self, node: Any, mnode: Any, seg: str, value: Any) -> None:
        if isinstance(mnode, Obj):
            setattr(node, seg, value)
        elif isinstance(mnode, list):
            node[int(seg)] = value
        else:
            node[seg] = value

    # ------------------------------------------------------------------ one run of the op list on one store

    async def run_store(self, sname: str, store: Any, root: str, ops: list, r: CaseResult, stats: dict | None) -> None:
        model: Any = {} if root == "dict" else default_obj("ChildState")
        st_ = {"seeded": sname == "memory", "unseeded_now": False}
        nested_writes: list[list[str]] = []

        def key_class(seg: str) -> str:
            if root != "dict":
                return "plain"
            if is_idx(seg):
                return "digit"
            if seg in ROOT_SPECIAL:
                return "attr"
            return "plain"

        def state_ctx() -> str:
            if root == "dict":
                classes = {key_class(k) for k in model}
                for c in ("digit", "attr"):
                    if c in classes:
                        return c
            return "plain"

        def viol(kind: str, kc: str = "plain", **attrs: Any) -> None:
            if st_["unseeded_now"]:
                # first write of a store without a row was a set_state of a non-identical type: its own kind
                r.v("unseeded_set_state_not_merged", symptom=kind, store=sname, root=root, **attrs)
            elif kc != "plain":
                r.v("dictstate_root_key_mishandled", key_class=kc, symptom=kind, store=sname, root=root, **attrs)
            else:
                r.v(kind, store=sname, root=root, **attrs)
            raise _Stop()

        async def check_state(after: str) -> None:
            try:
                real = await store.get_state()
            except Exception as e:  # noqa: BLE001
                viol("op_raised", state_ctx(), op="get_state", after=after, exc=type(e).__name__, msg=str(e)[:80])
            st_["seeded"] = True
            got = self.norm(real)
            if not same(got, model):
                viol("state_differs", state_ctx(), after=after, expected=show(model), got=show(got))

        def resolve(segs: list[str]):
            """Model node and real-navigation recipe for a path that exists in the model (else None)."""
            cur = model
            trail = []
            for seg in segs:
                nxt = m_step(cur, seg)
                if nxt is MISSING or nxt is UNDEF:
                    return None
                trail.append((cur, seg))
                cur = nxt
            return cur, trail

        def real_nav(state: Any, trail) -> Any:
            node = state
            for mnode, seg in trail:
                node = self.real_step(node, mnode, seg)
            return node

        last_mut = "init"
        try:
            for op in ops:
                name = op[0]
                if name == "get":
                    _, path, has_d, dflt = op
                    segs = path.split(".")
                    exp = m_get(model, segs)
                    if exp is UNDEF:
                        if stats is not None:
                            stats["skipped_undef"] += 1
                        continue
                    try:
                        got = await (store.get(path, copy.deepcopy(dflt)) if has_d else store.get(path))
                        outcome = "value"
                    except ValueError:
                        got, outcome = None, "ValueError"
                    except Exception as e:  # noqa: BLE001
                        got, outcome = None, type(e).__name__
                    st_["seeded"] = True
                    kc = key_class(segs[0])
                    if exp is MISSING:
                        want = "default" if has_d else "ValueError"
                        ok = (outcome == "value" and same(self.norm(got), dflt)) if has_d else outcome == "ValueError"
                    else:
                        want = "found"
                        ok = outcome == "value" and same(self.norm(got), exp)
                    if not ok:
                        viol(
                            "get_differs", kc, path=path, want=want, has_default=has_d,
                            expected=show(exp), got=show(self.norm(got)) if outcome == "value" else outcome,
                        )
                    if stats is not None and want == "found":
                        stats["found_reads"] += 1
                        for w in nested_writes:
                            n = min(len(w), len(segs))
                            if w != segs and w[:n] == segs[:n]:
                                stats["overlap_read"] = True
                elif name == "set":
                    _, path, value = op
                    if path == "":
                        try:
                            await store.set(path, value)
                            outcome = "ok"
                        except ValueError:
                            outcome = "ValueError"
                        except Exception as e:  # noqa: BLE001
                            outcome = type(e).__name__
                        st_["seeded"] = True
                        if outcome != "ValueError":
                            viol("set_outcome_differs", path=path, want="ValueError", got=outcome)
                        continue
                    segs = path.split(".")
                    res = m_set(model, segs, copy.deepcopy(value))
                    if res == "typeinvalid":
                        if stats is not None:
                            stats["skipped_type"] += 1
                        continue
                    try:
                        await store.set(path, copy.deepcopy(value))
                        outcome = "ok"
                    except Exception as e:  # noqa: BLE001
                        outcome = "error"
                        exc = type(e).__name__
                    st_["seeded"] = True
                    if outcome != res:
                        viol("set_outcome_differs", key_class(segs[0]), path=path, want=res, got=outcome if outcome == "ok" else exc)
                    if res == "ok":
                        last_mut = "set"
                        if len(segs) >= 2:
                            nested_writes.append(segs)
                            if stats is not None and any(is_idx(s) for s in segs[1:]):
                                stats["index_seg_write"] = True
                    elif stats is not None:
                        stats["failed_sets"] += 1
                elif name in ("deep_get", "deep_set"):
                    n = op[1]
                    path = ".".join(["a"] * n)
                    try:
                        if name == "deep_set":
                            await store.set(path, 1)
                        elif op[2]:
                            got = await store.get(path, "dflt")
                        else:
                            got = await store.get(path)
                        outcome = "value"
                    except ValueError:
                        outcome = "ValueError"
                    except Exception as e:  # noqa: BLE001
                        outcome = type(e).__name__
                    st_["seeded"] = True
                    if name == "deep_get" and n <= 1000 and op[2]:
                        # allowed depth; the path cannot exist (no generated write nests 1000 levels deep)
                        if outcome != "value" or got != "dflt":
                            viol("get_differs", path=f"a*{n}", want="default", has_default=True, expected="dflt", got=outcome)
                    elif outcome != "ValueError":
                        viol("depth_limit_outcome_differs", op=name, segments=n, want="ValueError", got=outcome)
                elif name == "set_state":
                    _, kind, data = op
                    if root == "dict":
                        if kind == "same":
                            obj = self.DictState(**copy.deepcopy(data))
                        else:
                            obj = Unrelated()
                    else:
                        if kind == "same":
                            obj = ChildState(**{k: self.real_value(k, v) for k, v in data.items()})
                        elif kind == "parent":
                            obj = ParentState(**{k: self.real_value(k, v) for k, v in data.items()})
                        else:
                            obj = Unrelated()
                    unseeded = not st_["seeded"]
                    try:
                        await store.set_state(obj)
                        outcome = "ok"
                    except ValueError:
                        outcome = "ValueError"
                    except Exception as e:  # noqa: BLE001
                        outcome = type(e).__name__
                    st_["seeded"] = True
                    # a set_state of a parent/unrelated type that is the first access to a store without a row gets its own
                    # violation kind, decided right here (outcome + an immediate full read), not from later symptoms
                    st_["unseeded_now"] = unseeded and kind != "same"
                    want = "ValueError" if kind == "unrelated" else "ok"
                    if outcome != want:
                        viol("set_state_outcome_differs", state_kind=kind, want=want, got=outcome)
                    if kind == "same":
                        model = copy.deepcopy(data) if root == "dict" else m_from_fields("ChildState", data)
                        last_mut = "set_state_same"
                    elif kind == "parent":
                        inc = m_from_fields("ParentState", data)
                        for f in SCHEMA["ParentState"]:
                            model.f[f] = inc.f[f]
                        last_mut = "set_state_parent"
                        if stats is not None:
                            stats["parent_merge"] = True
                    if st_["unseeded_now"]:
                        await check_state(last_mut if kind == "parent" else "set_state_unrelated")
                        st_["unseeded_now"] = False
                elif name == "clear":
                    try:
                        await store.clear()
                    except Exception as e:  # noqa: BLE001
                        viol("op_raised", op="clear", exc=type(e).__name__, msg=str(e)[:80])
                    st_["seeded"] = True
                    model = {} if root == "dict" else default_obj("ChildState")
                    last_mut = "clear"
                elif name == "state":
                    await check_state(last_mut)
                elif name == "edit":
                    pending: list = []
                    try:
                        async with store.edit_state() as state:
                            for sub in op[1]:
                                kind = sub[0]
                                segs = sub[1].split(".")
                                if kind == "read":
                                    res = resolve(segs)
                                    if res is None:
                                        continue
                                    exp, trail = res
                                    try:
                                        got = self.norm(real_nav(state, trail))
                                    except Exception as e:  # noqa: BLE001
                                        pending = ["edit_read_differs", key_class(segs[0]), dict(path=sub[1], expected=show(exp), got=type(e).__name__)]
                                        break
                                    if not same(got, exp):
                                        pending = ["edit_read_differs", key_class(segs[0]), dict(path=sub[1], expected=show(exp), got=show(got))]
                                        break
                                    continue
                                res = resolve(segs[:-1]) if len(segs) > 1 else (model, [])
                                if res is None:
                                    continue
                                parent, trail = res
                                last = segs[-1]
                                value = sub[2]
                                if kind == "append":
                                    tgt = m_step(parent, last)
                                    if not isinstance(tgt, list):
                                        continue
                                    try:
                                        real_nav(state, trail + [(parent, last)]).append(copy.deepcopy(value))
                                    except Exception as e:  # noqa: BLE001
                                        pending = ["edit_nav_failed", key_class(segs[0]), dict(path=sub[1], exc=type(e).__name__, msg=str(e)[:80])]
                                        break
                                    tgt.append(copy.deepcopy(value))
                                    if stats is not None:
                                        stats["edit_writes"] += 1
                                    continue
                                # assign
                                if isinstance(parent, Obj):
                                    if last not in parent.f or last == "inner" or not type_ok(SCHEMA[parent.cls][last], value):
                                        continue
                                elif isinstance(parent, list):
                                    if not (is_idx(last) and int(last) < len(parent)):
                                        continue
                                elif not isinstance(parent, dict):
                                    continue
                                try:
                                    self.real_assign(real_nav(state, trail), parent, last, copy.deepcopy(value))
                                except Exception as e:  # noqa: BLE001
                                    pending = ["edit_nav_failed", key_class(segs[0]), dict(path=sub[1], exc=type(e).__name__, msg=str(e)[:80])]
                                    break
                                m_assign(parent, last, copy.deepcopy(value))
                                if stats is not None:
                                    stats["edit_writes"] += 1
                    except Exception as e:  # noqa: BLE001
                        viol("op_raised", op="edit_state", exc=type(e).__name__, msg=str(e)[:80])
                    st_["seeded"] = True
                    last_mut = "edit"
                    if pending:
                        viol(pending[0], pending[1], **pending[2])
                elif name == "snap":
                    _, muts, writeback = op
                    try:
                        snap = await store.get_state()
                    except Exception as e:  # noqa: BLE001
                        viol("op_raised", state_ctx(), op="get_state", after=last_mut, exc=type(e).__name__, msg=str(e)[:80])
                    st_["seeded"] = True
                    got = self.norm(snap)
                    if not same(got, model):
                        viol("state_differs", state_ctx(), after=last_mut, expected=show(model), got=show(got))
                    snap_model = copy.deepcopy(model)
                    for key, value in muts:
                        if root == "dict":
                            snap[key] = copy.deepcopy(value)
                            snap_model[key] = copy.deepcopy(value)
                        else:
                            setattr(snap, key, self.real_value(key, value))
                            snap_model.f[key] = m_from_fields("ChildState", {key: value}).f[key]
                    if stats is not None:
                        stats["snap_mutations"] += len(muts)
                    # the store must not have noticed
                    again = self.norm(await store.get_state())
                    if not same(again, model):
                        viol(
                            "snapshot_mutation_changed_store", keys=sorted({key_class(m[0]) for m in muts}),
                            expected=show(model), got=show(again),
                        )
                    if writeback:
                        try:
                            await store.set_state(snap)
                        except Exception as e:  # noqa: BLE001
                            viol("op_raised", op="set_state(snapshot)", exc=type(e).__name__, msg=str(e)[:80])
                        model = snap_model
                        last_mut = "snap_writeback"
                        del snap
                        await check_state(last_mut)
                else:
                    raise RuntimeError(f"unknown op {op!r}")
            await check_state("end:" + last_mut)
        except _Stop:
            pass

    def run_case(self, case):
        r = CaseResult()
        root = case["root"]
        ops = case["ops"]
        stats = {
            "skipped_undef": 0, "skipped_type": 0, "found_reads": 0, "overlap_read": False, "failed_sets": 0, "parent_merge": False,
            "edit_writes": 0, "snap_mutations": 0, "index_seg_write": False,
        }
        tmp = tempfile.mkdtemp(prefix="c19-", dir=_shm())

        async def main():
            init = self.DictState() if root == "dict" else ChildState()
            await self.run_store("memory", self.InMemoryStateStore(init), root, ops, r, stats)
            ws = self.SqliteWorkflowStore(os.path.join(tmp, "wf.sqlite"))
            store = ws.create_state_store("run-c19", None if root == "dict" else ChildState)
            await self.run_store("sqlite", store, root, ops, r, None)

        try:
            boot.run_virtual(main)
        finally:
            shutil.rmtree(tmp, ignore_errors=True)
        r.nontrivial = bool(stats["overlap_read"] or stats["snap_mutations"])
        r.classes.append("root_" + root)
        for k in ("overlap_read", "parent_merge", "index_seg_write"):
            if stats[k]:
                r.classes.append(k)
        for k in ("snap_mutations", "edit_writes", "failed_sets", "skipped_undef", "skipped_type"):
            if stats[k]:
                r.classes.append("has_" + k)
        if any(op[0] == "set" and op[1].split(".")[0] in ROOT_SPECIAL for op in ops) and root == "dict":
            r.classes.append("special_root_key")
        return r


PROP = C19
