"""C01 — a step never runs more invocations at once than its worker limit; distinct slots."""

from __future__ import annotations

from ..runner import CaseResult
from ._engine import EngineProp, step_state_events


class C01(EngineProp):
    id = "C01"
    rule = (
        "cases = generated workflow programs (1-4 event layers, 2-9 steps, num_workers 1..4, fan-out via send_event x1..3, "
        "retries with 0/positive delays, collect_events re-runs, wait_for_event replays, external sends; one case in four is a step that calls collect_events, continues with an incomplete set and fails under a retry policy, so that stale-snapshot re-runs and retries coincide) run on virtual time with "
        "generated tie-breaks among simultaneously finished workers. Non-trivial = at some tick a step had a non-empty queue while "
        "all its worker slots were occupied (the bound was exercised). Distinct by canonical JSON of the program."
    )
    assumptions = [
        "schedules are generated as virtual step durations + tie-break choices on a deterministic virtual-time asyncio loop; sync/threaded steps are not generated",
        "an 'invocation' is one execution of the step body (entry to return/raise/WaitingForEvent)",
    ]
    gen_kwargs = dict(collect=True, waits=True, retries=True, resume=True)
    expect_result = True  # valid programs that always recover: any other outcome means the engine broke

    def strategy(self, tier):
        from hypothesis import strategies as st

        from .. import genwf

        @st.composite
        def collect_then_fail(draw):
            # a step that calls collect_events, goes on although the set is incomplete, and fails with an immediate (or delayed) retry:
            # several invocations start from the same buffer snapshot, their completion order is a generated tie-break
            n = draw(st.integers(3, 6))
            attempts = draw(st.integers(2, 3))
            k = draw(st.integers(2, 4))
            steps = [
                {"name": "a", "accepts": ["GStart"], "workers": 1, "retry": None, "acts": {"GStart": [["send", "E0", n, None], ["ret", None]]}},
                {"name": "c", "accepts": ["E0"], "workers": draw(st.integers(2, 3)), "retry": {"n": attempts, "w": draw(st.sampled_from([0, 0, 0, 1]))},
                 "acts": {"E0": [["collect_cont", ["E0"] * k, draw(st.sampled_from([None, "buf"]))], ["sleep", draw(st.sampled_from([0, 1, 1, 2]))],
                                 ["fail", draw(st.integers(1, attempts - 1)), "GenError"], ["sleep", draw(st.sampled_from([0, 0, 1]))], ["ret", None]]}},
                {"name": "fin", "accepts": ["Fin"], "workers": 1, "retry": None, "acts": {"Fin": [["ret", "GStop"]]}},
            ]
            ext = [[draw(st.sampled_from([0, 1, 1, 2, 3])), "send", "E0", None, {}] for _ in range(draw(st.integers(0, 3)))]
            return {"steps": steps, "timeout": None, "ext": ext, "ties": draw(st.lists(st.integers(0, 7), min_size=0, max_size=12)), "family": "collect_then_fail"}

        return st.one_of(genwf.program_strategy(**self.gen_kwargs), genwf.program_strategy(**self.gen_kwargs), genwf.program_strategy(**self.gen_kwargs), collect_then_fail())

    def oracle(self, spec, rec, r: CaseResult) -> None:
        nw = {s["name"]: s.get("workers", 4) for s in spec["steps"]}
        # (a) body log: in-flight invocations per step, in order of occurrence
        evs = []
        for inv in rec.inv:
            evs.append((inv["s_in"], +1, inv["step"]))
            if inv["s_out"] is not None:
                evs.append((inv["s_out"], -1, inv["step"]))
        evs.sort()
        live: dict[str, int] = {}
        peak: dict[str, int] = {}
        for _, d, name in evs:
            live[name] = live.get(name, 0) + d
            peak[name] = max(peak.get(name, 0), live[name])
            if live[name] > nw[name]:
                r.v("body_over_limit", step=name, live=live[name], limit=nw[name])
                break
        # (b) stream: worker ids in range, no double RUNNING on one slot
        running: dict[tuple[str, str], bool] = {}
        seg0 = getattr(rec, "stream_seg0", None)
        for idx, _, e in step_state_events(rec):
            if seg0 is not None and idx >= seg0:
                running.clear()  # the first life was aborted at the snapshot; slots start afresh
                seg0 = None
            st = e.step_state.value
            if st == "running":
                try:
                    wid = int(e.worker_id)
                except ValueError:
                    r.v("bad_worker_id", step=e.name, worker_id=e.worker_id)
                    continue
                if not (0 <= wid < nw.get(e.name, 4)):
                    r.v("worker_id_out_of_range", step=e.name, worker_id=wid, limit=nw.get(e.name))
                if running.get((e.name, e.worker_id)):
                    r.v("slot_double_running", step=e.name, worker_id=wid)
                running[(e.name, e.worker_id)] = True
            elif st == "not_running":
                running[(e.name, e.worker_id)] = False
        # (c) live state after every tick
        exercised = False
        for tk in rec.ticks:
            for name, w in tk["workers"].items():
                ids = [x[0] for x in w["in_progress"]]
                if len(ids) > w["num_workers"]:
                    r.v("state_over_limit", step=name, n=len(ids), limit=w["num_workers"])
                if len(set(ids)) != len(ids):
                    r.v("state_duplicate_worker_id", step=name)
                if any(not (0 <= i < w["num_workers"]) for i in ids):
                    r.v("state_worker_id_out_of_range", step=name)
                if w["queue"] and len(ids) >= w["num_workers"]:
                    exercised = True
        r.nontrivial = exercised
        if exercised:
            r.classes.append("queue_while_full")
        if any(inv["attempt"] > 0 for inv in rec.inv):
            r.classes.append("with_retry")
        if any(inv["exit"] == "waiting" for inv in rec.inv):
            r.classes.append("with_waiter_replay")
        if any("collect" in inv for inv in rec.inv):
            r.classes.append("with_collect")
        if rec.resumed:
            r.classes.append("resumed")
        if spec.get("family") == "collect_then_fail":
            r.classes.append("collect_then_fail")
            per = {}
            for inv in rec.inv:
                if inv["step"] == "c":
                    per[(inv["uid"], inv["attempt"])] = per.get((inv["uid"], inv["attempt"]), 0) + 1
            if any(v > 1 for v in per.values()):
                r.classes.append("stale_collect_rerun_of_failing_invocation")
        if rec.tie_points:
            r.classes.append("with_ties")
        if rec.outcome["kind"] != "result":
            r.classes.append("outcome_" + rec.outcome["kind"])


PROP = C01
