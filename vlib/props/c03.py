"""C03 — queued work never stalls; idleness is reported only when truly idle."""

from __future__ import annotations

from ..runner import CaseResult
from ._engine import EngineProp


class C03(EngineProp):
    id = "C03"
    rule = (
        "cases = C01's program family plus delayed retries, waiters with and without timeouts, and external sends placed at the "
        "same virtual instants as step completions and after quiescence (idle gaps). After every reducer tick the live state is "
        "checked for 'queue non-empty => all worker slots taken'; at every published WorkflowIdleEvent / UnhandledEvent(idle=True) "
        "the live state, the runner's wake-up heap, its tick buffer and the adapter mailbox are inspected. Non-trivial = an idle "
        "announcement happened in a run that had queued work or a scheduled retry at some earlier tick."
    )
    assumptions = [
        "'waiting for a scheduled retry' = a delayed re-queue (TickAddEvent) in the runner's wake-up heap; waiter timeouts and the workflow timeout are not counted as pending work (a waiting run is the canonical idle run)",
        "'already delivered' = ticks sitting in the runner's tick buffer or in the adapter's receive queue when the idle event is published",
    ]
    gen_kwargs = dict(collect=True, waits=True, retries=True, unhandled=True, resume=True)
    expect_result = True
    liveness = True

    def oracle(self, spec, rec, r: CaseResult) -> None:
        had_queue = False
        had_retry_timer = False
        idle_events = 0
        prev_heap: set = set()
        due_at_once: set = set()  # retry wake-ups that were due the moment they were scheduled (a retry delay of zero)
        for tk in rec.ticks:
            if not tk["ok"]:
                continue
            exiting = not tk["is_running"]
            retry_timers = [h for h in tk["heap"] if h[1] == "TickAddEvent"]
            if retry_timers:
                had_retry_timer = True
            for h in retry_timers:
                if h not in prev_heap and h[0] - tk.get("now_engine", 0.0) < 1e-5:
                    due_at_once.add(h)
            prev_heap = set(tk["heap"])
            for name, w in tk["workers"].items():
                if w["queue"]:
                    had_queue = True
                    if tk["is_running"] and len(w["in_progress"]) < w["num_workers"] and tk["tick"] not in ("TickCancelRun", "TickTimeout"):
                        r.v("stalled_queue", step=name, queued=len(w["queue"]), running=len(w["in_progress"]), limit=w["num_workers"])
            for pub in tk["published"]:
                is_idle = pub["type"] == "WorkflowIdleEvent" or (pub["type"] == "UnhandledEvent" and pub["idle"])
                if not is_idle:
                    continue
                idle_events += 1
                busy = [n for n, w in tk["workers"].items() if w["queue"] or w["in_progress"]]
                if busy:
                    r.v("idle_with_step_work", steps=busy, via=pub["type"])
                if retry_timers:
                    # the known finding is about a retry that is waiting out a POSITIVE delay; a retry that is due at once is work
                    r.v("idle_with_pending_retry", via=pub["type"], retry_due_at_once=any(h in due_at_once for h in retry_timers))
                    if any(h in due_at_once for h in retry_timers):
                        r.classes.append("idle_while_zero_delay_retry_scheduled")
                buffered = [b for b in tk["buffer"] if b in ("TickAddEvent", "TickStepResult")]
                if buffered:
                    r.v("idle_with_buffered_tick", via=pub["type"], buffered=buffered[0])
                if pub["mailbox"]:
                    r.v("idle_with_mailbox_tick", via=pub["type"])
            _ = exiting
        if idle_events:
            r.classes.append("idle_announced")
        if had_retry_timer:
            r.classes.append("retry_timer")
        r.nontrivial = idle_events > 0 and (had_queue or had_retry_timer)


PROP = C03
