"""C36 — idle runs are released after the idle timeout and reloaded on demand (in-process server stack)."""

from __future__ import annotations

import asyncio
import json

from hypothesis import strategies as st

from .. import boot, genwf, srv
from ..boot import Runaway, VClock
from ..runner import CaseResult, Prop

POLL = 0.25


class C36(Prop):
    id = "C36"
    rule = (
        "cases = a human-in-the-loop run on the real in-process server stack (WorkflowServer runtime chain over Memory/SQLite store) that "
        "idles between external events: `total` (2-5) Reply events are sent through the service at generated gaps G in {0.5..40} after "
        "the previous one was processed (or exactly at the instant the idle timeout expires, over a store whose calls suspend for a generated number of event-loop yields), each taking generated work time; idle_timeout I in {1,2,5,10,never}. Oracle per gap: if "
        "G > I + margin the run was released from memory exactly once in that gap, at idle_start + I (within the polling period), and "
        "the stored handler carried idle_since while released; if G < I - margin it was not released; every send after a release "
        "reloaded the run (observed), and at the end the handler is completed with all replies recorded in arrival order in the state "
        "store (state carried across every release/reload). Non-trivial = at least one release followed by a reload that continued the run."
    )
    assumptions = [
        "three cases in four run the in-process stack; one in four runs the real DBOSIdleReleaseDecorator over an EMULATED DBOS base (vlib/dbos_idle.py: what is emulated and which regions are excluded is listed there and in DESIGN.md 8.6); the DBOS engine, Postgres and the SQL lifecycle locks are not run",
        "release/reload instants are observed by polling the idle-release decorator's active-run set every 0.25 virtual seconds; gaps within 0.75 s of the idle timeout are not judged",
    ]
    budgets = {"quick": 350, "thorough": 4000}
    wall = {"quick": 60.0, "thorough": 900.0}

    def setup(self):
        srv.M()
        from .. import dbos_idle

        dbos_idle.setup()
        self.dbos = dbos_idle

    def strategy(self, tier):
        @st.composite
        def case(draw):
            total = draw(st.integers(2, 5))
            return {
                "total": total,
                "work": draw(st.sampled_from([0, 0, 1, 3])),
                "workers": draw(st.integers(1, 2)),
                # "deadline" = the event is sent at the very instant the idle timeout expires (races the release timer)
                # "before_deadline" = sent half a store latency before the deadline: its delivery is still being recorded when the timer fires
                "gaps": [draw(st.sampled_from([0.5, 1.5, 3, 4, 7, 12, 25, 40, "deadline", "deadline", "before_deadline"])) for _ in range(total)],
                # virtual seconds every store call takes (I/O latency), 0 = none
                "latency": draw(st.sampled_from([0, 0, 0.1, 0.2, {"read": 0.02, "write": 0.3}, {"read": 0.02, "write": 0.3}])),
                # a store with real I/O suspends inside its calls: generated numbers of event-loop yields before each store call
                "yields": draw(st.sampled_from([[], [], [1], [0, 2], [2, 0, 1], [1, 3], [3, 1, 0, 2]])),
                "idle_timeout": draw(st.sampled_from([1, 2, 5, 10, None])),
                "store": draw(st.sampled_from(["memory", "memory", "sqlite"])),
                "ties": draw(st.lists(st.integers(0, 7), max_size=4)),
            }

        from .. import dbos_idle

        return st.one_of(case(), case(), case(), dbos_idle.strategy(tier).map(lambda c: {"dbos": c}))

    def run_case(self, case):
        case = json.loads(json.dumps(case))
        if "dbos" in case:
            r = self.dbos.run_case(case["dbos"])
            r.classes = ["dbos_decorator"] + ["dbos_" + c for c in r.classes]
            return r
        r = CaseResult()
        ge = genwf.M()["ge"]
        I = case["idle_timeout"]
        log: dict = {"life": 0}
        obs: dict = {"released": [], "reloaded": [], "sends": [], "send_errors": []}

        async def main():
            genwf.CUR = genwf.Rec({"ties": case["ties"], "ext": []})
            tmp = srv.tmp_root() if case["store"] == "sqlite" else None
            try:
                store = srv.make_store(case["store"], tmp)
                if case.get("yields") or case.get("latency"):
                    store = srv.StoreProxy(store, yields=case.get("yields"), latency=case.get("latency", 0))
                life = await srv.start_life(store, srv.reply_factory(case, log), idle_timeout=float(I) if I is not None else 1e9)
                hd = await life.server._service.start_workflow(life.wf, "h1", start_event=ge.GStart())
                cur = {"life": life, "store": store, "handler_id": "h1"}
                mon = asyncio.create_task(srv.watch_release(cur, hd.run_id, obs, POLL))
                idle_from = VClock.t  # the start step finishes at once: the run idles from t=0
                for n, gap in enumerate(case["gaps"]):
                    if gap in ("deadline", "before_deadline"):
                        lat = case.get("latency", 0)
                        early = ((lat.get("write", 0) if isinstance(lat, dict) else lat) / 2.0) if gap == "before_deadline" else 0.0
                        gap = max(0.0, idle_from + float(I) - early - VClock.t) if I is not None else 1.0
                        obs["deadline_sends"] = obs.get("deadline_sends", 0) + 1
                    await asyncio.sleep(gap)
                    t_send = VClock.t
                    try:
                        await life.server._service.send_event("h1", ge.Reply(n=n))
                        obs["sends"].append({"n": n, "t": t_send, "idle_from": idle_from, "gap": gap, "deadline": case["gaps"][n] in ("deadline", "before_deadline")})
                    except Exception as e:  # noqa: BLE001
                        obs["send_errors"].append(repr(e)[:160])
                    # wait until this reply was processed (or give up at a horizon), then the next idle period starts
                    for _ in range(400):
                        await asyncio.sleep(POLL)
                        done = [b for b in log["body"] if b["n"] == n and b["exit"] == "returned"]
                        if done:
                            break
                    idle_from = max((b["t_out"] for b in log["body"] if b["t_out"] is not None), default=VClock.t)
                row = await srv.wait_terminal(store, "h1", 60.0)
                obs["row"] = {"status": row.status if row else None, "result": srv.result_of(row)}
                await asyncio.sleep(3 * POLL)  # let the monitor take its last samples
                mon.cancel()
                await asyncio.gather(mon, return_exceptions=True)
                await srv.kill_life(life)
            finally:
                srv.cleanup_tmp(tmp)
                genwf.CUR = None

        try:
            boot.run_virtual(main)
        except Runaway as e:
            r.v("runaway", detail=str(e)[:80])
            return r

        rel = obs["released"]
        n_rel_ok = 0
        # with store latency L every tick of the run and the release itself spend several store calls of L virtual seconds each: the
        # instants the zero-latency oracle is exact about move by a bounded number of calls (only for those cases; L=0 keeps it exact)
        lat_ = case.get("latency", 0) or 0
        slack = 12.0 * float(max(lat_.values()) if isinstance(lat_, dict) else lat_)
        prev_deadline = False
        for s in obs["sends"]:
            lo, hi = s["idle_from"], s["t"]
            # (a release racing a send at the deadline is observed up to one polling period later: it belongs to that gap, not the next)
            inside = [x for x in rel if lo + (POLL if prev_deadline else 0.0) - 1e-6 < x["t"] <= hi + POLL + 1e-6]
            prev_deadline = s.get("deadline", False)
            if I is not None and s["gap"] > I + 0.75 + slack:
                if len(inside) != 1:
                    r.v("idle_run_not_released_once_in_gap", releases=len(inside), gap=s["gap"], idle_timeout=I)
                else:
                    t_rel = inside[0]["t"]
                    if not (lo + I - 1e-6 <= t_rel <= lo + I + 2 * POLL + slack + 1e-6):
                        r.v("released_at_wrong_time", after_idle=round(t_rel - lo, 3), idle_timeout=I)
                    if not inside[0]["idle_since_set"]:
                        r.v("released_handler_not_marked_idle")
                    reloads = [t for t in obs["reloaded"] if s["t"] - 1e-6 <= t <= s["t"] + 2 * POLL + slack + 1e-6]
                    if not reloads:
                        r.v("send_after_release_did_not_reload_run", gap=s["gap"])
                    else:
                        n_rel_ok += 1
            elif I is None or s["gap"] < I - 0.75 - slack:
                if inside:
                    r.v("released_before_idle_timeout", gap=s["gap"], idle_timeout=I)
        if obs["send_errors"]:
            r.v("send_rejected", error=obs["send_errors"][0])
        row = obs.get("row") or {}
        want = list(range(case["total"]))
        if row.get("status") != "completed":
            r.v("run_did_not_complete", status=row.get("status"), releases=len(rel))
        else:
            res = row.get("result") or {}
            if res.get("got") != want:
                r.v("replies_lost_or_duplicated", got=res.get("got"), want=want, releases=len(rel))
            elif res.get("order") != want:
                r.v("state_not_carried_in_order", order=res.get("order"))
        bodies = [b for b in log["body"] if b["exit"] == "returned"]
        if len(bodies) != case["total"] and row.get("status") == "completed":
            r.v("reply_processed_wrong_number_of_times", processed=len(bodies), total=case["total"])
        if rel:
            r.classes.append("released")
        if n_rel_ok:
            r.classes.append("release_then_reload")
        if len(rel) >= 2:
            r.classes.append("released_twice_or_more")
        if obs.get("deadline_sends") and I is not None:
            r.classes.append("send_at_release_deadline" + ("_suspending_store" if case.get("yields") or case.get("latency") else ""))
        if case.get("latency"):
            r.classes.append("store_latency" + ("_slow_writes" if isinstance(case["latency"], dict) else ""))
        r.classes.append("store_" + case["store"])
        r.nontrivial = n_rel_ok > 0
        r.sample = {"case": case, "released": [x["t"] for x in rel][:4], "reloaded": obs["reloaded"][:4], "status": row.get("status")}
        return r


# the DBOS half's statement of what it generates, checks, emulates and excludes belongs to this check's rule / assumptions (evidence)
from .. import dbos_idle as _dbos_idle  # noqa: E402

C36.rule = C36.rule + " DBOS HALF (one case in four): " + _dbos_idle.RULE
C36.assumptions = list(C36.assumptions) + ["DBOS half: " + a for a in _dbos_idle.ASSUMPTIONS]

PROP = C36
