"""C34 — release tooling converts and classifies versions consistently (pure inputs)."""

from __future__ import annotations

from hypothesis import strategies as st

from ..runner import CaseResult, Prop

_num = st.one_of(st.integers(0, 12), st.integers(0, 10**4))
_pre_spell = st.sampled_from(["a", "b", "rc", "alpha", "beta", "c", "pre", "preview", "A", "RC", "B"])


def _pep(ncomp=(3, 3)):
    return st.fixed_dictionaries(
        {
            "rel": st.lists(_num, min_size=ncomp[0], max_size=ncomp[1]),
            "zeros": st.booleans(),
            "pre": st.one_of(st.none(), st.tuples(_pre_spell, st.integers(0, 99), st.sampled_from(["", ".", "-", "_"]))),
        }
    )


def pep_str(d):
    rel = ".".join(("0" + str(x)) if d["zeros"] and i == 1 else str(x) for i, x in enumerate(d["rel"]))
    if d["pre"]:
        lab, n, sep = d["pre"]
        rel += f"{sep}{lab}{n}"
    return rel


class C34(Prop):
    id = "C34"
    rule = (
        "cases = (a) PEP 440 versions with three release components (0..10^4, optional leading zero), optional pre-release in any PEP 440 "
        "spelling (a/alpha/b/beta/c/rc/pre/preview, separators '', '.', '-', '_'); (b) semver strings X.Y.Z[-(a|b|rc).N]; (c) pairs of "
        "versions with 1-4 release components and optional pre-releases for the classifier (pairs built to be equal, to differ in one "
        "or several components, or in the pre-release only). Non-trivial = a version with a pre-release segment, or a pair differing in >=2 components."
    )
    assumptions = [
        "the PEP 440 -> semver -> PEP 440 round trip is asserted for release tuples of 1-4 components; the MAJOR.MINOR.PATCH shape of the semver form is asserted for three-component releases only; pre-releases are generated on three-component releases only (the documented forms are X.Y.Z-label.N; a pre-release on a shorter or longer release has no semver form and the converter's pattern does not claim it)",
        "packaging.version.Version is the normalisation / ordering reference",
    ]
    budgets = {"quick": 5000, "thorough": 50000}
    wall = {"quick": 60.0, "thorough": 600.0}

    def setup(self):
        from dev_cli import changesets, versioning
        from packaging.version import Version

        self.cs, self.vs, self.V = changesets, versioning, Version

    def strategy(self, tier):
        pair = st.fixed_dictionaries(
            {
                "k": st.just("cls"),
                "old": _pep((1, 4)),
                "new": _pep((1, 4)),
                "mode": st.sampled_from(["free", "same_rel", "bump"]),
                "bump": st.tuples(st.integers(0, 3), st.integers(1, 3), st.booleans()),
            }
        )
        return st.one_of(
            st.fixed_dictionaries({"k": st.just("p2s"), "v": _pep()}),
            # release tuples of 1, 2 or 4 components: the round-trip law holds for them too (the semver shape is judged for three only)
            st.fixed_dictionaries({"k": st.just("p2s"), "v": _pep((1, 4)).map(lambda d: d if len(d["rel"]) == 3 else dict(d, pre=None))}),
            st.fixed_dictionaries({"k": st.just("s2p"), "rel": st.lists(_num, min_size=3, max_size=3), "pre": st.one_of(st.none(), st.tuples(st.sampled_from(["a", "b", "rc"]), st.integers(0, 999)))}),
            pair,
            pair,
        )

    def run_case(self, case):
        r = CaseResult()
        V = self.V
        r.classes.append(case["k"])
        if case["k"] == "p2s":
            s = pep_str(case["v"])
            try:
                want = str(V(s))
            except Exception:  # noqa: BLE001
                r.skipped = True
                return r
            try:
                sem = self.cs.pep440_to_semver(s)
                back = self.cs.semver_to_pep440(sem)
            except Exception as e:  # noqa: BLE001
                r.v("pep_roundtrip_raised", v=s, err=type(e).__name__)
                return r
            if back != want:
                r.v("pep_roundtrip", v=s, semver=sem, back=back, want=want)
            # the semver form has the documented shape
            import re

            if len(case["v"]["rel"]) == 3 and not re.fullmatch(r"\d+\.\d+\.\d+(-(a|b|rc)\.\d+)?", sem):
                r.v("semver_shape", v=s, semver=sem)
            if len(case["v"]["rel"]) != 3:
                r.classes.append("p2s_release_not_three_components")
            r.nontrivial = case["v"]["pre"] is not None
        elif case["k"] == "s2p":
            s = ".".join(str(x) for x in case["rel"])
            if case["pre"]:
                s += f"-{case['pre'][0]}.{case['pre'][1]}"
            try:
                pep = self.cs.semver_to_pep440(s)
                back = self.cs.pep440_to_semver(pep)
            except Exception as e:  # noqa: BLE001
                r.v("semver_roundtrip_raised", v=s, err=type(e).__name__)
                return r
            if back != s:
                r.v("semver_roundtrip", v=s, pep=pep, back=back)
            try:
                if str(V(pep)) != pep:
                    r.v("pep_not_normalised", v=s, pep=pep)
            except Exception:  # noqa: BLE001
                r.v("pep_invalid", v=s, pep=pep)
            r.nontrivial = case["pre"] is not None
        else:
            old = dict(case["old"])
            new = dict(case["new"])
            if case["mode"] == "same_rel":
                new["rel"] = list(old["rel"])
            elif case["mode"] == "bump":
                idx, by, zero_rest = case["bump"]
                rel = list(old["rel"]) + [0] * 4
                rel = rel[: max(len(old["rel"]), idx + 1)]
                rel[idx] += by
                if zero_rest:
                    for i in range(idx + 1, len(rel)):
                        rel[i] = 0
                new["rel"] = rel
            so, sn = pep_str(old), pep_str(new)
            try:
                vo, vn = V(so), V(sn)
            except Exception:  # noqa: BLE001
                r.skipped = True
                return r
            try:
                got = self.vs.detect_change_type(sn, so)
            except Exception as e:  # noqa: BLE001
                r.v("classify_raised", new=sn, old=so, err=type(e).__name__)
                return r
            greater = vn > vo
            if (got == "none") != (not greater):
                r.v("none_iff_not_greater", new=sn, old=so, got=got, greater=greater)
            elif greater:
                ro = (tuple(vo.release) + (0, 0, 0))[:3]
                rn = (tuple(vn.release) + (0, 0, 0))[:3]
                grew = [n for n, a, b in zip(["major", "minor", "patch"], rn, ro) if a > b]
                if grew:
                    if got != grew[0]:
                        r.v("most_significant_component", new=sn, old=so, got=got, want=grew[0])
                else:
                    r.classes.append("only_pre_or_tail_grew")
                    if got not in ("major", "minor", "patch"):
                        r.v("classification_label", new=sn, old=so, got=got)
            ndiff = sum(1 for a, b in zip((tuple(vo.release) + (0,) * 4)[:4], (tuple(vn.release) + (0,) * 4)[:4]) if a != b)
            r.nontrivial = ndiff >= 2 or old["pre"] is not None or new["pre"] is not None
            r.classes.append("greater" if greater else "not_greater")
        return r


PROP = C34
