"""C28 — SQLite schema migrations converge from any earlier schema (finite domain, enumerated exhaustively)."""

from __future__ import annotations

import itertools
import os
import sqlite3
import tempfile

from .. import boot
from ..runner import CaseResult, Prop


class C28(Prop):
    id = "C28"
    level = "exploration"
    exhaustive = True
    rule = (
        "finite domain enumerated completely: start state in {fresh, migrations 1..p recorded in a schema_migrations table created from "
        "the DDL of the code under test (p=1..N), migrations 1..p recorded in a schema_migrations table in the SHIPPED on-disk layout "
        "(frozen copy of the released DDL kept in this check; built as the released runner builds it: bookkeeping table first, then each "
        "migration followed by its row; p=0..N, p=0 = bookkeeping table present and empty), legacy "
        "database with PRAGMA user_version=p and no schema_migrations table (p=1..N)} x prior handler rows {none, two rows, rows with NULLs "
        "and unicode} x number of run_migrations calls {1,2,3} x connection mode {same connection, new connection per call} x db kind "
        "{file, :memory:}; N is read from the packaged migration files. Fault families over the same start states: the k-th SQL "
        "statement that run_migrations prepares is refused (an error surfaces from the middle of a migration run; every k of the run is "
        "enumerated, quick tier: every 3rd), or the process stops at that statement boundary (the database files are copied at that "
        "instant and the copy is opened later, as after a kill); then run_migrations runs again without faults and must reach the same "
        "final schema, every version recorded once, rows intact. The final schema of EVERY start state -- every table, the schema_migrations "
        "bookkeeping table included -- is compared with that of a fresh database migrated by the code under test ('yields the same final "
        "schema'). Non-trivial = start state is not fresh, more than one run, or a fault."
    )
    assumptions = [
        "the 'shipped' / 'shipped_legacy' start states are built from frozen copies of the migration files as released at the pinned commit (vlib/props/c28_shipped/*.sql), not from the files of the tree under test: an edit of an already-shipped file does not change what deployed databases ran",
        "the 'shipped' start states carry the bookkeeping table as existing deployments have it on disk at the pinned commit: "
        "schema_migrations(package TEXT NOT NULL, version INTEGER NOT NULL, applied_at TEXT NOT NULL DEFAULT (datetime('now')), "
        "PRIMARY KEY (package, version)); this layout is frozen in the check (SHIPPED_SCHEMA_MIGRATIONS_DDL) and deliberately NOT read "
        "from the code under test, because a deployed database does not change when the code does",
        "earlier schema versions are built by executing the packaged migration SQL files themselves for versions <= p",
        "schemas are compared through PRAGMA table_info / index_list / index_info of every table, not by SQL text",
        "an interrupted run may raise; only the state it leaves behind is judged, by re-running the migrations on it (the statement's 'any earlier schema version' includes what an interrupted run leaves)",
        "statement boundaries are observed through sqlite3's authorizer callback (called when a statement is prepared); refusing = SQLITE_DENY there",
    ]
    min_nontrivial_frac = 0.0

    # on-disk format of the bookkeeping table in existing deployments (released layout at the pinned commit); never derived from the
    # code under test
    SHIPPED_SCHEMA_MIGRATIONS_DDL = (
        "CREATE TABLE IF NOT EXISTS schema_migrations (\n"
        "    package TEXT NOT NULL,\n"
        "    version INTEGER NOT NULL,\n"
        "    applied_at TEXT NOT NULL DEFAULT (datetime('now')),\n"
        "    PRIMARY KEY (package, version)\n"
        ");\n"
    )

    def setup(self):
        boot.seed_llama_agents()
        from llama_agents.server._store import SQLITE_MIGRATION_SOURCE
        from llama_agents.server._store.migration_utils import iter_migration_files, parse_target_version
        from llama_agents.server._store.sqlite import migrate

        self.migrate = migrate
        self.files = []
        for p in iter_migration_files(SQLITE_MIGRATION_SOURCE[1]):
            txt = p.read_text()
            self.files.append((parse_target_version(txt), txt))
        self.N = len(self.files)
        self._ref = None
        # the migration files as RELEASED at the pinned commit (frozen copies kept next to this check): what existing deployments
        # actually ran.  Start states built from them are independent of later edits to already-shipped files.
        import glob

        here = os.path.join(os.path.dirname(os.path.abspath(__file__)), "c28_shipped")
        self.shipped_files = []
        for fp in sorted(glob.glob(os.path.join(here, "*.sql"))):
            txt = open(fp).read()
            self.shipped_files.append((parse_target_version(txt), txt))
        self.NS = len(self.shipped_files)

    def enumerate(self, tier):
        starts = (
            [["fresh", 0]]
            + [["recorded", p] for p in range(1, self.N + 1)]
            + [["legacy", p] for p in range(1, self.N + 1)]
            + [["shipped", p] for p in range(0, self.NS + 1)]
            + [["shipped_legacy", p] for p in range(1, self.NS + 1)]
        )
        for start, data, runs, mode, kind in itertools.product(starts, ["none", "two", "odd"], [1, 2, 3], ["same", "new"], ["file", "memory"]):
            if kind == "memory" and mode == "new":
                continue  # a new connection to :memory: is a new database
            yield {"start": start, "data": data, "runs": runs, "mode": mode, "kind": kind}
        stride = 3 if tier == "quick" else 1
        for start in starts:
            n = self._count_callbacks(start)
            for k in range(0, n, stride):
                yield {"start": start, "data": "two", "kind": "memory", "fault": ["deny", k]}
                if tier != "quick":
                    yield {"start": start, "data": "two", "kind": "file", "fault": ["deny", k]}
                yield {"start": start, "data": "two", "kind": "file", "fault": ["crash", k]}

    def _build_start(self, conn, kind, p, data):
        if kind == "shipped":
            # a database as a released server left it: bookkeeping table in the released layout, then migration, row, migration, row ...
            conn.executescript(self.SHIPPED_SCHEMA_MIGRATIONS_DDL)
            for ver, sql in self.shipped_files:
                if ver <= p:
                    conn.executescript(sql)
                    conn.execute("INSERT INTO schema_migrations (package, version) VALUES ('server', ?)", (ver,))
            rows = self.ROWS[data] if p >= 1 else []
            for row in rows:
                conn.execute("INSERT INTO handlers (handler_id, workflow_name, status, ctx) VALUES (?,?,?,?)", row)
            conn.commit()
            return rows
        if kind == "shipped_legacy":
            # a pre-bookkeeping database as a released server left it: released files 1..p, PRAGMA user_version=p
            for ver, sql in self.shipped_files:
                if ver <= p:
                    conn.executescript(sql)
            conn.execute(f"PRAGMA user_version={p}")
            rows = self.ROWS[data] if p >= 1 else []
            for row in rows:
                conn.execute("INSERT INTO handlers (handler_id, workflow_name, status, ctx) VALUES (?,?,?,?)", row)
            conn.commit()
            return rows
        for ver, sql in self.files:
            if ver <= p:
                conn.executescript(sql)
        if kind == "recorded":
            conn.executescript(self.migrate._SCHEMA_MIGRATIONS_DDL)
            for v in range(1, p + 1):
                conn.execute("INSERT INTO schema_migrations (package, version) VALUES ('server', ?)", (v,))
        elif kind == "legacy":
            conn.execute(f"PRAGMA user_version={p}")
        rows = self.ROWS[data] if p >= 1 else []
        for row in rows:
            conn.execute("INSERT INTO handlers (handler_id, workflow_name, status, ctx) VALUES (?,?,?,?)", row)
        conn.commit()
        return rows

    def _count_callbacks(self, start):
        kind, p = start
        conn = sqlite3.connect(":memory:")
        self._build_start(conn, kind, p, "two")
        n = [0]

        def auth(*_a):
            n[0] += 1
            return sqlite3.SQLITE_OK

        conn.set_authorizer(auth)
        try:
            self.migrate.run_migrations(conn)
        except Exception:  # noqa: BLE001  (a run that raises without any fault is reported by the fault-free case of this start state)
            pass
        conn.set_authorizer(None)
        conn.close()
        return n[0]

    def _reference(self):
        if self._ref is None:
            c2 = sqlite3.connect(":memory:")
            self.migrate.run_migrations(c2)
            self._ref = self.schema(c2)
            c2.close()
        return self._ref

    def run_fault(self, case, r):
        import shutil

        kind, p = case["start"]
        how, k = case["fault"]
        tmp = None
        if case["kind"] == "file":
            tmp = tempfile.mkdtemp(prefix="c28-", dir="/dev/shm" if os.path.isdir("/dev/shm") else None)
            path = os.path.join(tmp, "db.sqlite")
        else:
            path = ":memory:"
        attrs = dict(start=kind, p=p, fault=how, db=case["kind"])
        try:
            conn = sqlite3.connect(path)
            rows = self._build_start(conn, kind, p, case["data"])
            n = [0]
            crash_dir = os.path.join(tmp, "crash") if tmp else None
            seen = []

            def auth(action, a1, a2, dbname, src):
                i = n[0]
                n[0] += 1
                if i == k:
                    seen.append((action, a1))
                    if how == "deny":
                        return sqlite3.SQLITE_DENY
                    os.mkdir(crash_dir)
                    for suffix in ("", "-wal", "-shm", "-journal"):
                        if os.path.exists(path + suffix):
                            shutil.copy(path + suffix, os.path.join(crash_dir, "db.sqlite" + suffix))
                return sqlite3.SQLITE_OK

            conn.set_authorizer(auth)
            raised = None
            try:
                self.migrate.run_migrations(conn)
            except Exception as e:  # noqa: BLE001  (an interrupted run may fail: judged by what it leaves behind)
                raised = e
            conn.set_authorizer(None)
            if not seen:
                r.classes.append("fault_point_not_reached")
                conn.close()
                return
            if how == "deny":
                if raised is None:
                    r.classes.append("refusal_tolerated")
                try:
                    conn.rollback()
                except Exception:  # noqa: BLE001
                    pass
                if case["kind"] == "file":
                    conn.close()
                    conn = sqlite3.connect(path)
            else:
                conn.close()
                conn = sqlite3.connect(os.path.join(crash_dir, "db.sqlite"))
            r.classes.append(f"fault_{how}")
            r.classes.append("fault_at_" + str(seen[0][0]))
            try:
                self.migrate.run_migrations(conn)
                conn.commit()
            except Exception as e:  # noqa: BLE001
                r.v("rerun_after_interrupted_run_raised", err=f"{type(e).__name__}: {e}"[:80], **attrs)
                conn.close()
                return
            schema = self.schema(conn)
            vers = [v for (v,) in conn.execute("SELECT version FROM schema_migrations WHERE package='server' ORDER BY version")]
            data = conn.execute("SELECT handler_id, workflow_name, status, ctx FROM handlers ORDER BY handler_id").fetchall()
            conn.close()
            if vers != list(range(1, self.N + 1)):
                r.v("versions_not_recorded_once_after_interrupted_run", recorded=vers, **attrs)
            ref = self._reference()
            if schema != ref:
                diff = [t for t in set(schema) | set(ref) if schema.get(t) != ref.get(t)]
                r.v("final_schema_differs_after_interrupted_run", tables=sorted(diff)[:4], **attrs)
            if sorted(data) != sorted(rows):
                r.v("data_changed_after_interrupted_run", **attrs)
        finally:
            if tmp:
                shutil.rmtree(tmp, ignore_errors=True)

    ROWS = {
        "none": [],
        "two": [("h1", "wf", "running", "{}"), ("h2", "wf2", "completed", '{"a": 1}')],
        "odd": [("h-ü", None, None, None), ("", "w", "failed", "x" * 2000)],
    }

    @staticmethod
    def schema(conn):
        out = {}
        for (name,) in conn.execute("SELECT name FROM sqlite_master WHERE type='table' AND name NOT LIKE 'sqlite_%' ORDER BY name"):
            cols = [tuple(r[1:]) for r in conn.execute(f"PRAGMA table_info('{name}')")]
            idx = []
            for r in conn.execute(f"PRAGMA index_list('{name}')"):
                iname = r[1]
                if iname.startswith("sqlite_autoindex"):
                    iname = "auto"
                idx.append((iname, r[2], tuple(x[2] for x in conn.execute(f"PRAGMA index_info('{r[1]}')"))))
            out[name] = (cols, sorted(idx))
        return out

    def run_case(self, case):
        r = CaseResult()
        kind, p = case["start"]
        if case.get("fault"):
            self.run_fault(case, r)
            r.nontrivial = any(c.startswith("fault_") and c != "fault_point_not_reached" for c in r.classes)
            r.classes.append(f"start_{kind}")
            if kind == "shipped":
                r.classes.append(f"shipped_layout_p{p}")
            return r
        tmp = None
        if case["kind"] == "file":
            tmp = tempfile.mkdtemp(prefix="c28-")
            path = os.path.join(tmp, "db.sqlite")
        else:
            path = ":memory:"
        try:
            conn = sqlite3.connect(path)
            # build the earlier schema from the packaged SQL itself
            rows = self._build_start(conn, kind, p, case["data"])
            snaps = []
            for i in range(case["runs"]):
                if case["mode"] == "new" and i > 0:
                    conn.close()
                    conn = sqlite3.connect(path)
                try:
                    self.migrate.run_migrations(conn)
                except Exception as e:  # noqa: BLE001
                    r.v("migration_raised", run=i + 1, start=kind, p=p, err=f"{type(e).__name__}: {e}"[:80])
                    return r
                conn.commit()
                snaps.append(
                    (
                        self.schema(conn),
                        conn.execute("SELECT package, version, applied_at FROM schema_migrations ORDER BY package, version").fetchall(),
                        conn.execute("SELECT handler_id, workflow_name, status, ctx FROM handlers ORDER BY handler_id").fetchall(),
                    )
                )
            schema, book, data = snaps[0]
            vers = [v for (_pkg, v, _at) in book]
            if sorted(vers) != list(range(1, self.N + 1)) or len(set(vers)) != len(vers):
                r.v("versions_not_recorded_once", start=kind, p=p, recorded=vers)
            if self._ref is None:
                # reference = fresh database migrated once (computed once per process)
                c2 = sqlite3.connect(":memory:")
                self.migrate.run_migrations(c2)
                self._ref = self.schema(c2)
                c2.close()
            if schema != self._ref:
                diff = [t for t in set(schema) | set(self._ref) if schema.get(t) != self._ref.get(t)]
                r.v("final_schema_differs_from_fresh", start=kind, p=p, tables=sorted(diff)[:4])
            if sorted(data) != sorted(rows):
                r.v("data_changed_by_migration", start=kind, p=p)
            for i, s in enumerate(snaps[1:], start=2):
                if s != snaps[0]:
                    what = [n for n, a, b in zip(["schema", "bookkeeping", "data"], s, snaps[0]) if a != b]
                    r.v("rerun_changed_something", run=i, start=kind, p=p, what=what)
            conn.close()
        finally:
            if tmp:
                import shutil

                shutil.rmtree(tmp, ignore_errors=True)
        r.nontrivial = kind != "fresh" or case["runs"] > 1
        r.classes += [f"start_{kind}", f"runs_{case['runs']}"]
        if kind == "shipped":
            r.classes.append(f"shipped_layout_p{p}")
        return r


PROP = C28
