"""C28 — SQLite schema migrations converge from any earlier schema (finite domain, enumerated exhaustively)."""

from __future__ import annotations

import itertools
import os
import sqlite3
import tempfile

from .. import boot
from ..runner import CaseResult, Prop


class C28(Prop):
    id = "C28"
    level = "exploration"
    exhaustive = True
    rule = (
        "finite domain enumerated completely: start state in {fresh, migrations 1..p recorded in schema_migrations (p=1..N), legacy "
        "database with PRAGMA user_version=p and no schema_migrations table (p=1..N)} x prior handler rows {none, two rows, rows with NULLs "
        "and unicode} x number of run_migrations calls {1,2,3} x connection mode {same connection, new connection per call} x db kind "
        "{file, :memory:}; N is read from the packaged migration files. Non-trivial = start state is not fresh or more than one run."
    )
    assumptions = [
        "earlier schema versions are built by executing the packaged migration SQL files themselves for versions <= p",
        "schemas are compared through PRAGMA table_info / index_list / index_info of every table, not by SQL text",
    ]
    min_nontrivial_frac = 0.0

    def setup(self):
        boot.seed_llama_agents()
        from llama_agents.server._store import SQLITE_MIGRATION_SOURCE
        from llama_agents.server._store.migration_utils import iter_migration_files, parse_target_version
        from llama_agents.server._store.sqlite import migrate

        self.migrate = migrate
        self.files = []
        for p in iter_migration_files(SQLITE_MIGRATION_SOURCE[1]):
            txt = p.read_text()
            self.files.append((parse_target_version(txt), txt))
        self.N = len(self.files)
        self._ref = None

    def enumerate(self, tier):
        starts = [["fresh", 0]] + [["recorded", p] for p in range(1, self.N + 1)] + [["legacy", p] for p in range(1, self.N + 1)]
        for start, data, runs, mode, kind in itertools.product(starts, ["none", "two", "odd"], [1, 2, 3], ["same", "new"], ["file", "memory"]):
            if kind == "memory" and mode == "new":
                continue  # a new connection to :memory: is a new database
            yield {"start": start, "data": data, "runs": runs, "mode": mode, "kind": kind}

    ROWS = {
        "none": [],
        "two": [("h1", "wf", "running", "{}"), ("h2", "wf2", "completed", '{"a": 1}')],
        "odd": [("h-ü", None, None, None), ("", "w", "failed", "x" * 2000)],
    }

    @staticmethod
    def schema(conn):
        out = {}
        for (name,) in conn.execute("SELECT name FROM sqlite_master WHERE type='table' AND name NOT LIKE 'sqlite_%' ORDER BY name"):
            cols = [tuple(r[1:]) for r in conn.execute(f"PRAGMA table_info('{name}')")]
            idx = []
            for r in conn.execute(f"PRAGMA index_list('{name}')"):
                iname = r[1]
                if iname.startswith("sqlite_autoindex"):
                    iname = "auto"
                idx.append((iname, r[2], tuple(x[2] for x in conn.execute(f"PRAGMA index_info('{r[1]}')"))))
            out[name] = (cols, sorted(idx))
        return out

    def run_case(self, case):
        r = CaseResult()
        kind, p = case["start"]
        tmp = None
        if case["kind"] == "file":
            tmp = tempfile.mkdtemp(prefix="c28-")
            path = os.path.join(tmp, "db.sqlite")
        else:
            path = ":memory:"
        try:
            conn = sqlite3.connect(path)
            # build the earlier schema from the packaged SQL itself
            for ver, sql in self.files:
                if ver <= p:
                    conn.executescript(sql)
            if kind == "recorded":
                conn.executescript(self.migrate._SCHEMA_MIGRATIONS_DDL)
                for v in range(1, p + 1):
                    conn.execute("INSERT INTO schema_migrations (package, version) VALUES ('server', ?)", (v,))
            elif kind == "legacy":
                conn.execute(f"PRAGMA user_version={p}")
            rows = self.ROWS[case["data"]] if p >= 1 else []
            for row in rows:
                conn.execute("INSERT INTO handlers (handler_id, workflow_name, status, ctx) VALUES (?,?,?,?)", row)
            conn.commit()
            snaps = []
            for i in range(case["runs"]):
                if case["mode"] == "new" and i > 0:
                    conn.close()
                    conn = sqlite3.connect(path)
                try:
                    self.migrate.run_migrations(conn)
                except Exception as e:  # noqa: BLE001
                    r.v("migration_raised", run=i + 1, start=kind, p=p, err=f"{type(e).__name__}: {e}"[:80])
                    return r
                conn.commit()
                snaps.append(
                    (
                        self.schema(conn),
                        conn.execute("SELECT package, version, applied_at FROM schema_migrations ORDER BY package, version").fetchall(),
                        conn.execute("SELECT handler_id, workflow_name, status, ctx FROM handlers ORDER BY handler_id").fetchall(),
                    )
                )
            schema, book, data = snaps[0]
            vers = [v for (_pkg, v, _at) in book]
            if sorted(vers) != list(range(1, self.N + 1)) or len(set(vers)) != len(vers):
                r.v("versions_not_recorded_once", start=kind, p=p, recorded=vers)
            if self._ref is None:
                # reference = fresh database migrated once (computed once per process)
                c2 = sqlite3.connect(":memory:")
                self.migrate.run_migrations(c2)
                self._ref = self.schema(c2)
                c2.close()
            if schema != self._ref:
                diff = [t for t in set(schema) | set(self._ref) if schema.get(t) != self._ref.get(t)]
                r.v("final_schema_differs_from_fresh", start=kind, p=p, tables=sorted(diff)[:4])
            if sorted(data) != sorted(rows):
                r.v("data_changed_by_migration", start=kind, p=p)
            for i, s in enumerate(snaps[1:], start=2):
                if s != snaps[0]:
                    what = [n for n, a, b in zip(["schema", "bookkeeping", "data"], s, snaps[0]) if a != b]
                    r.v("rerun_changed_something", run=i, start=kind, p=p, what=what)
            conn.close()
        finally:
            if tmp:
                import shutil

                shutil.rmtree(tmp, ignore_errors=True)
        r.nontrivial = kind != "fresh" or case["runs"] > 1
        r.classes += [f"start_{kind}", f"runs_{case['runs']}"]
        return r


PROP = C28
