"""C02 — every emitted event reaches each accepting step exactly once (reference routing model)."""

from __future__ import annotations

from ..genwf import _uid_of
from ..runner import CaseResult
from ._engine import EngineProp


class C02(EngineProp):
    id = "C02"
    rule = (
        "cases = generated propagation programs without collect_events: events emitted by return, ctx.send_event (broadcast and "
        "targeted), and external handler.ctx.send_event; several steps per type; steps with a leading wait_for_event; a step that both "
        "accepts and waits for the same type; external events nobody accepts (plain, InputRequiredEvent). The StopEvent is produced "
        "only by a step triggered by a harness-sent Fin event after quiescence, so 'unless the run ends first' never applies. "
        "Non-trivial = some event had >=2 receivers and some event had to queue (seen in the live-state probe)."
    )
    assumptions = [
        "a delivery is a body entry with retry_number 0 that is not the replay following a WaitingForEvent exit of the same (step, input)",
        "whether a step 'is waiting' for an event is read from the live reducer state just before the event's add-event tick",
        "virtual time / generated tie-breaks as in C01",
    ]
    gen_kwargs = dict(collect=False, waits=True, retries=True, unhandled=True, reply_step=True, ask=True, ask_consumer=True)
    expect_result = True

    def oracle(self, spec, rec, r: CaseResult) -> None:
        accepts = {s["name"]: list(s["accepts"]) for s in spec["steps"]}
        cons: dict[str, list[str]] = {}
        for n, acc in accepts.items():
            for t in acc:
                cons.setdefault(t, []).append(n)
        # -- nothing delivered to a step that does not accept it; nothing invented
        for inv in rec.inv:
            if inv["type"] not in accepts[inv["step"]]:
                r.v("delivered_unaccepted_type", step=inv["step"], type=inv["type"])
            if inv["uid"] not in rec.emits:
                r.v("delivered_unknown_event", step=inv["step"], uid=inv["uid"])
        # -- deliveries per (step, uid)
        deliveries: dict[tuple[str, int], int] = {}
        seq: dict[tuple[str, int], bool] = {}
        for inv in rec.inv:
            if inv["attempt"] != 0:
                continue
            key = (inv["step"], inv["uid"])
            if not seq.get(key, False):
                deliveries[key] = deliveries.get(key, 0) + 1
            seq[key] = inv["exit"] == "waiting"
        wait_got: dict[int, list[tuple[str, int]]] = {}
        for inv in rec.inv:
            for w in inv["waits"]:
                if "got" in w:
                    wait_got.setdefault(w["got"], []).append((inv["step"], inv["uid"]))
        # -- pre-state waiters at each add-event tick
        pre_waiters: dict[int, dict[str, list]] = {}
        prev = None
        for tk in rec.ticks:
            if tk["tick"] == "TickAddEvent" and getattr(tk["tick_obj"], "attempts", None) is None:
                u = _uid_of(tk["tick_obj"].event)
                if u is not None and u not in pre_waiters:
                    pre_waiters[u] = {n: list(w["waiters_full"]) for n, w in (prev["workers"].items() if prev else [])}
            prev = tk
        unhandled_expected: dict[tuple[str, str | None], int] = {}
        multi = False
        for u, em in rec.emits.items():
            if em["via"] in ("stream", "waiter_event"):
                continue
            t = em["type"]
            if t == "GStop":
                continue
            target = em["target"]
            if u not in pre_waiters and em["via"] != "start":
                # never processed (e.g. sent after the run ended) -- Fin is last, so this should not happen
                if t != "Fin":
                    r.v("event_never_processed", uid=u, type=t, via=em["via"])
                continue
            pw = pre_waiters.get(u, {})
            # a waiter that already holds its event (or timed out) is no longer waiting
            unresolved = {n: [w for w in ws if w["type"] == t and not w["resolved"] and not w["timed_out"]] for n, ws in pw.items()}
            any_handled = False
            nrecv = 0
            for n in accepts:
                exp_input = t in accepts[n] and (target is None or target == n)
                got_in = deliveries.get((n, u), 0)
                got_wait = [x for x in wait_got.get(u, []) if x[0] == n]
                if unresolved.get(n):
                    any_handled = True
                    # the waiting invocations get it as wait result; no new input for this step
                    want = sorted({w["input_uid"] for w in unresolved[n]})
                    have = sorted({x[1] for x in got_wait})
                    if got_in:
                        r.v("waiting_step_also_got_input", step=n, type=t)
                    if want != have:
                        # a waiter resolved twice keeps only the later event; tolerate only if overwritten by a later one
                        r.v("wait_result_mismatch", step=n, type=t, want=want, have=have)
                    nrecv += 1
                else:
                    if exp_input:
                        any_handled = True
                        nrecv += 1
                        if got_in != 1:
                            r.v("delivery_count", step=n, type=t, via=em["via"], targeted=target is not None, got=got_in, want=1)
                    else:
                        if got_in:
                            r.v("delivered_to_non_receiver", step=n, type=t, targeted=target is not None, got=got_in)
                        if got_wait:
                            r.v("wait_result_without_waiter", step=n, type=t)
            if nrecv >= 2:
                multi = True
            if not any_handled and t != "Ask":
                unhandled_expected[(t, target)] = unhandled_expected.get((t, target), 0) + 1
        # -- UnhandledEvent reports
        seen: dict[tuple[str, str | None], int] = {}
        for _, e in rec.stream:
            if type(e).__name__ == "UnhandledEvent":
                seen[(e.event_type, e.step_name)] = seen.get((e.event_type, e.step_name), 0) + 1
        for k in set(seen) | set(unhandled_expected):
            if seen.get(k, 0) != unhandled_expected.get(k, 0):
                r.v("unhandled_report_count", type=k[0], got=seen.get(k, 0), want=unhandled_expected.get(k, 0))
        queued = any(w["queue"] for tk in rec.ticks for w in tk["workers"].values())
        r.nontrivial = multi and queued
        if multi:
            r.classes.append("multi_receiver")
        if queued:
            r.classes.append("queued")
        if unhandled_expected:
            r.classes.append("unhandled")
        if wait_got:
            r.classes.append("wait_results")
        if any(em["target"] for em in rec.emits.values()):
            r.classes.append("targeted")
        if any(em["via"] == "ext" for em in rec.emits.values()):
            r.classes.append("external")


PROP = C02
