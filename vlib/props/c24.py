"""C24 — handler stores answer queries consistently and retain the newest completions.

Operation sequences (upsert / update_handler_status / delete / query) are applied to the real
MemoryWorkflowStore and the real SqliteWorkflowStore and to a plain-Python list model whose filter
predicate is written from the comments of HandlerQuery ("matches if any of the ... match", every given
filter must match, an empty list matches nothing).  The memory store is additionally compared with a
retention model taken from the property text: every non-terminal handler is kept, and of the terminal
ones exactly the max_completed most recently completed.
"""

from __future__ import annotations

import itertools
import os
import shutil
import tempfile
from datetime import datetime, timezone

from hypothesis import strategies as st

from .. import boot
from ..runner import CaseResult, Prop

HIDS = ["h0", "h1", "h2", "h3", "h4"]
WFS = ["wA", "wB"]
STATUSES = ["running", "completed", "failed", "cancelled"]
TERMINAL = ("completed", "failed", "cancelled")
RUNIDS = [f"{h}-r{k}" for h in HIDS for k in (0, 1)] + ["nope"]
FIELDS = ["handler_id", "workflow_name", "status", "run_id", "error", "result", "started_at", "updated_at", "completed_at", "idle_since"]
FNAMES = ["h", "r", "w", "s", "idle"]


def _ts(i: float) -> str:
    return datetime.fromtimestamp(boot.EPOCH0 + i, tz=timezone.utc).isoformat()


def _iso(d) -> str | None:
    return None if d is None else d.astimezone(timezone.utc).isoformat()


def _matches(rec: dict, q: list) -> bool:
    """Reference predicate (HandlerQuery comments): all given filters must match; [] matches nothing."""
    for key, vals in zip(("handler_id", "run_id", "workflow_name", "status"), q[:4]):
        if vals is not None and rec[key] not in vals:  # `x in []` is False: an empty list matches nothing
            return False
    if q[4] is not None and q[4] != (rec["idle_since"] is not None):
        return False
    return True


def _qname(q: list) -> str:
    return "+".join(n for n, v in zip(FNAMES, q) if v is not None) or "none"


class C24(Prop):
    id = "C24"
    rule = (
        "case = max_completed in {0,1,2,3,None}, SQLite connection mode, and up to 30 operations over 5 handler ids / 2 workflow names / "
        "4 statuses / 2 run ids per handler: upsert (update) with any status incl. repeated terminal upserts and terminal->running with a new "
        "run, update_handler_status (status or none, idle_since set/cleared/unset, stale run ids), delete with >=1 filter, query with every "
        "filter each absent / empty list / non-empty list; after every mutating operation the full content of both real stores is compared "
        "with a list model (memory store: model plus retention = all non-terminal handlers and exactly the max_completed most recently "
        "completed terminal ones, 'most recent' = most recent terminal write, the moment completed_at is stamped), every "
        "query/delete is compared with the model's filter predicate, and at the end all 32 present/absent filter combinations are queried. "
        "Non-trivial = a query/delete with >=2 filters that selected a non-empty proper subset, or a retention eviction happened."
    )
    assumptions = [
        "datetime.now() inside abstract_workflow_store/memory_workflow_store reads the harness virtual clock (one second per operation)",
        "run ids are unique per handler (as produced by the real server); two handlers never share a run id",
        "timestamps passed by the harness are timezone-aware UTC, results are StopEvent(result=<small int>)",
        "query result order is not part of the property: results are compared as sets of full records keyed by handler_id",
        "llama_index_instrumentation is the functional no-op shim",
        "the SQLite file lives in a per-case temp directory (on /dev/shm when writable, otherwise the default temp dir), removed after the case",
    ]
    budgets = {"quick": 1400, "thorough": 1500}
    wall = {"quick": 45.0, "thorough": 300.0}

    def setup(self):
        boot.seed_llama_agents()
        from llama_agents.server._store import abstract_workflow_store as aws
        from llama_agents.server._store import memory_workflow_store as mws
        from llama_agents.server._store.sqlite.sqlite_workflow_store import SqliteWorkflowStore
        from workflows.events import StopEvent

        boot.patch_datetime(aws, mws)
        # tmpfs when available: only to avoid the fsync cost of the ~40 commits per case
        self.tmproot = "/dev/shm" if os.path.isdir("/dev/shm") and os.access("/dev/shm", os.W_OK) else None
        self.aws = aws
        self.Mem = mws.MemoryWorkflowStore
        self.Sql = SqliteWorkflowStore
        self.StopEvent = StopEvent

    # ------------------------------------------------------------------ generator

    def strategy(self, tier):
        hid = st.sampled_from(HIDS)

        def flt(values, most):
            some = st.lists(st.sampled_from(values), min_size=1, max_size=most, unique=True)
            # filter lists are plain lists: a value may be listed twice ("matches if any of the ids match")
            rep = st.lists(st.sampled_from(values), min_size=2, max_size=most + 1)
            return st.one_of(st.none(), st.none(), st.none(), st.none(), st.just([]), some, some, some, rep)

        query = st.tuples(flt(HIDS, 4), flt(RUNIDS, 8), flt(WFS, 2), flt(STATUSES, 3), st.sampled_from([None, None, None, True, False])).map(list)
        up = st.tuples(
            st.just("up"),
            hid,
            st.sampled_from(WFS),
            st.sampled_from(["running", "completed", "completed", "failed", "cancelled"]),
            st.sampled_from([0, 0, 1, None]),
            st.booleans(),
            st.sampled_from([None, None, 1, 2]),
            st.booleans(),
        )
        stat = st.tuples(
            st.just("st"),
            hid,
            st.sampled_from([0, 0, 1]),
            st.sampled_from([None, None, "running", "completed", "completed", "failed", "cancelled"]),
            st.sampled_from(["unset", "unset", "clear", "set"]),
            st.sampled_from([None, None, 7]),
            st.sampled_from([None, None, "boom"]),
        )
        dele = st.tuples(st.just("del"), query.filter(lambda q: any(v is not None for v in q)))
        qry = st.tuples(st.just("q"), query)
        op = st.one_of(up, up, up, stat, stat, dele, qry, qry).map(list)
        return st.fixed_dictionaries(
            {
                "cap": st.sampled_from([0, 1, 1, 2, 2, 3, None]),
                "single": st.sampled_from([True, True, True, True, True, False]),  # a new connection per call costs ~2 ms of system time
                "ops": st.one_of(st.lists(op, min_size=1, max_size=8), st.lists(op, min_size=8, max_size=30)),
                "sweep": query.map(lambda q: [v if v is not None else d for v, d in zip(q, (["h0"], ["h0-r0"], ["wA"], ["completed"], False))]),
            }
        )

    # ------------------------------------------------------------------ helpers

    def _rec(self, h) -> dict:
        res = h.result
        return {
            "handler_id": h.handler_id,
            "workflow_name": h.workflow_name,
            "status": h.status,
            "run_id": h.run_id,
            "error": h.error,
            "result": None if res is None else getattr(res, "result", repr(res)),
            "started_at": _iso(h.started_at),
            "updated_at": _iso(h.updated_at),
            "completed_at": _iso(h.completed_at),
            "idle_since": _iso(h.idle_since),
        }

    def _handler(self, rec: dict):
        dt = lambda s: None if s is None else datetime.fromisoformat(s)  # noqa: E731
        return self.aws.PersistentHandler(
            handler_id=rec["handler_id"],
            workflow_name=rec["workflow_name"],
            status=rec["status"],
            run_id=rec["run_id"],
            error=rec["error"],
            result=None if rec["result"] is None else self.StopEvent(result=rec["result"]),
            started_at=dt(rec["started_at"]),
            updated_at=dt(rec["updated_at"]),
            completed_at=dt(rec["completed_at"]),
            idle_since=dt(rec["idle_since"]),
        )

    def _hq(self, q: list):
        return self.aws.HandlerQuery(handler_id_in=q[0], run_id_in=q[1], workflow_name_in=q[2], status_in=q[3], is_idle=q[4])

    # ------------------------------------------------------------------ one case

    def run_case(self, case):
        r = CaseResult()
        tmp = tempfile.mkdtemp(prefix="c24-", dir=self.tmproot)
        try:
            boot.run_virtual(self._scenario, case, r, os.path.join(tmp, "handlers.sqlite"))
        finally:
            shutil.rmtree(tmp, ignore_errors=True)
        return r

    async def _scenario(self, case, r: CaseResult, db_path: str):
        cap = case["cap"]
        mem = self.Mem(max_completed=cap)
        sql = self.Sql(db_path, single_connection=bool(case["single"]))
        stores = {"memory": mem, "sqlite": sql}
        models: dict[str, dict[str, dict]] = {"memory": {}, "sqlite": {}}
        # completion order of the terminal handlers currently in the memory model
        last_terminal_update: dict[str, int] = {}  # reading (a): most recent terminal update
        became_terminal: dict[str, int] = {}  # reading (b): most recent transition into a terminal status
        hist: list[str] = []  # which kinds of history have occurred so far (diagnostic attribute only)
        stats = {"evictions": 0, "selective": False}
        classes: set[str] = set()

        def flag(name: str) -> None:
            if name not in hist:
                hist.append(name)
            classes.add(name)

        async def contents(name: str):
            got = [self._rec(h) for h in await stores[name].query(self.aws.HandlerQuery())]
            ids = [g["handler_id"] for g in got]
            if len(set(ids)) != len(ids):
                r.v("duplicate_handler_rows", store=name)
            return {g["handler_id"]: g for g in got}

        def diff_fields(a: dict, b: dict) -> list[str]:
            return [f for f in FIELDS if a[f] != b[f]]

        def check_plain(name: str, got: dict, want: dict, kind: str, **attrs) -> bool:
            missing = sorted(set(want) - set(got))
            extra = sorted(set(got) - set(want))
            fields = sorted({f for k in set(got) & set(want) for f in diff_fields(got[k], want[k])})
            if missing or extra or fields:
                r.v(kind, store=name, missing=len(missing), extra=len(extra), fields=fields, **attrs)
                return False
            return True

        def check_memory_after_update(i: int, opname: str, hid_touched: str | None, got: dict, intended: dict) -> None:
            """`intended` = memory model after the operation, before retention.  Decide what retention may remove."""
            extra = sorted(set(got) - set(intended))
            if extra:
                r.v("mem_unexpected_handler", after=opname, n=len(extra))
                return
            fields = sorted({f for k in got for f in diff_fields(got[k], intended[k])})
            if fields:
                r.v("mem_record_mismatch", after=opname, fields=fields)
                return
            gone = set(intended) - set(got)
            nonterm_gone = sorted(k for k in gone if intended[k]["status"] not in TERMINAL)
            if nonterm_gone:
                r.v("mem_nonterminal_evicted", after=opname, cap=cap, history="+".join(sorted(hist)) or "plain")
                return
            terms = [k for k in intended if intended[k]["status"] in TERMINAL]
            kept = [k for k in terms if k in got]
            want_n = len(terms) if cap is None else min(cap, len(terms))
            attrs = dict(
                after=opname,
                cap=cap,
                terminal=len(terms),
                kept=len(kept),
                evicted_self=bool(hid_touched in gone),
                history="+".join(sorted(hist)) or "plain",
            )
            if len(kept) < want_n:
                r.v("mem_terminal_overevicted", **attrs)
                return
            if len(kept) > want_n:
                r.v("mem_terminal_over_cap", **attrs)
                return
            n = len(terms) - want_n
            if n:
                ea = set(sorted(terms, key=lambda k: last_terminal_update[k])[:n])
                eb = set(sorted(terms, key=lambda k: became_terminal[k])[:n])
                # "most recently completed" = most recent terminal write: that is the moment the record's own completed_at is
                # stamped (update_handler_status re-stamps it on every terminal status update), so a handler whose terminal row
                # is written again is the newest completion, not the one that first became terminal
                if gone != ea:
                    r.v("mem_evicted_not_oldest", follows_first_transition=(gone == eb), **attrs)
                    return
                stats["evictions"] += len(gone)
                classes.add("evicted")
                if ea != eb:
                    classes.add("recency_readings_differ")
            # follow the store's (accepted) choice
            for k in gone:
                intended.pop(k)
                last_terminal_update.pop(k, None)
                became_terminal.pop(k, None)
            models["memory"] = intended

        def note_terminal(i: int, hid: str, before: dict | None, after: dict) -> None:
            """Maintain completion order for the memory model + history flags."""
            was_term = before is not None and before["status"] in TERMINAL
            if after["status"] in TERMINAL:
                last_terminal_update[hid] = i
                if not was_term:
                    became_terminal[hid] = i
                else:
                    flag("repeat_terminal_update")
            else:
                if was_term:
                    flag("terminal_to_running")
                last_terminal_update.pop(hid, None)
                became_terminal.pop(hid, None)

        try:
            for i, op in enumerate(case["ops"]):
                boot.VClock.t = float(i)
                now = _ts(i)
                before_v = len(r.violations)
                kind = op[0]
                if kind == "up":
                    _, hid, wf, status, run, idle, res, err = op
                    rec = {
                        "handler_id": hid,
                        "workflow_name": wf,
                        "status": status,
                        "run_id": None if run is None else f"{hid}-r{run}",
                        "error": "err" if err else None,
                        "result": res,
                        "started_at": now,
                        "updated_at": now,
                        "completed_at": now if status in TERMINAL else None,
                        "idle_since": now if idle else None,
                    }
                    for name in ("memory", "sqlite"):
                        try:
                            await stores[name].update(self._handler(rec))
                        except Exception as e:  # noqa: BLE001
                            r.v("store_raised", store=name, op="update", err=type(e).__name__)
                            continue
                        got = await contents(name)
                        if name == "sqlite":
                            models[name][hid] = dict(rec)
                            check_plain(name, got, models[name], "state_mismatch", after="up")
                        else:
                            intended = {k: v for k, v in models[name].items()}
                            note_terminal(i, hid, intended.get(hid), rec)
                            intended[hid] = dict(rec)
                            check_memory_after_update(i, "up", hid, got, intended)
                elif kind == "st":
                    _, hid, run, status, idle, res, err = op
                    run_id = f"{hid}-r{run}"
                    kw: dict = {}
                    if status is not None:
                        kw["status"] = status
                    if res is not None:
                        kw["result"] = self.StopEvent(result=res)
                    if err is not None:
                        kw["error"] = err
                    if idle == "clear":
                        kw["idle_since"] = None
                    elif idle == "set":
                        kw["idle_since"] = datetime.fromisoformat(now)
                    for name in ("memory", "sqlite"):
                        model = models[name]
                        target = [k for k, v in model.items() if v["run_id"] == run_id]
                        try:
                            await stores[name].update_handler_status(run_id, **kw)
                        except Exception as e:  # noqa: BLE001
                            r.v("store_raised", store=name, op="update_handler_status", err=type(e).__name__)
                            continue
                        got = await contents(name)
                        if not target:
                            classes.add("status_update_unknown_run")
                            check_plain(name, got, model, "state_mismatch", after="st_unknown_run")
                            continue
                        old = model[target[0]]
                        new = dict(old)
                        if status is not None:
                            new["status"] = status
                        new["updated_at"] = now
                        if status in TERMINAL:
                            new["completed_at"] = now
                        if res is not None:
                            new["result"] = res
                        if err is not None:
                            new["error"] = err
                        if idle == "clear":
                            new["idle_since"] = None
                        elif idle == "set":
                            new["idle_since"] = now
                        if name == "sqlite":
                            model[target[0]] = new
                            check_plain(name, got, model, "state_mismatch", after="st")
                        else:
                            intended = dict(model)
                            note_terminal(i, target[0], old, new)
                            intended[target[0]] = new
                            check_memory_after_update(i, "st", target[0], got, intended)
                elif kind == "del":
                    q = op[1]
                    nf = sum(v is not None for v in q)
                    for name in ("memory", "sqlite"):
                        model = models[name]
                        hit = [k for k, v in model.items() if _matches(v, q)]
                        try:
                            n = await stores[name].delete(self._hq(q))
                        except Exception as e:  # noqa: BLE001
                            r.v("store_raised", store=name, op="delete", err=type(e).__name__)
                            continue
                        for k in hit:
                            if name == "memory":
                                if model[k]["status"] in TERMINAL:
                                    flag("terminal_deleted")
                                last_terminal_update.pop(k, None)
                                became_terminal.pop(k, None)
                            del model[k]
                        got = await contents(name)
                        ok = check_plain(name, got, model, "delete_mismatch", filters=_qname(q), empty_list=any(v == [] for v in q[:4]))
                        if ok and n != len(hit):
                            r.v("delete_count_mismatch", store=name, filters=_qname(q), returned=n, removed=len(hit))
                        if hit:
                            classes.add("delete_removed_some")
                            if nf >= 2 and len(model) > 0:
                                stats["selective"] = True
                elif kind == "q":
                    self_q = op[1]
                    await self._check_query(r, stores, models, self_q, stats, classes)
                if len(r.violations) > before_v:
                    break  # later comparisons would only repeat the same divergence
            else:
                # every present/absent combination of the five filters, values from the case
                sw = case["sweep"]
                for mask in itertools.product((False, True), repeat=5):
                    q = [sw[j] if mask[j] else None for j in range(5)]
                    before_v = len(r.violations)
                    await self._check_query(r, stores, models, q, stats, classes, sweep=True)
                    if len(r.violations) > before_v:
                        break
        finally:
            conn = getattr(sql, "_persistent_conn", None)
            if conn is not None:
                conn.close()
        r.nontrivial = bool(stats["selective"] or stats["evictions"])
        classes.add("cap_none" if cap is None else f"cap_{cap}")
        if stats["selective"]:
            classes.add("selective_multi_filter")
        r.classes = sorted(classes)

    async def _check_query(self, r, stores, models, q, stats, classes, sweep=False):
        nf = sum(v is not None for v in q)
        empty = any(v == [] for v in q[:4])
        if empty:
            classes.add("empty_list_filter")
        for name in ("memory", "sqlite"):
            model = models[name]
            want = {k: v for k, v in model.items() if _matches(v, q)}
            try:
                res = await stores[name].query(self._hq(q))
            except Exception as e:  # noqa: BLE001
                r.v("store_raised", store=name, op="query", err=type(e).__name__)
                continue
            got_list = [self._rec(h) for h in res]
            got = {g["handler_id"]: g for g in got_list}
            if len(got) != len(got_list):
                r.v("duplicate_handler_rows", store=name)
            missing = sorted(set(want) - set(got))
            extra = sorted(set(got) - set(want))
            fields = sorted({f for k in set(got) & set(want) for f in FIELDS if got[k][f] != want[k][f]})
            if missing or extra or fields:
                r.v(
                    "query_result_mismatch",
                    store=name,
                    filters=_qname(q),
                    empty_list=empty,
                    missing=len(missing),
                    extra=len(extra),
                    fields=fields,
                )
            if nf >= 2 and 0 < len(want) < len(model):
                stats["selective"] = True
                if not sweep:
                    classes.add("generated_selective_query")


PROP = C24
