"""C22 — resource injection honours caching and cycle detection when steps resolve resources concurrently."""

from __future__ import annotations

import asyncio
import json
import typing

from hypothesis import strategies as st

from .. import boot, genwf
from ..boot import Runaway, VClock
from ..runner import CaseResult, Prop

CYCLE_MSG = "Circular resource dependency detected"


class Prod:
    """What a generated factory returns: remembers its factory, a serial number and the products it was built from."""

    __slots__ = ("fi", "serial", "deps")

    def __init__(self, fi, serial, deps):
        self.fi = fi
        self.serial = serial
        self.deps = deps  # {dep factory index: Prod}


# ---------------------------------------------------------------------------- static graph helpers


def _closure(res, roots):
    seen, stack = set(), list(roots)
    while stack:
        i = stack.pop()
        if i in seen:
            continue
        seen.add(i)
        stack.extend(res[i]["deps"])
    return seen


def _reaches_cycle(res, roots):
    """True iff a dependency cycle is reachable from `roots` (then resolving them can never succeed)."""
    WHITE, GREY, BLACK = 0, 1, 2
    col = {}

    def dfs(i):
        col[i] = GREY
        for j in res[i]["deps"]:
            c = col.get(j, WHITE)
            if c == GREY:
                return True
            if c == WHITE and dfs(j):
                return True
        col[i] = BLACK
        return False

    return any(col.get(i, WHITE) == WHITE and dfs(i) for i in roots)


def _nc_closure(res, roots):
    """Non-cached factories reachable from `roots` along paths whose nodes are all non-cached."""
    seen, stack = set(), [i for i in roots if not res[i]["c"]]
    while stack:
        i = stack.pop()
        if i in seen:
            continue
        seen.add(i)
        stack.extend(j for j in res[i]["deps"] if not res[j]["c"])
    return seen


class _ScopeProxy:
    """Delegating wrapper around whatever ResourceManager.resolution_scope() returns (sync or async context manager)."""

    def __init__(self, inner, log):
        self._inner, self._log = inner, log

    def __enter__(self):
        self._log.scope_req()
        try:
            return self._inner.__enter__()
        except BaseException:
            self._log.scope_exit()
            raise

    def __exit__(self, *a):
        try:
            return self._inner.__exit__(*a)
        finally:
            self._log.scope_exit()

    async def __aenter__(self):
        self._log.scope_req()
        try:
            return await self._inner.__aenter__()
        except BaseException:
            self._log.scope_exit()
            raise

    async def __aexit__(self, *a):
        try:
            return await self._inner.__aexit__(*a)
        finally:
            self._log.scope_exit()


class _Log:
    """Per-case observation: factory calls, injection phases (per worker task), step-body entries."""

    def __init__(self, rec):
        self.rec = rec
        self.calls: list[dict] = []
        self.phases: list[dict] = []
        self.invs: list[dict] = []
        self.gets: list[dict] = []
        self._tasks: list = []  # strong refs: ids stay unique for the whole case
        self._tid: dict = {}
        self._open: dict = {}  # tid -> [depth, phase]
        self.serial = 0
        self.name_to_fi: dict = {}

    def tid(self):
        t = asyncio.current_task()
        k = id(t)
        if k not in self._tid:
            self._tid[k] = len(self._tasks)
            self._tasks.append(t)
        return self._tid[k]

    def _enter(self):
        tid = self.tid()
        cur = self._open.get(tid)
        if cur is None:
            ph = {"tid": tid, "s_req": self.rec.nseq(), "t_req": VClock.t, "s_exit": None, "t_exit": None, "top": []}
            self.phases.append(ph)
            cur = self._open[tid] = [0, ph]
        cur[0] += 1
        return cur

    def _leave(self):
        tid = self.tid()
        cur = self._open.get(tid)
        if cur is None:
            return
        cur[0] -= 1
        if cur[0] <= 0:
            cur[1]["s_exit"], cur[1]["t_exit"] = self.rec.nseq(), VClock.t
            del self._open[tid]

    def scope_req(self):
        self._enter()

    def scope_exit(self):
        self._leave()

    def get_enter(self, name):
        cur = self._enter()
        g = {"tid": cur[1]["tid"], "f": self.name_to_fi.get(name), "name": name, "s0": self.rec.nseq(), "s1": None, "exc": None, "top": False}
        if not cur[1].get("_nested"):
            # a top-level request of this injection phase (the step's own parameter, or a direct manager.get call)
            g["top"] = True
            if g["f"] is not None:
                cur[1]["top"].append(g["f"])
        cur[1]["_nested"] = cur[1].get("_nested", 0) + 1
        self.gets.append(g)
        return g

    def get_exit(self, g, exc):
        tid = self.tid()
        cur = self._open.get(tid)
        if cur is not None:
            cur[1]["_nested"] = cur[1].get("_nested", 1) - 1
        g["s1"] = self.rec.nseq()
        if exc is not None:
            g["exc"] = f"{type(exc).__name__}: {exc}"[:300]
        self._leave()


class C22(Prop):
    id = "C22"
    rule = (
        "cases = one workflow instance whose steps declare Annotated[T, Resource(factory, cache=...)] parameters over a generated "
        "dependency graph of 1-6 factories (sync / async, cache True/False, factories depending on other resources: chains and diamonds, "
        "optionally a genuine cycle incl. self-dependency; async factories take a generated virtual time: no suspension, one bare yield, "
        "or 1-3 s), declared either through one shared descriptor per factory or a new Resource(...) at every use site; a start step and "
        "1-3 worker steps (num_workers 1..3) request generated overlapping subsets; every run fans 1-4 events out to all worker steps; "
        "1-3 runs of the same instance start at generated instants or one after the other. Factories, the manager entry points "
        "(get / resolution_scope, through a delegating ResourceManager subclass passed as resource_manager=) and step bodies log what "
        "was built and injected. Oracle: (a) a cached factory runs to completion at most once per instance (a call cancelled together with a failing run created nothing), exactly once if a step that ran needs it, and "
        "every injection of it (direct or as a dependency) is the identical object; (b) a non-cached factory yields one product per step "
        "invocation that needs it through non-cached dependencies only: never shared between two invocations, one object inside one "
        "invocation (diamond), never called twice inside one resolution, and no call whose product nobody received; (c) products are "
        "wired to the declared dependencies; (d) if a step that runs reaches a dependency cycle every run fails with the documented "
        "ValueError('Circular resource dependency detected ...'); otherwise no run ever fails with it, and every run ends with its result "
        "before the virtual horizon. Non-trivial = the injection phases of two step invocations interleaved (one was requested while "
        "the other was open) and both needed a common resource that had to be built then (non-cached, or cached and not yet available)."
    )
    assumptions = [
        "observation goes through a ResourceManager subclass given to Workflow(resource_manager=...) that only logs and delegates get() / resolution_scope(); factories and step bodies are harness code",
        "one worker task per step invocation (control loop): factory calls and the step body of one invocation are attributed to each other by asyncio.current_task()",
        "no retry policies: a failed injection fails the run with the factory/manager exception itself",
        "one cache flag per factory (the documented usage); a factory declared cached in one place and non-cached in another is not generated",
        "schedules are generated as virtual durations + tie-break choices on the deterministic virtual-time loop (SimRuntime only adds the tie-breaks)",
    ]
    budgets = {"quick": 2400, "thorough": 6000}
    wall = {"quick": 50.0, "thorough": 500.0}

    def setup(self):
        self.m = genwf.M()
        from workflows.resource import Resource, ResourceManager

        self.Resource = Resource

        class RecManager(ResourceManager):
            """Logs and delegates; no behaviour of its own."""

            def __init__(self, log):
                super().__init__()
                self._c22_log = log

            def resolution_scope(self, *a, **k):
                return _ScopeProxy(super().resolution_scope(*a, **k), self._c22_log)

            async def get(self, resource, *a, **k):
                g = self._c22_log.get_enter(resource.name)
                exc = None
                try:
                    return await super().get(resource, *a, **k)
                except BaseException as e:  # noqa: BLE001
                    exc = e
                    raise
                finally:
                    self._c22_log.get_exit(g, exc)

        self.RecManager = RecManager

    # ------------------------------------------------------------------ generator
    def strategy(self, tier):
        @st.composite
        def case(draw):
            nf = draw(st.integers(1, 6))
            res = []
            for i in range(nf):
                a = draw(st.sampled_from([True, True, False]))
                deps = draw(st.lists(st.integers(0, i - 1), unique=True, max_size=min(i, 3))) if i else []
                res.append(
                    {
                        "a": a,
                        "c": draw(st.booleans()),
                        "d": draw(st.sampled_from([None, 0, 0, 1, 1, 2, 3])) if a else None,
                        "deps": deps,
                    }
                )
            if draw(st.integers(0, 4)) == 0:
                for _ in range(draw(st.integers(1, 2))):
                    src = draw(st.integers(0, nf - 1))
                    anc = [j for j in range(nf) if src in _closure(res, [j])]  # includes src: self-dependency
                    dst = draw(st.sampled_from(anc)) if draw(st.integers(0, 3)) else draw(st.integers(0, nf - 1))
                    if dst not in res[src]["deps"]:
                        res[src]["deps"].insert(draw(st.integers(0, len(res[src]["deps"]))), dst)
            nsteps = draw(st.integers(2, 4))
            steps = []
            for s in range(nsteps):
                steps.append(
                    {
                        "w": 1 if s == 0 else draw(st.integers(1, 3)),
                        "res": draw(st.lists(st.integers(0, nf - 1), unique=True, min_size=0 if s == 0 else 1, max_size=min(nf, 3))),
                        "d": draw(st.sampled_from([0, 0, 1, 1, 2])),
                    }
                )
            runs = []
            for _ in range(draw(st.integers(1, 3))):
                runs.append({"at": draw(st.sampled_from([0, 0, 0, 1, 2, 4, "after"])), "n": draw(st.integers(1, 4))})
            return {
                "res": res,
                "desc": draw(st.sampled_from(["shared", "per_use"])),
                "steps": steps,
                "runs": runs,
                "ties": draw(st.lists(st.integers(0, 7), max_size=8)),
            }

        return case()

    # ------------------------------------------------------------------ building the workflow
    def _build(self, case, rec, log, counters):
        m = self.m
        ge, step, Context, Workflow = m["ge"], m["step"], m["Context"], m["Workflow"]
        Resource = self.Resource
        res = case["res"]
        Annotated = typing.Annotated

        def mk_fn(name, params, is_async, impl, head=()):
            allp = list(head) + list(params)
            body = "{" + ", ".join(f"{p!r}: {p}" for p in params) + "}"
            call = f"_impl({', '.join(list(head) + [body])})"
            src = f"{'async ' if is_async else ''}def {name}({', '.join(allp)}):\n    return {'await ' if is_async else ''}{call}\n"
            ns: dict = {"_impl": impl}
            exec(src, ns)  # noqa: S102 - harness-generated signature with named parameters, as a user would write it
            return ns[name]

        def record_call(fi, kw):
            log.serial += 1
            deps = {int(p[1:]): v for p, v in kw.items()}
            c = {"f": fi, "serial": log.serial, "tid": log.tid(), "s0": rec.nseq(), "t0": VClock.t, "s1": None, "t1": None,
                 "deps": {j: (v.serial if isinstance(v, Prod) else repr(v)[:40]) for j, v in deps.items()},
                 "dep_fi": {j: (v.fi if isinstance(v, Prod) else None) for j, v in deps.items()}}
            log.calls.append(c)
            return c, Prod(fi, log.serial, deps)

        factories = []
        for i, f in enumerate(res):
            params = [f"p{j}" for j in f["deps"]]
            if f["a"]:

                async def impl(kw, i=i, d=f["d"]):
                    c, p = record_call(i, kw)
                    if d is not None:
                        await asyncio.sleep(d)
                    c["s1"], c["t1"] = rec.nseq(), VClock.t
                    return p

            else:

                def impl(kw, i=i):
                    c, p = record_call(i, kw)
                    c["s1"], c["t1"] = rec.nseq(), VClock.t
                    return p

            fn = mk_fn(f"c22_f{i}", params, f["a"], impl)
            factories.append(fn)
            log.name_to_fi[fn.__qualname__] = i

        shared = [Resource(fn, cache=res[i]["c"]) for i, fn in enumerate(factories)]

        def desc(i):
            return shared[i] if case["desc"] == "shared" else Resource(factories[i], cache=res[i]["c"])

        for i, f in enumerate(res):
            factories[i].__annotations__ = {**{f"p{j}": Annotated[Prod, desc(j)] for j in f["deps"]}, "return": Prod}

        nsteps = len(case["steps"])
        nworkers = nsteps - 1

        async def body(self, ctx, ev, kw, si):
            sp = case["steps"][si]
            inv = {"step": si, "k": ev.get("k"), "j": ev.get("j"), "tid": log.tid(), "s_in": rec.nseq(), "t_in": VClock.t,
                   "inj": {int(p[1:]): v for p, v in kw.items()}}
            log.invs.append(inv)
            if sp["d"]:
                await asyncio.sleep(sp["d"])
            if si == 0:
                for j in range(ev.get("n")):
                    ctx.send_event(ge.E0(k=ev.get("k"), j=j, n=ev.get("n")))
                return None
            return ge.E4(k=ev.get("k"), n=ev.get("n"))

        async def done(self, ctx, ev):
            k = ev.get("k")
            counters[k] = counters.get(k, 0) + 1
            if counters[k] == ev.get("n") * nworkers:
                return ge.GStop(result=k)
            return None

        members = {}
        U, N = typing.Union, type(None)
        for si, sp in enumerate(case["steps"]):
            name = f"s{si}"

            async def impl(self, ctx, ev, kw, si=si):
                return await body(self, ctx, ev, kw, si)

            fn = mk_fn(name, [f"r{i}" for i in sp["res"]], True, impl, head=("self", "ctx", "ev"))
            fn.__qualname__ = f"C22Wf.{name}"
            fn.__annotations__ = {
                "ctx": Context,
                "ev": ge.GStart if si == 0 else ge.E0,
                **{f"r{i}": Annotated[Prod, desc(i)] for i in sp["res"]},
                "return": U[ge.E0, N] if si == 0 else ge.E4,
            }
            members[name] = step(num_workers=sp["w"])(fn)
        done.__name__ = "done"
        done.__qualname__ = "C22Wf.done"
        done.__annotations__ = {"ctx": Context, "ev": ge.E4, "return": U[ge.GStop, N]}
        members["done"] = step(num_workers=1)(done)
        return type("C22Wf", (Workflow,), members)

    # ------------------------------------------------------------------ run + oracle
    def run_case(self, case):
        case = json.loads(json.dumps(case))
        r = CaseResult()
        m = self.m
        ge = m["ge"]
        res, steps, runs = case["res"], case["steps"], case["runs"]
        rec = genwf.Rec({"ties": case["ties"], "ext": []})
        log = _Log(rec)
        counters: dict = {}
        outcomes: list = [None] * len(runs)
        sum_fd = sum((f["d"] or 0) for f in res) + 1
        total_inv = sum(1 + x["n"] * (len(steps) - 1) for x in runs)
        horizon = 50.0 + 4.0 * total_inv * (sum_fd + max(s["d"] for s in steps) + 1) + sum(x["at"] for x in runs if x["at"] != "after")

        async def main():
            genwf.CUR = rec
            runtime = genwf.make_runtime()
            cls = self._build(case, rec, log, counters)
            wf = cls(timeout=None, runtime=runtime, resource_manager=self.RecManager(log))
            handlers: list = [None] * len(runs)

            # runs are started in index order; an "after" run waits for every earlier run (bounded by the horizon)
            for k, spec in enumerate(runs):
                if spec["at"] == "after":
                    prev = [h._result_task for h in handlers[:k] if not h._result_task.done()]
                    if prev:
                        await asyncio.wait(prev, timeout=max(0.0, horizon - VClock.t))
                elif spec["at"] > VClock.t:
                    await asyncio.sleep(spec["at"] - VClock.t)
                handlers[k] = wf.run(start_event=ge.GStart(k=k, n=spec["n"]), run_id=f"run-{k}")
            pend = [h._result_task for h in handlers if h is not None and not h._result_task.done()]
            if pend:
                await asyncio.wait(pend, timeout=max(0.0, horizon - VClock.t))
            for k, h in enumerate(handlers):
                t = h._result_task
                if not t.done():
                    outcomes[k] = {"kind": "unfinished"}
                    try:
                        h._external_adapter.abort()
                    except Exception:  # noqa: BLE001
                        pass
                elif t.cancelled():
                    outcomes[k] = {"kind": "task_cancelled"}
                else:
                    e = t.exception()
                    if e is None:
                        outcomes[k] = {"kind": "result", "result": getattr(t.result(), "result", t.result())}
                    else:
                        outcomes[k] = {"kind": "failed", "type": type(e).__name__, "is_value_error": isinstance(e, ValueError), "msg": str(e)[:300]}
            await asyncio.gather(*[h._result_task for h in handlers], return_exceptions=True)

        try:
            boot.run_virtual(main)
        except Runaway as e:
            raise RuntimeError(f"inconclusive: {e}") from None
        finally:
            genwf.CUR = None

        self._oracle(case, log, outcomes, r)
        return r

    def _oracle(self, case, log, outcomes, r):
        res, steps, runs = case["res"], case["steps"], case["runs"]
        nf = len(res)
        cyc_steps = [si for si, s in enumerate(steps) if _reaches_cycle(res, s["res"])]
        cyclic = bool(cyc_steps)
        by_tid_inv = {inv["tid"]: inv for inv in log.invs}

        def interleaved(p, q):
            """q was requested while p was open."""
            return p["s_req"] < q["s_req"] and (p["s_exit"] is None or q["s_req"] < p["s_exit"])

        def concurrent(p):
            """some other task's injection phase interleaved with p."""
            return p is not None and any(q["tid"] != p["tid"] and (interleaved(p, q) or interleaved(q, p)) for q in log.phases)

        def other_open_at(tid, s):
            return any(p["tid"] != tid and p["s_req"] < s and (p["s_exit"] is None or s < p["s_exit"]) for p in log.phases)

        # ---- (d) outcomes
        failed_any = False
        for k, o in enumerate(outcomes):
            is_cycle_err = o["kind"] == "failed" and CYCLE_MSG in o.get("msg", "")
            if o["kind"] != "result":
                failed_any = True
            if cyclic:
                if not (is_cycle_err and o.get("is_value_error")):
                    r.v("cycle_not_reported", outcome=o["kind"], exc_type=o.get("type"), start_step_cyclic=0 in cyc_steps,
                        msg=(o.get("msg") or "")[:80])
            else:
                if is_cycle_err:
                    # the request that raised first (innermost: it is the first to end with the error)
                    g = min((g for g in log.gets if g["exc"] and CYCLE_MSG in g["exc"]), key=lambda g: g["s1"], default=None)
                    r.v("false_cycle_error", concurrent_resolutions=bool(g and other_open_at(g["tid"], g["s0"])),
                        chain=o["msg"].split(": ", 1)[-1][:80], multi_run=len(runs) > 1)
                elif o["kind"] == "failed":
                    r.v("unexpected_failure", exc_type=o.get("type"), msg=o.get("msg", "")[:120])
                elif o["kind"] != "result":
                    r.v("run_unfinished", outcome=o["kind"])
                elif o["result"] != k:
                    r.v("wrong_result", got=repr(o["result"])[:40], want=k)

        # ---- (c) wiring
        for c in log.calls:
            want = sorted(res[c["f"]]["deps"])
            if sorted(c["deps"]) != want or any(c["dep_fi"][j] != j for j in c["dep_fi"]):
                r.v("factory_got_wrong_dependencies", factory_deps=want, got={str(j): c["dep_fi"][j] for j in c["dep_fi"]})
                break
        for inv in log.invs:
            want = sorted(steps[inv["step"]]["res"])
            if sorted(inv["inj"]) != want or any(not isinstance(p, Prod) or p.fi != i for i, p in inv["inj"].items()):
                r.v("step_got_wrong_injection", want=want)
                break

        def walk(roots, through_cached):
            """All products reachable from `roots`; optionally not descending below cached products."""
            out, stack, seen = [], list(roots), set()
            while stack:
                p = stack.pop()
                if not isinstance(p, Prod) or id(p) in seen:
                    continue
                seen.add(id(p))
                out.append(p)
                if through_cached or not res[p.fi]["c"]:
                    stack.extend(p.deps.values())
            return out

        # ---- (a) cached: one call, identical object everywhere
        ncalls = [0] * nf
        for c in log.calls:
            ncalls[c["f"]] += 1
        needed = _closure(res, [i for inv in log.invs for i in steps[inv["step"]]["res"]]) if not cyclic else set()
        all_reach = walk([p for inv in log.invs for p in inv["inj"].values()], True)
        for i, f in enumerate(res):
            if not f["c"]:
                continue
            # calls that ran to completion; a call cancelled with its run (another step failed) created nothing
            cs = [c for c in log.calls if c["f"] == i and c["s1"] is not None]
            if len(cs) > 1:
                cs.sort(key=lambda c: c["s0"])
                ov = any(cs[x + 1]["s0"] < cs[x]["s1"] for x in range(len(cs) - 1))
                r.v("cached_factory_called_more_than_once", calls=len(cs), overlapping_calls=ov, is_async=f["a"])
            if not cyclic and not failed_any and i in needed and len(cs) == 0:
                r.v("cached_factory_never_called")
            serials = {p.serial for p in all_reach if p.fi == i}
            if len(serials) > 1:
                r.v("cached_injection_not_identical", distinct=len(serials), calls=len(cs))

        # ---- (b) non-cached
        fresh = []  # per invocation: {factory: set of serials} along non-cached-only paths
        for inv in log.invs:
            d: dict = {}
            for p in walk(list(inv["inj"].values()), False):
                if not res[p.fi]["c"]:
                    d.setdefault(p.fi, set()).add(p.serial)
            fresh.append(d)
        phase_of = {}
        for ph in log.phases:
            phase_of.setdefault(ph["tid"], ph)  # first phase of the task = the step's injection phase
        reported = set()
        for x, inv in enumerate(log.invs):
            want = _nc_closure(res, steps[inv["step"]]["res"])
            for i in want:
                n = len(fresh[x].get(i, ()))
                if n > 1 and ("multi", i) not in reported:
                    reported.add(("multi", i))
                    r.v("noncached_not_shared_within_invocation", distinct=n)
            for y in range(x):
                other = log.invs[y]
                for i in set(fresh[x]) & set(fresh[y]):
                    if fresh[x][i] & fresh[y][i] and ("share", i) not in reported:
                        reported.add(("share", i))
                        pa, pb = phase_of.get(other["tid"]), phase_of.get(inv["tid"])
                        ov = bool(pa and pb and (interleaved(pa, pb) or interleaved(pb, pa)))
                        r.v("noncached_shared_across_invocations", concurrent_resolutions=concurrent(pa) or concurrent(pb), these_two_overlap=ov,
                            same_step=other["step"] == inv["step"], same_run=other["k"] == inv["k"], is_async=res[i]["a"])
        # never twice inside one resolution (calls attributed by task)
        per_task: dict = {}
        for c in log.calls:
            if not res[c["f"]]["c"]:
                per_task.setdefault((c["tid"], c["f"]), []).append(c)
        for (tid, i), cs in per_task.items():
            if len(cs) > 1:
                ph = phase_of.get(tid)
                if ph is not None and all(ph["s_req"] < c["s0"] and (ph["s_exit"] is None or c["s0"] < ph["s_exit"]) for c in cs):
                    r.v("noncached_called_twice_in_one_resolution", calls=len(cs), other_resolution_open=other_open_at(tid, cs[1]["s0"]))
                    break
        # every call's product was received by somebody
        if not failed_any:
            got = {p.serial for p in all_reach}
            for c in log.calls:
                if c["serial"] not in got:
                    r.v("factory_call_product_dropped", cached=res[c["f"]]["c"], other_resolution_open=other_open_at(c["tid"], c["s0"]))
                    break
            # every invocation that ran was one the case asked for
            want_inv = sum(1 + x["n"] * (len(steps) - 1) for x in runs)
            if len(log.invs) != want_inv:
                r.v("invocation_count", got=len(log.invs), want=want_inv)

        # ---- non-triviality and classes
        first_done = {}
        for c in log.calls:
            if res[c["f"]]["c"] and c["s1"] is not None:
                first_done[c["f"]] = min(first_done.get(c["f"], 1 << 60), c["s1"])
        nontriv = ov_cached = ov_nc = False
        phs = [p for p in log.phases if p["top"]]
        for a in range(len(phs)):
            for b in range(len(phs)):
                p, q = phs[a], phs[b]
                if p["tid"] == q["tid"] or not interleaved(p, q):
                    continue
                common = _closure(res, p["top"]) & _closure(res, q["top"])
                for i in common:
                    if not res[i]["c"]:
                        ov_nc = True
                    elif first_done.get(i, 1 << 60) > q["s_req"]:
                        ov_cached = True
        nontriv = ov_cached or ov_nc
        r.nontrivial = nontriv
        if ov_cached:
            r.classes.append("overlap_cached_being_built")
        if ov_nc:
            r.classes.append("overlap_noncached")
        if any(concurrent(p) for p in log.phases):
            r.classes.append("interleaved_injection_phases")
        if cyclic:
            r.classes.append("cycle_reached")
        elif _reaches_cycle(res, range(nf)):
            r.classes.append("cycle_unreachable")
        if len(runs) > 1:
            r.classes.append("multi_run")
            if any(x["at"] != "after" for x in runs[1:]):
                r.classes.append("concurrent_runs")
        if any(len([1 for g in res if i in g["deps"]]) > 1 for i in range(nf)):
            r.classes.append("shared_dependency")
        if case["desc"] == "per_use":
            r.classes.append("descriptor_per_use")
        if failed_any:
            r.classes.append("run_failed")
        if any(not f["c"] for f in res):
            r.classes.append("has_noncached")
        r.sample = {"case": case, "factory_calls": ncalls, "invocations": len(log.invs), "outcomes": [o["kind"] for o in outcomes]}


PROP = C22
