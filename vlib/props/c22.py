"""C22 — resource injection honours caching and cycle detection when steps resolve resources concurrently."""

from __future__ import annotations

import asyncio
import contextvars
import json
import typing

from hypothesis import strategies as st

from .. import boot, genwf
from ..boot import Runaway, VClock
from ..runner import CaseResult, Prop

CYCLE_MSG = "Circular resource dependency detected"
FAULT_TAG = "c22-fault:"

# which run (index) the current task tree belongs to: set by the harness right before wf.run(), inherited by every task of the run
RUN_K: contextvars.ContextVar = contextvars.ContextVar("c22_run", default=None)


class Prod:
    """What a generated factory returns: remembers its factory, a serial number and the products it was built from."""

    __slots__ = ("fi", "serial", "deps")

    def __init__(self, fi, serial, deps):
        self.fi = fi
        self.serial = serial
        self.deps = deps  # {dep factory index: Prod}


# ---------------------------------------------------------------------------- static graph helpers


def _closure(res, roots):
    seen, stack = set(), list(roots)
    while stack:
        i = stack.pop()
        if i in seen:
            continue
        seen.add(i)
        stack.extend(res[i]["deps"])
    return seen


def _reaches_cycle(res, roots):
    """True iff a dependency cycle is reachable from `roots` (then resolving them can never succeed)."""
    WHITE, GREY, BLACK = 0, 1, 2
    col = {}

    def dfs(i):
        col[i] = GREY
        for j in res[i]["deps"]:
            c = col.get(j, WHITE)
            if c == GREY:
                return True
            if c == WHITE and dfs(j):
                return True
        col[i] = BLACK
        return False

    return any(col.get(i, WHITE) == WHITE and dfs(i) for i in roots)


def _flags(case):
    """Effective cache flag of every use site: ({(step, factory): flag}, {(factory, dependency): flag}).

    `res[i]["c"]` is the factory's base flag; `steps[s]["flip"]` / `res[i]["flip"]` list the step parameters / dependency
    edges declared with the opposite flag.  Domain: inside ONE step's dependency closure a factory is used under one flag only
    (the property does not say what mixing both declarations inside one resolution means); flips that would break this are
    dropped here, deterministically, so shrunk or hand-written cases stay in the domain.  Across steps flags may differ.
    """
    res, steps = case["res"], case["steps"]
    sflip = {(s, i) for s, sp in enumerate(steps) for i in sp.get("flip", []) if i in sp["res"]}
    eflip = {(i, j) for i, f in enumerate(res) for j in f.get("flip", []) if j in f["deps"]}
    while True:
        sf = {(s, i): res[i]["c"] != ((s, i) in sflip) for s, sp in enumerate(steps) for i in sp["res"]}
        ef = {(i, j): res[j]["c"] != ((i, j) in eflip) for i, f in enumerate(res) for j in f["deps"]}
        bad = None
        for s, sp in enumerate(steps):
            reach = _closure(res, sp["res"])
            uses: dict = {}
            for i in sp["res"]:
                uses.setdefault(i, set()).add(sf[(s, i)])
            for i in sorted(reach):
                for j in res[i]["deps"]:
                    uses.setdefault(j, set()).add(ef[(i, j)])
            conflict = sorted(i for i, fl in uses.items() if len(fl) > 1)
            if conflict:
                bad = (s, conflict[0], reach)
                break
        if bad is None:
            return sf, ef
        s, i, reach = bad
        sflip.discard((s, i))
        eflip -= {(k, i) for k in reach}


def _use_closure(res, ef, root_uses):
    """{factory: set of flags it is used under} over everything reachable from the (factory, flag) root uses."""
    uses: dict = {}
    for i, fl in root_uses:
        uses.setdefault(i, set()).add(fl)
    for i in sorted(_closure(res, [i for i, _ in root_uses])):
        for j in res[i]["deps"]:
            uses.setdefault(j, set()).add(ef[(i, j)])
    return uses


def _fresh_closure(res, ef, root_uses):
    """Factories reached from the root uses along use sites that are all non-cached."""
    seen, stack = set(), [i for i, fl in root_uses if not fl]
    while stack:
        i = stack.pop()
        if i in seen:
            continue
        seen.add(i)
        stack.extend(j for j in res[i]["deps"] if not ef[(i, j)])
    return seen


class _ScopeProxy:
    """Delegating wrapper around whatever ResourceManager.resolution_scope() returns (sync or async context manager)."""

    def __init__(self, inner, log):
        self._inner, self._log = inner, log

    def __enter__(self):
        self._log.scope_req()
        try:
            return self._inner.__enter__()
        except BaseException:
            self._log.scope_exit()
            raise

    def __exit__(self, *a):
        try:
            return self._inner.__exit__(*a)
        finally:
            self._log.scope_exit()

    async def __aenter__(self):
        self._log.scope_req()
        try:
            return await self._inner.__aenter__()
        except BaseException:
            self._log.scope_exit()
            raise

    async def __aexit__(self, *a):
        try:
            return await self._inner.__aexit__(*a)
        finally:
            self._log.scope_exit()


class _Log:
    """Per-case observation: factory calls, injection phases (per worker task), step-body entries."""

    def __init__(self, rec):
        self.rec = rec
        self.calls: list[dict] = []
        self.phases: list[dict] = []
        self.invs: list[dict] = []
        self.gets: list[dict] = []
        self._tasks: list = []  # strong refs: ids stay unique for the whole case
        self._tid: dict = {}
        self._open: dict = {}  # tid -> [depth, phase]
        self.serial = 0
        self.ncall: dict = {}
        self.name_to_fi: dict = {}

    def tid(self):
        t = asyncio.current_task()
        k = id(t)
        if k not in self._tid:
            self._tid[k] = len(self._tasks)
            self._tasks.append(t)
        return self._tid[k]

    def _enter(self):
        tid = self.tid()
        cur = self._open.get(tid)
        if cur is None:
            ph = {"tid": tid, "s_req": self.rec.nseq(), "t_req": VClock.t, "s_exit": None, "t_exit": None, "top": [], "run": RUN_K.get()}
            self.phases.append(ph)
            cur = self._open[tid] = [0, ph]
        cur[0] += 1
        return cur

    def _leave(self):
        tid = self.tid()
        cur = self._open.get(tid)
        if cur is None:
            return
        cur[0] -= 1
        if cur[0] <= 0:
            cur[1]["s_exit"], cur[1]["t_exit"] = self.rec.nseq(), VClock.t
            del self._open[tid]

    def scope_req(self):
        self._enter()

    def scope_exit(self):
        self._leave()

    def get_enter(self, name, cache=None):
        cur = self._enter()
        g = {"tid": cur[1]["tid"], "f": self.name_to_fi.get(name), "name": name, "s0": self.rec.nseq(), "s1": None, "exc": None, "top": False}
        if not cur[1].get("_nested"):
            # a top-level request of this injection phase (the step's own parameter, or a direct manager.get call)
            g["top"] = True
            if g["f"] is not None:
                cur[1]["top"].append((g["f"], bool(cache)))
        cur[1]["_nested"] = cur[1].get("_nested", 0) + 1
        self.gets.append(g)
        return g

    def get_exit(self, g, exc):
        tid = self.tid()
        cur = self._open.get(tid)
        if cur is not None:
            cur[1]["_nested"] = cur[1].get("_nested", 1) - 1
        g["s1"] = self.rec.nseq()
        if exc is not None:
            g["exc"] = f"{type(exc).__name__}: {exc}"[:300]
        self._leave()


class C22(Prop):
    id = "C22"
    rule = (
        "cases = one workflow instance whose steps declare Annotated[T, Resource(factory, cache=...)] parameters over a generated "
        "dependency graph of 1-6 factories (sync / async, cache True/False, factories depending on other resources: chains and diamonds, "
        "optionally a genuine cycle incl. self-dependency; async factories take a generated virtual time: no suspension, one bare yield, "
        "or 1-3 s), declared either through shared descriptors or a new Resource(...) at every use site; in half of the cases the cache flag is chosen per use site (step "
        "parameter or dependency edge), so one factory function is declared both Resource(f) and Resource(f, cache=False) in different steps; a start step and "
        "1-3 worker steps (num_workers 1..3) request generated overlapping subsets; every run fans 1-4 events out to all worker steps; "
        "1-3 runs of the same instance start at generated instants or one after the other; in a third of the cases the k-th call (k 1-4) of one or two "
        "factories raises (a transient fault: that step invocation and its run fail, other workers of the run are cancelled mid-resolution, later runs go on, "
        "and one more run follows after everything else has ended). Factories, the manager entry points "
        "(get / resolution_scope, through a delegating ResourceManager subclass passed as resource_manager=) and step bodies log what "
        "was built and injected. Oracle: (a) all CACHED uses of a factory (direct or as a dependency, every step, every run) receive one identical object, made by a call "
        "that served a cached use; a factory that is only ever declared cached runs to completion at most once per instance (a call cancelled together with a failing "
        "run created nothing); every needed factory is called; (b) every NON-CACHED use reached from a step's parameters through non-cached use sites gets a product "
        "made in that step invocation's own worker task: never an object another invocation received, never the object of the cached declaration (and the cached "
        "declaration never receives a non-cached product, i.e. the cached slot is not overwritten), one object inside one invocation (diamond), never "
        "two calls inside one resolution, and no call whose product nobody received; (c) products are "
        "wired to the declared dependencies; a failed or cancelled resolution leaves nothing behind except completed cached objects: nothing it made is ever "
        "handed to a non-cached use of a later invocation (attribute after_failed_resolution), and a cached factory whose call raised is simply called again; "
        "(d) a run in which a factory raised fails with exactly that exception; otherwise, if a step that runs reaches a dependency cycle the run fails with the documented "
        "ValueError('Circular resource dependency detected ...'); otherwise no run ever fails with it, and every run ends with its result and the full number "
        "of step invocations before the virtual horizon. Non-trivial = the injection phases of two step invocations interleaved (one was requested while "
        "the other was open) and both needed a common resource that had to be built then (non-cached, or cached and not yet available)."
    )
    assumptions = [
        "observation goes through a ResourceManager subclass given to Workflow(resource_manager=...) that only logs and delegates get() / resolution_scope(); factories and step bodies are harness code",
        "one worker task per step invocation (control loop): factory calls and the step body of one invocation are attributed to each other by asyncio.current_task()",
        "no retry policies: a failed injection fails the run with the factory/manager exception itself",
        "factory calls and injection phases are attributed to their run by a harness context variable set right before wf.run() (tasks inherit their creator's context); the check stops with a harness error if that disagrees with the event payload seen in a step body",
        "a factory may be declared cached in one step and non-cached in another (as in the package's test_non_caching_behavior), but inside ONE step's dependency closure each factory is used under one flag only: the property does not define what mixing both declarations inside a single resolution means; out-of-domain flips are dropped deterministically (_flags)",
        "schedules are generated as virtual durations + tie-break choices on the deterministic virtual-time loop (SimRuntime only adds the tie-breaks)",
    ]
    budgets = {"quick": 2400, "thorough": 6000}
    wall = {"quick": 50.0, "thorough": 500.0}

    def setup(self):
        self.m = genwf.M()
        from workflows.resource import Resource, ResourceManager

        self.Resource = Resource

        class RecManager(ResourceManager):
            """Logs and delegates; no behaviour of its own."""

            def __init__(self, log):
                super().__init__()
                self._c22_log = log

            def resolution_scope(self, *a, **k):
                return _ScopeProxy(super().resolution_scope(*a, **k), self._c22_log)

            async def get(self, resource, *a, **k):
                g = self._c22_log.get_enter(resource.name, getattr(resource, "cache", None))
                exc = None
                try:
                    return await super().get(resource, *a, **k)
                except BaseException as e:  # noqa: BLE001
                    exc = e
                    raise
                finally:
                    self._c22_log.get_exit(g, exc)

        self.RecManager = RecManager

    # ------------------------------------------------------------------ generator
    def strategy(self, tier):
        @st.composite
        def case(draw):
            nf = draw(st.integers(1, 6))
            res = []
            for i in range(nf):
                a = draw(st.sampled_from([True, True, False]))
                deps = draw(st.lists(st.integers(0, i - 1), unique=True, max_size=min(i, 3))) if i else []
                res.append(
                    {
                        "a": a,
                        "c": draw(st.booleans()),
                        "d": draw(st.sampled_from([None, 0, 0, 1, 1, 2, 3])) if a else None,
                        "deps": deps,
                    }
                )
            if draw(st.integers(0, 4)) == 0:
                for _ in range(draw(st.integers(1, 2))):
                    src = draw(st.integers(0, nf - 1))
                    anc = [j for j in range(nf) if src in _closure(res, [j])]  # includes src: self-dependency
                    dst = draw(st.sampled_from(anc)) if draw(st.integers(0, 3)) else draw(st.integers(0, nf - 1))
                    if dst not in res[src]["deps"]:
                        res[src]["deps"].insert(draw(st.integers(0, len(res[src]["deps"]))), dst)
            nsteps = draw(st.integers(2, 4))
            steps = []
            for s in range(nsteps):
                steps.append(
                    {
                        "w": 1 if s == 0 else draw(st.integers(1, 3)),
                        "res": draw(st.lists(st.integers(0, nf - 1), unique=True, min_size=0 if s == 0 else 1, max_size=min(nf, 3))),
                        "d": draw(st.sampled_from([0, 0, 1, 1, 2])),
                    }
                )
            runs = []
            for _ in range(draw(st.integers(1, 3))):
                runs.append({"at": draw(st.sampled_from([0, 0, 0, 1, 2, 4, "after"])), "n": draw(st.integers(1, 4))})
            if draw(st.integers(0, 2)) == 0:
                # factory faults: the k-th call of a factory raises (a transient failure); that step invocation and its run fail,
                # later invocations / runs of the same instance go on
                for _ in range(draw(st.integers(1, 2))):
                    f = res[draw(st.integers(0, nf - 1))]
                    f["fail"] = sorted(set((f.get("fail") or []) + [draw(st.sampled_from([1, 1, 2, 2, 3, 4]))]))
                if len(runs) == 1 or draw(st.integers(0, 1)):
                    # something must come after the failure: one more run, started once everything before it has ended
                    runs.append({"at": "after", "n": draw(st.integers(1, 3))})
            if draw(st.integers(0, 1)):
                # one factory declared both ways: some step parameters / dependency edges use the opposite cache flag
                for sp in steps:
                    sp["flip"] = [i for i in sp["res"] if draw(st.integers(0, 2)) == 0]
                for f in res:
                    f["flip"] = [j for j in f["deps"] if draw(st.integers(0, 5)) == 0]
            out = {
                "res": res,
                "desc": draw(st.sampled_from(["shared", "per_use"])),
                "steps": steps,
                "runs": runs,
                "ties": draw(st.lists(st.integers(0, 7), max_size=8)),
            }
            # keep only the flips that are inside the domain (one flag per factory inside one step's closure)
            sf, ef = _flags(out)
            for s, sp in enumerate(steps):
                if "flip" in sp:
                    sp["flip"] = [i for i in sp["flip"] if sf[(s, i)] != res[i]["c"]]
            for i, f in enumerate(res):
                if "flip" in f:
                    f["flip"] = [j for j in f["flip"] if ef[(i, j)] != res[j]["c"]]
            return out

        return case()

    # ------------------------------------------------------------------ building the workflow
    def _build(self, case, rec, log, counters):
        m = self.m
        ge, step, Context, Workflow = m["ge"], m["step"], m["Context"], m["Workflow"]
        Resource = self.Resource
        res = case["res"]
        Annotated = typing.Annotated

        def mk_fn(name, params, is_async, impl, head=()):
            allp = list(head) + list(params)
            body = "{" + ", ".join(f"{p!r}: {p}" for p in params) + "}"
            call = f"_impl({', '.join(list(head) + [body])})"
            src = f"{'async ' if is_async else ''}def {name}({', '.join(allp)}):\n    return {'await ' if is_async else ''}{call}\n"
            ns: dict = {"_impl": impl}
            exec(src, ns)  # noqa: S102 - harness-generated signature with named parameters, as a user would write it
            return ns[name]

        def record_call(fi, kw):
            log.serial += 1
            log.ncall[fi] = log.ncall.get(fi, 0) + 1
            deps = {int(p[1:]): v for p, v in kw.items()}
            c = {"f": fi, "serial": log.serial, "n": log.ncall[fi], "run": RUN_K.get(), "raised": False,
                 "tid": log.tid(), "s0": rec.nseq(), "t0": VClock.t, "s1": None, "t1": None,
                 "deps": {j: (v.serial if isinstance(v, Prod) else repr(v)[:40]) for j, v in deps.items()},
                 "dep_fi": {j: (v.fi if isinstance(v, Prod) else None) for j, v in deps.items()}}
            log.calls.append(c)
            return c, Prod(fi, log.serial, deps)

        factories = []
        for i, f in enumerate(res):
            params = [f"p{j}" for j in f["deps"]]
            if f["a"]:

                async def impl(kw, i=i, d=f["d"], fail=tuple(f.get("fail") or ())):
                    c, p = record_call(i, kw)
                    if d is not None:
                        await asyncio.sleep(d)
                    if c["n"] in fail:
                        c["raised"] = True
                        raise ge.GenError(f"{FAULT_TAG}{c['serial']}")
                    c["s1"], c["t1"] = rec.nseq(), VClock.t
                    return p

            else:

                def impl(kw, i=i, fail=tuple(f.get("fail") or ())):
                    c, p = record_call(i, kw)
                    if c["n"] in fail:
                        c["raised"] = True
                        raise ge.GenError(f"{FAULT_TAG}{c['serial']}")
                    c["s1"], c["t1"] = rec.nseq(), VClock.t
                    return p

            fn = mk_fn(f"c22_f{i}", params, f["a"], impl)
            factories.append(fn)
            log.name_to_fi[fn.__qualname__] = i

        sf, ef = _flags(case)
        shared = {(i, fl): Resource(fn, cache=fl) for i, fn in enumerate(factories) for fl in (True, False)}

        def desc(i, fl):
            return shared[(i, fl)] if case["desc"] == "shared" else Resource(factories[i], cache=fl)

        for i, f in enumerate(res):
            factories[i].__annotations__ = {**{f"p{j}": Annotated[Prod, desc(j, ef[(i, j)])] for j in f["deps"]}, "return": Prod}

        nsteps = len(case["steps"])
        nworkers = nsteps - 1

        async def body(self, ctx, ev, kw, si):
            sp = case["steps"][si]
            inv = {"step": si, "k": ev.get("k"), "j": ev.get("j"), "run_ctx": RUN_K.get(), "tid": log.tid(), "s_in": rec.nseq(), "t_in": VClock.t,
                   "inj": {int(p[1:]): v for p, v in kw.items()}}
            log.invs.append(inv)
            if sp["d"]:
                await asyncio.sleep(sp["d"])
            if si == 0:
                for j in range(ev.get("n")):
                    ctx.send_event(ge.E0(k=ev.get("k"), j=j, n=ev.get("n")))
                return None
            return ge.E4(k=ev.get("k"), n=ev.get("n"))

        async def done(self, ctx, ev):
            k = ev.get("k")
            counters[k] = counters.get(k, 0) + 1
            if counters[k] == ev.get("n") * nworkers:
                return ge.GStop(result=k)
            return None

        members = {}
        U, N = typing.Union, type(None)
        for si, sp in enumerate(case["steps"]):
            name = f"s{si}"

            async def impl(self, ctx, ev, kw, si=si):
                return await body(self, ctx, ev, kw, si)

            fn = mk_fn(name, [f"r{i}" for i in sp["res"]], True, impl, head=("self", "ctx", "ev"))
            fn.__qualname__ = f"C22Wf.{name}"
            fn.__annotations__ = {
                "ctx": Context,
                "ev": ge.GStart if si == 0 else ge.E0,
                **{f"r{i}": Annotated[Prod, desc(i, sf[(si, i)])] for i in sp["res"]},
                "return": U[ge.E0, N] if si == 0 else ge.E4,
            }
            members[name] = step(num_workers=sp["w"])(fn)
        done.__name__ = "done"
        done.__qualname__ = "C22Wf.done"
        done.__annotations__ = {"ctx": Context, "ev": ge.E4, "return": U[ge.GStop, N]}
        members["done"] = step(num_workers=1)(done)
        return type("C22Wf", (Workflow,), members)

    # ------------------------------------------------------------------ run + oracle
    def run_case(self, case):
        case = json.loads(json.dumps(case))
        r = CaseResult()
        m = self.m
        ge = m["ge"]
        res, steps, runs = case["res"], case["steps"], case["runs"]
        rec = genwf.Rec({"ties": case["ties"], "ext": []})
        log = _Log(rec)
        counters: dict = {}
        outcomes: list = [None] * len(runs)
        sum_fd = sum((f["d"] or 0) for f in res) + 1
        total_inv = sum(1 + x["n"] * (len(steps) - 1) for x in runs)
        horizon = 50.0 + 4.0 * total_inv * (sum_fd + max(s["d"] for s in steps) + 1) + sum(x["at"] for x in runs if x["at"] != "after")

        async def main():
            genwf.CUR = rec
            runtime = genwf.make_runtime()
            cls = self._build(case, rec, log, counters)
            wf = cls(timeout=None, runtime=runtime, resource_manager=self.RecManager(log))
            handlers: list = [None] * len(runs)

            # runs are started in index order; an "after" run waits for every earlier run (bounded by the horizon)
            for k, spec in enumerate(runs):
                if spec["at"] == "after":
                    prev = [h._result_task for h in handlers[:k] if not h._result_task.done()]
                    if prev:
                        await asyncio.wait(prev, timeout=max(0.0, horizon - VClock.t))
                elif spec["at"] > VClock.t:
                    await asyncio.sleep(spec["at"] - VClock.t)
                RUN_K.set(k)  # inherited by the run's task tree (tasks copy the context of their creator)
                handlers[k] = wf.run(start_event=ge.GStart(k=k, n=spec["n"]), run_id=f"run-{k}")
                RUN_K.set(None)
            pend = [h._result_task for h in handlers if h is not None and not h._result_task.done()]
            if pend:
                await asyncio.wait(pend, timeout=max(0.0, horizon - VClock.t))
            for k, h in enumerate(handlers):
                t = h._result_task
                if not t.done():
                    outcomes[k] = {"kind": "unfinished"}
                    try:
                        h._external_adapter.abort()
                    except Exception:  # noqa: BLE001
                        pass
                elif t.cancelled():
                    outcomes[k] = {"kind": "task_cancelled"}
                else:
                    e = t.exception()
                    if e is None:
                        outcomes[k] = {"kind": "result", "result": getattr(t.result(), "result", t.result())}
                    else:
                        outcomes[k] = {"kind": "failed", "type": type(e).__name__, "is_value_error": isinstance(e, ValueError), "msg": str(e)[:300]}
            await asyncio.gather(*[h._result_task for h in handlers], return_exceptions=True)

        try:
            boot.run_virtual(main)
        except Runaway as e:
            raise RuntimeError(f"inconclusive: {e}") from None
        finally:
            genwf.CUR = None

        self._oracle(case, log, outcomes, r)
        return r

    def _oracle(self, case, log, outcomes, r):
        res, steps, runs = case["res"], case["steps"], case["runs"]
        nf = len(res)
        cyc_steps = [si for si, s in enumerate(steps) if _reaches_cycle(res, s["res"])]
        cyclic = bool(cyc_steps)
        by_tid_inv = {inv["tid"]: inv for inv in log.invs}

        def interleaved(p, q):
            """q was requested while p was open."""
            return p["s_req"] < q["s_req"] and (p["s_exit"] is None or q["s_req"] < p["s_exit"])

        def concurrent(p):
            """some other task's injection phase interleaved with p."""
            return p is not None and any(q["tid"] != p["tid"] and (interleaved(p, q) or interleaved(q, p)) for q in log.phases)

        def other_open_at(tid, s):
            return any(p["tid"] != tid and p["s_req"] < s and (p["s_exit"] is None or s < p["s_exit"]) for p in log.phases)

        # ---- (d) outcomes
        if any(inv["run_ctx"] != inv["k"] for inv in log.invs):
            raise RuntimeError("harness: run attribution by context variable does not match the event payload")
        raised = [c for c in log.calls if c["raised"]]
        failed_any = False
        for k, o in enumerate(outcomes):
            is_cycle_err = o["kind"] == "failed" and CYCLE_MSG in o.get("msg", "")
            own_faults = {f"{FAULT_TAG}{c['serial']}" for c in raised if c["run"] == k}
            is_own_fault = o["kind"] == "failed" and o.get("type") == "GenError" and o.get("msg") in own_faults
            if o["kind"] != "result":
                failed_any = True
            if is_own_fault:
                continue  # a factory of this run raised: the run fails with exactly that exception
            if cyclic:
                if not (is_cycle_err and o.get("is_value_error")):
                    r.v("cycle_not_reported", outcome=o["kind"], exc_type=o.get("type"), start_step_cyclic=0 in cyc_steps,
                        factory_raised_in_run=bool(own_faults), msg=(o.get("msg") or "")[:80])
            else:
                if is_cycle_err:
                    # the request that raised first (innermost: it is the first to end with the error)
                    g = min((g for g in log.gets if g["exc"] and CYCLE_MSG in g["exc"]), key=lambda g: g["s1"], default=None)
                    r.v("false_cycle_error", concurrent_resolutions=bool(g and other_open_at(g["tid"], g["s0"])),
                        chain=o["msg"].split(": ", 1)[-1][:80], multi_run=len(runs) > 1)
                elif o["kind"] == "failed":
                    r.v("unexpected_failure", exc_type=o.get("type"), msg=o.get("msg", "")[:120], fault_of_another_run=o.get("msg", "").startswith(FAULT_TAG))
                elif o["kind"] != "result":
                    r.v("run_unfinished", outcome=o["kind"], factory_raised_in_run=bool(own_faults))
                elif own_faults:
                    r.v("factory_exception_not_reported", outcome="result")
                elif o["result"] != k:
                    r.v("wrong_result", got=repr(o["result"])[:40], want=k)
                else:
                    want_inv = 1 + runs[k]["n"] * (len(steps) - 1)
                    got_inv = len([1 for inv in log.invs if inv["k"] == k])
                    if got_inv != want_inv:
                        r.v("invocation_count", got=got_inv, want=want_inv)

        # ---- (c) wiring
        for c in log.calls:
            want = sorted(res[c["f"]]["deps"])
            if sorted(c["deps"]) != want or any(c["dep_fi"][j] != j for j in c["dep_fi"]):
                r.v("factory_got_wrong_dependencies", factory_deps=want, got={str(j): c["dep_fi"][j] for j in c["dep_fi"]})
                break
        for inv in log.invs:
            want = sorted(steps[inv["step"]]["res"])
            if sorted(inv["inj"]) != want or any(not isinstance(p, Prod) or p.fi != i for i, p in inv["inj"].items()):
                r.v("step_got_wrong_injection", want=want)
                break

        sf, ef = _flags(case)
        step_uses = [[(i, sf[(si, i)]) for i in sp["res"]] for si, sp in enumerate(steps)]
        used_nc = {i for si in range(len(steps)) for i, fl in _use_closure(res, ef, step_uses[si]).items() if False in fl}
        used_c = {i for si in range(len(steps)) for i, fl in _use_closure(res, ef, step_uses[si]).items() if True in fl}
        phase_of = {}
        for ph in log.phases:
            phase_of.setdefault(ph["tid"], ph)  # first phase of the task = the step's injection phase
        call_of = {c["serial"]: c for c in log.calls}

        # ---- every use occurrence in what the invocations received: (factory, use flag, product); "fresh" = reached from the
        # step's own parameters through non-cached use sites only
        all_serials: set = set()
        c_occ: dict = {}  # factory -> {serial: index of the first invocation that saw it at a CACHED use site}
        nc_occ: dict = {}  # factory -> {serial: index of the first invocation that saw it at a NON-CACHED use site}
        fresh = []  # per invocation: {factory: set of serials}
        for x, inv in enumerate(log.invs):
            fr: dict = {}
            seen = set()
            stack = [(sf[(inv["step"], i)], p, True) for i, p in inv["inj"].items() if isinstance(p, Prod) and (inv["step"], i) in sf]
            while stack:
                fl, p, path_nc = stack.pop()
                if not isinstance(p, Prod):
                    continue
                key = (id(p), fl, path_nc)
                if key in seen:
                    continue
                seen.add(key)
                all_serials.add(p.serial)
                (c_occ if fl else nc_occ).setdefault(p.fi, {}).setdefault(p.serial, x)
                is_fresh = path_nc and not fl
                if is_fresh:
                    fr.setdefault(p.fi, set()).add(p.serial)
                for j, q in p.deps.items():
                    stack.append((ef.get((p.fi, j), res[j]["c"] if j < nf else True), q, is_fresh))
            fresh.append(fr)

        reported = set()

        def shared_violation(i, tid_a, tid_b, **extra):
            """a product of factory i made for a non-cached use in worker task tid_a also reached the invocation of task tid_b."""
            if ("share", i) in reported:
                return
            reported.add(("share", i))
            ia, ib = by_tid_inv.get(tid_a), by_tid_inv.get(tid_b)
            pa, pb = phase_of.get(tid_a), phase_of.get(tid_b)
            ov = bool(pa and pb and (interleaved(pa, pb) or interleaved(pb, pa)))
            # the maker's resolution ended without its step body ever running (a factory raised, a cycle was reported, or it was cancelled)
            after_failed = bool(ia is None and pa is not None and pa["s_exit"] is not None and pb is not None and pa["s_exit"] < pb["s_req"])
            r.v("noncached_shared_across_invocations", concurrent_resolutions=concurrent(pa) or concurrent(pb), these_two_overlap=ov,
                same_step=bool(ia and ib and ia["step"] == ib["step"]), same_run=bool(ia and ib and ia["k"] == ib["k"]), is_async=res[i]["a"],
                after_failed_resolution=after_failed, **extra)

        def made_for_noncached_use(sn):
            """the call that made product sn ran in a worker task whose step uses that factory non-cached."""
            c = call_of.get(sn)
            ph = phase_of.get(c["tid"]) if c is not None else None
            return ph is not None and _use_closure(res, ef, ph["top"]).get(c["f"]) == {False}

        # ---- (a) cached uses: one object per instance, made by one completed call
        ncalls = [0] * nf
        for c in log.calls:
            ncalls[c["f"]] += 1
        needed = set() if cyclic else {i for inv in log.invs for i in _use_closure(res, ef, step_uses[inv["step"]])}
        for i, f in enumerate(res):
            cs = [c for c in log.calls if c["f"] == i and c["s1"] is not None]  # completed calls (a call cancelled with its run created nothing)
            if i in used_c and i not in used_nc and len(cs) > 1:
                cs.sort(key=lambda c: c["s0"])
                ov = any(cs[x + 1]["s0"] < cs[x]["s1"] for x in range(len(cs) - 1))
                r.v("cached_factory_called_more_than_once", calls=len(cs), overlapping_calls=ov, is_async=f["a"])
            if not cyclic and i in needed and len(cs) == 0:
                r.v("factory_never_called", cached_use=i in used_c)
            cached_seen = c_occ.get(i, {})
            borrowed = sorted(sn for sn in cached_seen if sn in nc_occ.get(i, {}) or made_for_noncached_use(sn))
            own = [sn for sn in cached_seen if sn not in borrowed]
            if len(own) > 1:
                r.v("cached_injection_not_identical", distinct=len(own), calls=len(cs), declared_both_ways=i in used_nc)
            for sn in borrowed:
                # the object handed to a cached use is one that was made for / handed to a non-cached use
                maker = call_of[sn]["tid"] if made_for_noncached_use(sn) else log.invs[nc_occ[i][sn]]["tid"]
                shared_violation(i, maker, log.invs[cached_seen[sn]]["tid"], cached_use=True)

        # ---- (b) non-cached uses: a product of the invocation's own, not shared, one per resolution
        for x, inv in enumerate(log.invs):
            want = _fresh_closure(res, ef, step_uses[inv["step"]])
            for i in sorted(want):
                n = len(fresh[x].get(i, ()))
                if n > 1 and ("multi", i) not in reported:
                    reported.add(("multi", i))
                    r.v("noncached_not_shared_within_invocation", distinct=n)
            for y in range(x):
                for i in sorted(set(fresh[x]) & set(fresh[y])):
                    if fresh[x][i] & fresh[y][i]:
                        shared_violation(i, log.invs[y]["tid"], inv["tid"])
            for i in sorted(fresh[x]):
                for sn in sorted(fresh[x][i]):
                    c = call_of.get(sn)
                    if c is not None and c["tid"] != inv["tid"]:
                        # made by (and for) another step invocation
                        shared_violation(i, c["tid"], inv["tid"], made_by_other_invocation=True)
        # never twice inside one resolution (calls attributed by task)
        per_task: dict = {}
        for c in log.calls:
            inv = by_tid_inv.get(c["tid"])
            if inv is not None and c["f"] in _fresh_closure(res, ef, step_uses[inv["step"]]):
                per_task.setdefault((c["tid"], c["f"]), []).append(c)
        for (tid, i), cs in per_task.items():
            if len(cs) > 1:
                ph = phase_of.get(tid)
                if ph is not None and all(ph["s_req"] < c["s0"] and (ph["s_exit"] is None or c["s0"] < ph["s_exit"]) for c in cs):
                    r.v("noncached_called_twice_in_one_resolution", calls=len(cs), other_resolution_open=other_open_at(tid, cs[1]["s0"]))
                    break
        # every product made in a resolution that went on to run its step body was received by somebody (what a failed or
        # cancelled resolution made is dropped, or stays behind only as a cached object)
        for c in log.calls:
            if c["s1"] is not None and c["tid"] in by_tid_inv and c["serial"] not in all_serials:
                r.v("factory_call_product_dropped", declared_cached=c["f"] in used_c, declared_noncached=c["f"] in used_nc,
                    other_resolution_open=other_open_at(c["tid"], c["s0"]))
                break

        # ---- non-triviality and classes
        first_done = {}  # when the object of the cached declaration became available
        for c in log.calls:
            if c["s1"] is not None and (c["f"] not in used_nc or c["serial"] in c_occ.get(c["f"], {})):
                first_done[c["f"]] = min(first_done.get(c["f"], 1 << 60), c["s1"])
        ov_cached = ov_nc = False
        phs = [p for p in log.phases if p["top"]]
        clos = [_use_closure(res, ef, p["top"]) for p in phs]
        for a in range(len(phs)):
            for b in range(len(phs)):
                p, q = phs[a], phs[b]
                if p["tid"] == q["tid"] or not interleaved(p, q):
                    continue
                for i in sorted(set(clos[a]) & set(clos[b])):
                    if False in clos[a][i] or False in clos[b][i]:
                        ov_nc = True
                    if (True in clos[a][i] or True in clos[b][i]) and first_done.get(i, 1 << 60) > q["s_req"]:
                        ov_cached = True
        r.nontrivial = ov_cached or ov_nc
        if ov_cached:
            r.classes.append("overlap_cached_being_built")
        if ov_nc:
            r.classes.append("overlap_noncached")
        if any(concurrent(p) for p in log.phases):
            r.classes.append("interleaved_injection_phases")
        if cyclic:
            r.classes.append("cycle_reached")
        elif _reaches_cycle(res, range(nf)):
            r.classes.append("cycle_unreachable")
        if len(runs) > 1:
            r.classes.append("multi_run")
            if any(x["at"] != "after" for x in runs[1:]):
                r.classes.append("concurrent_runs")
        if any(len([1 for g in res if i in g["deps"]]) > 1 for i in range(nf)):
            r.classes.append("shared_dependency")
        if case["desc"] == "per_use":
            r.classes.append("descriptor_per_use")
        if failed_any:
            r.classes.append("run_failed")
        if raised:
            r.classes.append("factory_raised")
            if any(o["kind"] == "result" for o in outcomes):
                r.classes.append("factory_raised_and_a_run_succeeded")
            if any(not c["raised"] and c["s1"] is not None and c["tid"] not in by_tid_inv and c["f"] in used_nc for c in log.calls):
                r.classes.append("noncached_product_left_by_failed_resolution")
        if used_nc:
            r.classes.append("has_noncached")
        if used_c & used_nc:
            r.classes.append("factory_declared_both_ways")
        if any(c_occ.get(i) and nc_occ.get(i) for i in range(nf)):
            r.classes.append("both_declarations_injected")
        r.sample = {"case": case, "factory_calls": ncalls, "invocations": len(log.invs), "outcomes": [o["kind"] for o in outcomes]}

PROP = C22
