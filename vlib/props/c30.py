"""C30 — a workflow instance never runs more concurrent runs than its limit; every run executes; instances are independent."""

from __future__ import annotations

import asyncio
import json
import typing

from hypothesis import strategies as st

from .. import boot, genwf
from ..boot import Runaway, VClock
from ..runner import CaseResult, Prop


class C30(Prop):
    id = "C30"
    rule = (
        "cases = 2-3 workflow instances of one two-step workflow class with num_concurrent_runs in {1..4, None}, and 2-10 runs started "
        "at generated virtual instants on generated instances, each with generated step durations, optionally failing in its first or "
        "second step (optionally the same instances were already used, with queueing, in an earlier event loop), optionally cancelled at a generated instant (before it got a slot, while running, after it ended), gracefully (cancel_run) or hard (handler.cancel(): the run's task is cancelled). Oracle over the "
        "recorded run intervals [first step entered, result available], evaluated strictly between event instants: (a) the number of "
        "runs of one instance that are executing never exceeds its limit; (b) work conservation: while a started, uncancelled run of an "
        "instance is still waiting to execute, that instance is at its limit (so a run never waits because of ANOTHER instance, and no "
        "slot leaks after failures or cancellations); (c) every started run that was not cancelled has executed and ended by the virtual "
        "horizon. Non-trivial = some run had to wait for a slot."
    )
    assumptions = [
        "a run 'executes' from the entry of its first step body to the completion of its result task; waiting = run() was called but no step body was entered yet",
        "instants at which something starts or ends are excluded (strictly-between evaluation), so same-instant hand-over of a slot is not judged",
        "all instances share one runtime object (the default arrangement: basic_runtime), here a SimRuntime subclass that only adds generated tie-breaks",
    ]
    budgets = {"quick": 1500, "thorough": 8000}
    wall = {"quick": 60.0, "thorough": 900.0}

    def setup(self):
        self.m = genwf.M()

    def strategy(self, tier):
        @st.composite
        def case(draw):
            n_inst = draw(st.integers(2, 3))
            limits = [draw(st.sampled_from([1, 1, 2, 2, 3, 4, None])) for _ in range(n_inst)]
            runs = []
            for _ in range(draw(st.integers(2, 10))):
                runs.append(
                    {
                        "inst": draw(st.integers(0, n_inst - 1)) if draw(st.integers(0, 2)) else 0,
                        "at": draw(st.sampled_from([0, 0, 0, 1, 1, 2, 3, 4, 6])),
                        "d1": draw(st.sampled_from([0, 1, 2, 3, 5])),
                        "d2": draw(st.sampled_from([0, 0, 1, 2, 4])),
                        "fail": draw(st.sampled_from([None, None, None, None, 1, 2])),
                        "cancel_at": draw(st.sampled_from([None, None, None, None, 0, 0.5, 1.5, 2.5, 4.5, 7.5])),
                        # graceful cancel_run() (a tick through the control loop) or the hard handler.cancel() (the run's task is cancelled)
                        "hard": draw(st.sampled_from([False, False, True])),
                    }
                )
            # the same workflow instances were used before, in an EARLIER event loop (an earlier asyncio.run()), with more runs than
            # slots (so that runs had to queue there); the case proper then runs in a fresh loop
            return {"limits": limits, "runs": runs, "ties": draw(st.lists(st.integers(0, 7), max_size=8)), "earlier_loop": draw(st.sampled_from([False, False, True]))}

        return case()

    def _cls(self, rec, log):
        m = self.m
        ge, step, Context, Workflow = m["ge"], m["step"], m["Context"], m["Workflow"]

        async def a(self, ctx, ev):
            k = ev.get("k")
            log[k]["enter"] = VClock.t if log[k]["enter"] is None else log[k]["enter"]
            if ev.get("d1"):
                await asyncio.sleep(ev.get("d1"))
            if ev.get("fail") == 1:
                raise ge.GenError(f"run{k}:a")
            return ge.E0(k=k, d2=ev.get("d2"), fail=ev.get("fail"))

        async def b(self, ctx, ev):
            k = ev.get("k")
            if ev.get("d2"):
                await asyncio.sleep(ev.get("d2"))
            if ev.get("fail") == 2:
                raise ge.GenError(f"run{k}:b")
            return ge.GStop(result=k)

        def ann(fn, name, ev_t, ret_t):
            fn.__name__ = name
            fn.__qualname__ = f"C30Wf.{name}"
            fn.__annotations__ = {"ctx": Context, "ev": ev_t, "return": ret_t}
            return fn

        return type("C30Wf", (Workflow,), {"a": step(ann(a, "a", ge.GStart, ge.E0)), "b": step(ann(b, "b", ge.E0, ge.GStop))})

    def run_case(self, case):
        case = json.loads(json.dumps(case))
        r = CaseResult()
        m = self.m
        ge = m["ge"]
        runs = case["runs"]
        log = [{"enter": None, "done": None, "started": None, "outcome": None, "cancelled_at": None} for _ in runs]
        rec = genwf.Rec({"ties": case["ties"], "ext": []})
        horizon = 50.0 + 4 * sum(x["d1"] + x["d2"] + x["at"] for x in runs)

        # instances and runtime are created outside any event loop, as module-level workflow objects are
        genwf.CUR = rec
        runtime = genwf.make_runtime()
        warm_log: list = []
        log_all = log  # the step bodies index this list by run number; warm-up runs get numbers after the case's own runs
        if case.get("earlier_loop"):
            for lim in case["limits"]:
                for _ in range((lim or 1) + 1):
                    warm_log.append({"enter": None, "done": None, "started": None, "outcome": None, "cancelled_at": None})
            log_all = log + warm_log
        cls = self._cls(rec, log_all)
        insts = [cls(timeout=None, runtime=runtime, num_concurrent_runs=lim) for lim in case["limits"]]

        async def warm():
            hs = []
            k = len(runs)
            for inst, lim in zip(insts, case["limits"]):
                for _ in range((lim or 1) + 1):
                    hs.append(inst.run(start_event=ge.GStart(k=k, d1=1, d2=0, fail=None), run_id=f"warm-{k}"))
                    k += 1
            await asyncio.gather(*[h._result_task for h in hs], return_exceptions=True)

        if case.get("earlier_loop"):
            try:
                boot.run_virtual(warm)
            except Runaway as e:
                raise RuntimeError(f"inconclusive warm-up: {e}") from None

        async def main():
            genwf.CUR = rec
            handlers: list = [None] * len(runs)

            async def one(k, spec):
                if spec["at"]:
                    await asyncio.sleep(spec["at"])
                log[k]["started"] = VClock.t
                h = insts[spec["inst"]].run(start_event=ge.GStart(k=k, d1=spec["d1"], d2=spec["d2"], fail=spec["fail"]), run_id=f"run-{k}")
                handlers[k] = h

                def done(_t, k=k):
                    log[k]["done"] = VClock.t

                h._result_task.add_done_callback(done)
                if spec["cancel_at"] is not None:
                    if spec["cancel_at"] > VClock.t:
                        await asyncio.sleep(spec["cancel_at"] - VClock.t)
                    if not h._result_task.done():
                        log[k]["cancelled_at"] = VClock.t
                        if spec.get("hard"):
                            import warnings

                            with warnings.catch_warnings():
                                warnings.simplefilter("ignore")
                                h.cancel()
                        else:
                            await h.cancel_run(timeout=1e9)

            tasks = [asyncio.create_task(one(k, s)) for k, s in enumerate(runs)]
            await asyncio.wait(tasks, timeout=horizon)
            pend = [h._result_task for h in handlers if h is not None and not h._result_task.done()]
            if pend:
                await asyncio.wait(pend, timeout=horizon)
            for k, h in enumerate(handlers):
                if h is None:
                    continue
                t = h._result_task
                if not t.done():
                    log[k]["outcome"] = "unfinished"
                    try:
                        h._external_adapter.abort()
                    except Exception:  # noqa: BLE001
                        pass
                elif t.cancelled():
                    log[k]["outcome"] = "task_cancelled"
                else:
                    e = t.exception()
                    log[k]["outcome"] = "result" if e is None else type(e).__name__
            for t in tasks:
                if not t.done():
                    t.cancel()
            await asyncio.gather(*tasks, *[h._result_task for h in handlers if h is not None], return_exceptions=True)

        try:
            boot.run_virtual(main)
        except Runaway as e:
            raise RuntimeError(f"inconclusive: {e}") from None
        finally:
            genwf.CUR = None

        INF = float("inf")
        times = sorted({x for lg in log for x in (lg["started"], lg["enter"], lg["done"], lg["cancelled_at"]) if x is not None})
        mids = [(times[i] + times[i + 1]) / 2 for i in range(len(times) - 1) if times[i + 1] > times[i]]
        waited = False
        for inst, lim in enumerate(case["limits"]):
            ks = [k for k, s in enumerate(runs) if s["inst"] == inst]
            for t in mids:
                executing = [k for k in ks if log[k]["enter"] is not None and log[k]["enter"] < t < (log[k]["done"] if log[k]["done"] is not None else INF)]
                waiting = [
                    k
                    for k in ks
                    if log[k]["started"] is not None
                    and log[k]["started"] < t
                    and (log[k]["enter"] is None or log[k]["enter"] > t)
                    and (log[k]["done"] is None or log[k]["done"] > t)
                    and (log[k]["cancelled_at"] is None or log[k]["cancelled_at"] > t)
                ]
                if waiting:
                    waited = True
                if lim is not None and len(executing) > lim:
                    r.v("more_runs_executing_than_limit", limit=lim, executing=len(executing))
                    break
                if waiting and (lim is None or len(executing) < lim):
                    others_busy = any(
                        log[k]["enter"] is not None and log[k]["enter"] < t < (log[k]["done"] if log[k]["done"] is not None else INF)
                        for k, s in enumerate(runs)
                        if s["inst"] != inst
                    )
                    r.v("run_waits_although_instance_below_limit", limit=lim, executing=len(executing), other_instances_busy=others_busy,
                        after_failure=any(log[k]["outcome"] not in (None, "result") and log[k]["done"] is not None and log[k]["done"] < t for k in ks))
                    break
        for k, s in enumerate(runs):
            lg = log[k]
            if lg["started"] is None:
                r.v("run_never_started_by_harness")
                continue
            if lg["cancelled_at"] is None:
                if lg["enter"] is None:
                    r.v("run_never_executed", limit=case["limits"][s["inst"]])
                elif lg["outcome"] == "unfinished":
                    r.v("run_never_finished", limit=case["limits"][s["inst"]])
                else:
                    want = "result" if s["fail"] is None else "GenError"
                    if lg["outcome"] != want:
                        r.v("run_wrong_outcome", got=lg["outcome"], want=want)
            else:
                if lg["outcome"] == "unfinished":
                    r.v("cancelled_run_never_finished", entered=lg["enter"] is not None)
        if waited:
            r.classes.append("some_run_waited")
        if any(lg["cancelled_at"] is not None and (lg["enter"] is None or lg["enter"] > lg["cancelled_at"]) for lg in log):
            r.classes.append("cancelled_while_waiting_for_slot")
        if any(lg["cancelled_at"] is not None and runs[k].get("hard") and (lg["enter"] is None or lg["enter"] > lg["cancelled_at"]) for k, lg in enumerate(log)):
            r.classes.append("hard_cancelled_while_waiting_for_slot")
        if any(lg["cancelled_at"] is not None and lg["enter"] is not None and lg["enter"] <= lg["cancelled_at"] for lg in log):
            r.classes.append("cancelled_while_running")
        if any(lg["outcome"] == "GenError" for lg in log):
            r.classes.append("failed_run")
        if len({s["inst"] for s in runs}) > 1:
            r.classes.append("multi_instance")
        if case.get("earlier_loop"):
            r.classes.append("instances_used_in_an_earlier_event_loop")
        r.nontrivial = waited
        r.sample = {"case": case, "log": [{k: v for k, v in lg.items()} for lg in log]}
        return r


PROP = C30
