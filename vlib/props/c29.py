"""C29 — merge_generators / debounced_sorted_prefix preserve items and order (virtual-time schedules)."""

from __future__ import annotations

import asyncio

from hypothesis import strategies as st

from .. import boot
from ..boot import VClock
from ..runner import CaseResult, Prop


class SrcError(Exception):
    pass


_delay = st.sampled_from([0, 0, 0.05, 0.1, 0.1, 0.15, 0.2, 0.25, 0.3, 0.5, 1.0])


class C29(Prop):
    id = "C29"
    rule = (
        "cases = (a) 1-4 sources, each a list of (virtual delay, item) optionally ending in an error, merged by merge_generators; "
        "(b) one timed source through debounced_sorted_prefix with debounce / max-window values drawn from the same grid as the "
        "inter-arrival gaps (so arrivals equal to, just before and just after the window close are frequent). All on the virtual-time "
        "loop. Non-trivial = (a) >=2 sources with items, (b) some item arrives exactly at a possible window-close instant."
    )
    assumptions = [
        "an arrival exactly at the window-close instant may count as burst or as later item (both accepted); the window close is simulated under both readings",
        "items are distinct integers (keys are generated separately) so permutations can be checked exactly",
    ]
    budgets = {"quick": 4000, "thorough": 20000}
    wall = {"quick": 70.0, "thorough": 900.0}

    def setup(self):
        boot.seed_llama_agents()
        from llama_agents.core import iter_utils

        self.iu = iter_utils

    def strategy(self, tier):
        src = st.fixed_dictionaries({"items": st.lists(_delay, min_size=0, max_size=6), "error_after": st.one_of(st.none(), st.none(), _delay)})
        merge = st.fixed_dictionaries({"k": st.just("merge"), "srcs": st.lists(src, min_size=1, max_size=4)})
        deb = st.fixed_dictionaries(
            {
                "k": st.just("debounce"),
                "delays": st.one_of(
                    st.lists(st.sampled_from([0, 0, 0, 0.05, 0.05, 0.05, 0.1, 0.1, 0.15, 0.2, 0.25, 0.3, 0.5]), min_size=0, max_size=8),
                    st.lists(st.sampled_from([0, 0, 0, 0.05, 0.05, 0.1, 0.3]), min_size=3, max_size=10),  # dense: a long initial burst
                ),
                "keys": st.one_of(st.lists(st.integers(0, 5), min_size=10, max_size=10), st.lists(st.integers(0, 1), min_size=10, max_size=10)),
                "debounce": st.sampled_from([0.05, 0.1, 0.1, 0.2, 0.3]),
                "window": st.sampled_from([0.1, 0.2, 0.3, 0.5, 1.0]),
                "tail": _delay,
                # key = (keys[i], i) (all distinct) or keys[i] alone: equal keys for distinct items, as two identical log lines give the
                # control plane's caller (key = (timestamp, pod, container, text)); items are objects that do not define an order
                "ties": st.booleans(),
            }
        )
        return st.one_of(merge, deb, deb)

    def run_case(self, case):
        r = CaseResult()
        r.classes.append(case["k"])
        if case["k"] == "merge":
            self.run_merge(case, r)
        else:
            self.run_debounce(case, r)
        return r

    # ---- merge
    def run_merge(self, case, r):
        iu = self.iu
        srcs = case["srcs"]

        async def gen(i, s):
            for j, d in enumerate(s["items"]):
                await asyncio.sleep(d)
                yield (i, j)
            if s["error_after"] is not None:
                await asyncio.sleep(s["error_after"])
                raise SrcError(f"src{i}")

        out, err = [], []

        async def main():
            try:
                async for x in iu.merge_generators(*[gen(i, s) for i, s in enumerate(srcs)]):
                    out.append(x)
            except SrcError as e:
                err.append(e)

        boot.run_virtual(main)
        has_err = any(s["error_after"] is not None for s in srcs)
        expected = [(i, j) for i, s in enumerate(srcs) for j in range(len(s["items"]))]
        if len(set(out)) != len(out):
            r.v("merge_duplicate_item")
        for i in range(len(srcs)):
            seq = [x[1] for x in out if x[0] == i]
            if seq != sorted(seq) or (seq and seq != list(range(len(seq)))):
                r.v("merge_source_order_broken", src=i, seq=seq)
        if any(x not in expected for x in out):
            r.v("merge_invented_item")
        if not has_err:
            if err:
                r.v("merge_raised_without_source_error")
            if sorted(out) != sorted(expected):
                r.v("merge_lost_item", got=len(out), want=len(expected))
        else:
            if not err:
                r.v("merge_swallowed_error")
            elif not str(err[0]).startswith("src"):
                r.v("merge_wrong_error")
            r.classes.append("merge_with_error")
        r.nontrivial = sum(1 for s in srcs if s["items"]) >= 2

    # ---- debounce
    def run_debounce(self, case, r):
        iu = self.iu
        delays = case["delays"]
        keys = case["keys"]
        items = list(range(len(delays)))
        ties = bool(case.get("ties"))
        arrivals = []
        t = 0.0
        for d in delays:
            t += d
            arrivals.append(t)

        class Item:  # like the caller's log events: no __lt__
            __slots__ = ("i",)

            def __init__(self, i):
                self.i = i

        def keyf(i):
            return keys[i] if ties else (keys[i], i)

        async def gen():
            for i, d in enumerate(delays):
                await asyncio.sleep(d)
                yield Item(i)
            await asyncio.sleep(case["tail"])

        out, t_out = [], []

        async def main():
            async for x in iu.debounced_sorted_prefix(gen(), key=lambda it: keyf(it.i), debounce_seconds=case["debounce"], max_window_seconds=case["window"]):
                out.append(x.i)
                t_out.append(VClock.t)

        try:
            boot.run_virtual(main)
        except Exception as e:  # noqa: BLE001
            r.v("debounce_stream_raised", error=type(e).__name__, equal_keys=ties and len(set(keys[: len(items)])) < len(items))
            r.nontrivial = True
            return
        if sorted(out) != items:
            r.v("debounce_not_a_permutation", got=out, want=items)
            r.nontrivial = True
            return
        # window close under both readings of a boundary arrival
        eps = 1e-9

        def close(boundary_extends: bool):
            c = min(case["debounce"], case["window"])
            for a in arrivals:
                if a < c - eps or (boundary_extends and abs(a - c) <= eps):
                    c = min(a + case["debounce"], case["window"])
            return c

        c_lo, c_hi = sorted([close(False), close(True)])
        k_min = sum(1 for a in arrivals if a < c_lo - eps)
        k_max = sum(1 for a in arrivals if a <= c_hi + eps)
        boundary = any(abs(a - c) <= eps for a in arrivals for c in (c_lo, c_hi))
        def fits(k):
            # the first k arrivals, in non-decreasing key order (any order among equal keys), then the rest as they arrived
            head = out[:k]
            return sorted(head) == items[:k] and all(keyf(a) <= keyf(b) for a, b in zip(head, head[1:])) and out[k:] == items[k:]

        ok_k = next((k for k in range(len(items) + 1) if fits(k)), None)
        if ok_k is None:
            # which shape? a later item overtook the sorted burst, or the burst is unsorted
            r.v("debounce_order", got=out, keys=[keys[i] for i in out], boundary=boundary)
        else:
            ks = [k for k in range(len(items) + 1) if fits(k)]
            if not any(k_min <= k <= k_max for k in ks):
                r.v("debounce_burst_extent", split=ks, k_min=k_min, k_max=k_max, boundary=boundary)
        if boundary:
            r.classes.append("boundary_arrival")
        if k_min >= 2:
            r.classes.append("burst_ge_2")
        if k_min >= 6:
            r.classes.append("burst_ge_6")
        if ties and len(set(keys[:k_min])) < k_min:
            r.classes.append("equal_keys_in_burst")
        r.nontrivial = boundary


PROP = C29
