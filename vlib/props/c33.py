"""C33 - backup archives restore exactly what was backed up (round trip, pure inputs, with and without encryption)."""

from __future__ import annotations

import copy
import math
import unicodedata

from hypothesis import strategies as st

from .. import boot
from ..runner import CaseResult, HarnessError, Prop

# ------------------------------------------------------------------------------------ generators

# words used by the archive naming scheme ("<name>.yaml", "<name>.secret.yaml", "<name>.secret.enc",
# "<name>.meta.json", "manifest.json", fallback name "unknown") plus a few neutral ones; names built
# from a small pool are frequently prefixes / suffixes of each other
_NAME_TOKENS = ["secret", "secrets", "meta", "yaml", "yml", "json", "enc", "manifest", "unknown", "a", "app", "x", "y", "m", "l", "e", "n", "s", "api", "v2", "0", "1e3", "null", "yes", "on"]
_FIXED_NAMES = [
    "a", "app", "app-secret", "app-secret-yaml", "app-secret-enc", "app-meta", "app-meta-json", "app-yaml", "secret", "secret-yaml",
    "meta", "meta-json", "yaml", "json", "enc", "manifest", "manifest-json", "unknown", "null", "yes", "no", "on", "true", "nan",
    "llama", "my-yaml", "jobs-gen", "x" * 63, "a" + "-b" * 31, "y-1e3", "e1", "n0", "secret-enc", "app-secrets",
]
_NAME_ALPHA = "abcdefghijklmnopqrstuvwxyz0123456789-"

# strings that mean something to a YAML 1.1 parser, or that stress scalar styles / folding / escaping
_SPECIAL = [
    "", " ", "  ", "yes", "no", "Yes", "NO", "on", "off", "On", "y", "n", "true", "True", "FALSE", "null", "Null", "NULL", "~", "1e3", "1E3", "1.e3", "1.0e+3",
    "0123", "0o17", "0x1f", "0b101", "1_000", "1:30", "190:20:30", "1:30.5", "1.0", "-1", "+1", "1.", ".5", "-.5", ".inf", "-.inf", ".Inf", ".nan", ".NaN", "1e", "e3",
    "-", "--", "---", "--- a", "...", "- a", "-a", "a: b", "a:b", "a :b", ":", ": ", " :", "a:", "# c", "a #c", "a# c", "#", "? x", "?", "|", "|-", ">", "> folded", "&a", "*a", "!tag", "!!str x", "%x", "%YAML 1.1", "@y", "`z",
    "{a: 1}", "{", "}", "[1]", "[", "]", ",", "a, b", "'", "''", "'q'", "it's", '"', '""', '"dq"', 'say "hi"', "\\", "\\n", "a\\", "\\x41", "\\u00e9",
    " lead", "trail ", " both ", "\tlead", "trail\t", "a\tb", "a  b", "a\nb", "a\n", "\nb", "\n", "\n\n", "a\n\nb\n", "a\n b", "a \nb", " a\nb", "a\nb ", "line1\n  indented\nback\n", "a\n\n\n", "- x\n- y\n", "k: v\nl: [1, 2]\n",
    "\r", "\r\n", "a\rb", "a\r\nb", "\x85", "a\x85b", "\u2028", "a\u2028b", "\u2029", "\ufeff", "\ufeffa", "a\ufeff", "\x00", "a\x00b", "\x01", "\x07", "\x1b[0m", "\x7f", "\x80", "\x9f", "\xa0", "\xad",
    "\u00e9", "e\u0301", "\u00df", "\u0130", "\u65e5\u672c\u8a9e", "\ud55c\uad6d\uc5b4", "\u03a9mega", "\u200b", "\u200d", "\u202e", "\ufffd", "\ufffe", "\uffff", "\ud7ff", "\ue000", "\U0001f600", "a\U0001f600b", "\U0001f468\u200d\U0001f469", "\U00010000", "\U0010ffff",
    "2001-01-01", "2001-1-1", "2001-01-01T00:00:00Z", "2001-01-01 00:00:00", "2001-01-01t00:00:00.5+01:00", "=", "<<", "<", "==", "a=b", "base64==", "$(cmd)", "${VAR}", "*", "&", "!", "%", "@", "`",
    "-----BEGIN KEY-----\nMIIB\nAbC=\n-----END KEY-----\n", "postgres://u:p@h:5432/db?sslmode=require", '{"json": [1, "two", null]}',
]
_WORDS = ["a", "bb", "the", "word", "yes", "1e3", ":", "#", "-", "\u00e9", "\U0001f600", "x" * 30, "null", "'", '"', "{", "a:", "\\"]


_SEPS = [" ", " ", " ", "  ", "   ", "\n", " \n", "\n ", "\t"]


def _folded(t) -> str:
    """n words and separators chosen by the digits of one drawn integer (a pure function of the case)."""
    n, x = t
    out = []
    for _ in range(n):
        x, a = divmod(x, len(_WORDS))
        x, b = divmod(x, len(_SEPS))
        if x == 0:
            x = t[1] ^ (len(out) * 0x9E3779B97F4A7C15 & (2**62 - 1))
        out.append(_WORDS[a] + _SEPS[b])
    return "".join(out)


def _text():
    plain = st.text(max_size=12)  # arbitrary unicode (no lone surrogates: not UTF-8/JSON representable)
    pieces = st.lists(st.one_of(st.sampled_from(_SPECIAL), st.text(max_size=4)), min_size=2, max_size=3).map("".join)
    # long strings with single / multiple spaces: emitted over several lines (best_width=80 folding)
    folded = st.tuples(st.integers(8, 40), st.integers(0, 2**62)).map(_folded)
    edges = st.tuples(st.sampled_from(["", " ", "\n", "\t", "  "]), st.one_of(st.sampled_from(_SPECIAL), plain), st.sampled_from(["", " ", "\n", "\t", "\n\n"])).map("".join)
    return st.one_of(st.sampled_from(_SPECIAL), st.sampled_from(_SPECIAL), plain, pieces, edges, folded)


_TEXT = _text()
_FLOATS = st.one_of(
    st.floats(allow_nan=False, allow_infinity=False),
    st.sampled_from([0.0, -0.0, 1.0, 1e3, 1e16, 1e22, 1e-5, 1e-7, 1.5e-7, 5e-324, 1.7976931348623157e308, -1e16, 123456789012345680.0, 0.1, 1 / 3, 1e15, 1e17, 2.0**53, 1e100]),
)
_INTS = st.one_of(st.integers(-20, 200), st.integers(-(2**70), 2**70), st.sampled_from([0, 1, -1, 2**31, 2**63 - 1, 2**63, -(2**63), 10**30, 8, 9, 10, 60, 3600]))
_LEAF = st.one_of(st.none(), st.booleans(), _INTS, _FLOATS, _TEXT, _TEXT)
# mapping keys of a resource document: ordinary identifiers, YAML-significant words, arbitrary text, long keys
_KEYS = st.one_of(
    st.sampled_from(["image", "replicas", "env", "projectId", "repoUrl", "name", "namespace", "labels", "annotations", "gitRef", "args", "command", "a", "b", "c"]),
    st.sampled_from(["yes", "no", "on", "off", "null", "~", "true", "1", "0123", "1e3", "1.5", "", " ", "<<", "=", "-", "?", ":", "a: b", "a\nb", "\u00e9", "\U0001f600", "k" * 130, "w " * 70, "#", "[", "{", "*x", "&x", "!x", "|", ">", "'", '"', "2001-01-01"]),
    st.text(max_size=6),
)
_JSON = st.recursive(
    _LEAF,
    lambda ch: st.one_of(st.lists(ch, max_size=4), st.dictionaries(_KEYS, ch, max_size=4)),
    max_leaves=8,
)
_STR_MAP = st.dictionaries(st.one_of(st.sampled_from(["app", "app.kubernetes.io/name", "team", "example.com/owner", "deploy.llamaindex.ai/x", "yes", "1e3"]), st.text(max_size=6)), _TEXT, max_size=3)

# secret keys: what a Kubernetes Secret allows ([-._a-zA-Z0-9]+, which already includes YAML-significant words), or arbitrary text
_K8S_KEY_ALPHA = "abcdefghijklmnopqrstuvwxyzABCDEFGHIJKLMNOPQRSTUVWXYZ0123456789-._"
_SECRET_KEYS = st.one_of(
    st.sampled_from(["API_KEY", "TOKEN", "DATABASE_URL", "tls.crt", "tls.key", ".dockerconfigjson", "yes", "no", "on", "off", "null", "Null", "true", "y", "n", "0123", "1e3", "1.5", "1", "0", "-1", "0x1F", "0o7", "1_0", ".inf", ".nan", "-", "--", "---", "...", "_", ".", "..", "K" * 140, "2001-01-01", "1.e3", "1e-3", "+1"]),
    st.text(alphabet=_K8S_KEY_ALPHA, min_size=1, max_size=10),
    st.one_of(st.sampled_from(_SPECIAL), st.text(max_size=6)),  # arbitrary unicode keys, incl. ""
)
_SECRET_VALS = st.one_of(_TEXT, _TEXT, st.text(max_size=40), st.lists(_TEXT, min_size=2, max_size=5).map("\n".join))
_SECRET = st.dictionaries(_SECRET_KEYS, _SECRET_VALS, max_size=4)
_GEN = st.one_of(st.none(), st.none(), st.just(0), st.just(0), st.integers(1, 50), st.integers(1, 50), st.sampled_from([2**31, 2**53 + 1, 2**63 - 1]))

_PW_TEXT = st.one_of(
    st.sampled_from(["pw", "my-password", "dev-test-password", "correct horse battery staple", " ", "p w", "p\u00e4ssw\u00f6rd", "\u043f\u0430\u0440\u043e\u043b\u044c", "\u5bc6\u7801", "\U0001f600", "e\u0301", "\u00e9", "Pw", "PW", "0", "null", "yes", "a" * 100, "tab\tpw", "nl\npw", "'", '"', "\\", "pw "]),
    st.text(alphabet=st.characters(blacklist_categories=("Cs",), blacklist_characters="\x00"), min_size=1, max_size=12),
)
_OTHER_KIND = st.sampled_from(["independent", "append_space", "prepend_space", "swapcase", "drop_last", "add_non_ascii", "swap_non_ascii", "normalize", "append_nl", "double", "empty", "strip_accents"])


def _variant(pw: str, kind: str, indep: str) -> str:
    if kind == "append_space":
        o = pw + " "
    elif kind == "prepend_space":
        o = " " + pw
    elif kind == "swapcase":
        o = pw.swapcase()
    elif kind == "drop_last":
        o = pw[:-1]
    elif kind == "add_non_ascii":
        o = pw + "\u00e9"
    elif kind == "swap_non_ascii":
        o = "".join(("\u00f6" if c != "\u00f6" else "\u00e4") if ord(c) > 127 else c for c in pw)
    elif kind == "normalize":
        o = unicodedata.normalize("NFD", pw)
        if o == pw:
            o = unicodedata.normalize("NFC", pw)
    elif kind == "append_nl":
        o = pw + "\n"
    elif kind == "double":
        o = pw + pw
    elif kind == "empty":
        o = ""
    elif kind == "strip_accents":
        o = "".join(c for c in pw if ord(c) < 128)
    else:
        o = indep
    if o == pw:
        o = indep
    if o == pw:
        o = pw + "x"
    return o


def strict_diff(want, got, path="$"):
    """First difference between two JSON-like values, comparing types exactly (True != 1 != 1.0, -0.0 != 0.0)."""
    if type(want) is not type(got):
        return path, f"type {type(want).__name__} -> {type(got).__name__}"
    if isinstance(want, dict):
        for k in want:
            if k not in got:
                return f"{path}[{k!r}]", "key lost"
        for k in got:
            if k not in want:
                return f"{path}[{k!r}]", "key added"
            if type(k) is not str:
                return f"{path}[{k!r}]", f"key type {type(k).__name__}"
        for k in want:
            d = strict_diff(want[k], got[k], f"{path}[{k!r}]")
            if d:
                return d
        return None
    if isinstance(want, list):
        if len(want) != len(got):
            return path, f"length {len(want)} -> {len(got)}"
        for i, (a, b) in enumerate(zip(want, got)):
            d = strict_diff(a, b, f"{path}[{i}]")
            if d:
                return d
        return None
    if isinstance(want, float):
        if want != got or math.copysign(1.0, want) != math.copysign(1.0, got):
            return path, f"float {want!r} -> {got!r}"
        return None
    if want != got:
        return path, f"{type(want).__name__} {want!r:.60} -> {got!r:.60}"
    return None


def _walk_strings(v):
    if isinstance(v, str):
        yield v
    elif isinstance(v, dict):
        for k, x in v.items():
            yield k
            yield from _walk_strings(x)
    elif isinstance(v, list):
        for x in v:
            yield from _walk_strings(x)


class C33(Prop):
    id = "C33"
    rule = (
        "a case = a list of 0-5 deployments with distinct names accepted by the repository's validate_dns_1035_label (built from the words of the "
        "archive file-naming scheme so that names are often prefixes/suffixes of each other; also 63-character and random names), each with a "
        "custom-resource dict (apiVersion/kind/metadata{name,namespace,labels,annotations}/spec + extra keys; JSON-like values: None, bools, "
        "ints beyond 64 bit, finite floats, YAML-significant / unicode / multi-line / control-character / long folded strings, nested lists and "
        "dicts with such strings as keys), an optional secret dict[str,str] (possibly empty; Kubernetes-style and arbitrary keys, arbitrary "
        "unicode values) and an optional generation (0 included); secrets/generations for names that are not deployments; namespace and "
        "timestamp text; a password (None, or text incl. the empty string) and a second different password (independent, or a near variant: "
        "added/stripped blank, case, non-ASCII characters, normalisation form). Oracle: read_backup_archive(create_backup_archive(x)) gives the "
        "manifest fields of x, exactly the deployment names of x once each, and per name a CR, secret and generation equal to the input with "
        "exact types (True != 1 != 1.0) - read with no password and with an unrelated password when x is unencrypted, with the right password when "
        "encrypted; when encrypted and some deployment has a secret, reading with the other password must raise and reading with no password must "
        "raise ValueError.  For the empty-string password either consistent reading is accepted (encrypted with the empty password, or not "
        "encrypted) but manifest.encrypted must agree with what a reader without the password can obtain.  Non-trivial = at least one "
        "deployment carries a secret."
    )
    assumptions = [
        "cryptography is replaced by /verif/shims/cryptography: PBKDF2HMAC = hashlib.pbkdf2_hmac (OpenSSL), AESGCM = ctypes binding of libcrypto.so.3 EVP_aes_256_gcm; "
        "both are checked in setup() against published known answers (GCM spec test cases 13-16 for AES-256, PBKDF2-HMAC-SHA256 vectors); a failed self-test is a harness error",
        "the real PBKDF2 iteration count (600000) is kept, so only about 1/13 of the cases are encrypted and those carry at most two secrets",
        "salt and nonce come from the real os.urandom inside encrypt(); verdicts do not depend on their values",
        "PyYAML 6.0.3 from /venv (pure-Python Dumper / SafeLoader, the classes archive.py uses) is the YAML implementation",
        "deployment names are exactly the strings accepted by llama_agents.core.schema.deployments.validate_dns_1035_label over [a-z0-9-]; "
        "strings exclude lone surrogates (not UTF-8 encodable) and passwords exclude NUL (cannot come from an environment variable); floats are finite",
        "the empty string is a possible password value (settings.backup_encryption_password is str | None, filled from a Secret-backed environment variable); "
        "the oracle does not prescribe whether it encrypts, only that an archive declaring encrypted=true does not hand out secrets without the password",
    ]
    budgets = {"quick": 650, "thorough": 3000}
    wall = {"quick": 45.0, "thorough": 480.0}
    ENC_ONE_IN = 13

    # ------------------------------------------------------------------ setup
    def setup(self):
        import cryptography

        if not getattr(cryptography, "__version__", "").endswith("verif.shim"):
            raise HarnessError("C33 expects the /verif/shims/cryptography stand-in (a different 'cryptography' was imported)")
        try:
            cryptography.selftest()
        except Exception as e:  # noqa: BLE001
            raise HarnessError(f"cryptography stand-in failed its known-answer self-test: {e!r}") from e
        boot.seed_llama_agents()
        from cryptography.exceptions import InvalidTag
        from llama_agents.control_plane.backup import archive
        from llama_agents.core.schema.deployments import validate_dns_1035_label

        self.archive = archive
        self.InvalidTag = InvalidTag
        self.validate = validate_dns_1035_label

    def _valid_name(self, s: str) -> bool:
        try:
            self.validate(s)
            return True
        except ValueError:
            return False

    # ------------------------------------------------------------------ strategy
    def strategy(self, tier):
        names = st.one_of(
            st.sampled_from(_FIXED_NAMES),
            st.lists(st.sampled_from(_NAME_TOKENS), min_size=1, max_size=4).map("-".join),
            st.lists(st.sampled_from(_NAME_TOKENS), min_size=1, max_size=4).map("-".join),
            st.text(alphabet=_NAME_ALPHA, min_size=1, max_size=10),
            st.text(alphabet=_NAME_ALPHA, min_size=55, max_size=63),
        ).filter(self._valid_name)
        enc_one_in = self.ENC_ONE_IN

        @st.composite
        def case(draw):
            encrypted = draw(st.sampled_from([True] + [False] * (enc_one_in - 1)))
            if encrypted:
                password = "" if draw(st.sampled_from([True] + [False] * 11)) else draw(_PW_TEXT)
            else:
                password = None
            n_deps = draw(st.sampled_from([0, 1, 1, 1, 2, 2, 2, 3, 3, 4, 5]))
            dep_names = draw(st.lists(names, min_size=n_deps, max_size=n_deps, unique=True))
            deps = []
            n_secrets = 0
            for nm in dep_names:
                meta = {"name": nm}
                if draw(st.booleans()):
                    meta["namespace"] = draw(st.one_of(st.just("default"), _TEXT))
                if draw(st.integers(0, 3)) == 0:
                    meta["labels"] = draw(_STR_MAP)
                if draw(st.integers(0, 3)) == 0:
                    meta["annotations"] = draw(_STR_MAP)
                cr = {
                    "apiVersion": draw(st.one_of(st.just("deploy.llamaindex.ai/v1alpha1"), _TEXT)),
                    "kind": "LlamaDeployment",
                    "metadata": meta,
                    "spec": draw(st.dictionaries(_KEYS, _JSON, max_size=3)),
                }
                if draw(st.integers(0, 4)) == 0:
                    for k, v in draw(st.dictionaries(_KEYS, _JSON, max_size=2)).items():
                        cr.setdefault(k, v)
                want_secret = draw(st.integers(0, 2)) > 0
                # encrypted cases pay ~0.15 s of PBKDF2 per secret written and read
                if want_secret and encrypted and password and n_secrets >= (2 if draw(st.integers(0, 3)) == 0 else 1):
                    want_secret = False
                secret = draw(_SECRET) if want_secret else None
                if secret is not None:
                    n_secrets += 1
                deps.append({"cr": cr, "secret": secret, "gen": draw(_GEN)})
            extra_names = draw(st.lists(names, max_size=2, unique=True)) if draw(st.integers(0, 3)) == 0 else []
            extra_names = [n for n in extra_names if n not in dep_names]
            other_kind = draw(_OTHER_KIND)
            indep = draw(_PW_TEXT)
            return {
                "deployments": deps,
                "extra_secrets": {n: draw(_SECRET) for n in extra_names},
                "extra_generations": {n: draw(st.integers(0, 9)) for n in extra_names if draw(st.booleans())},
                "empty_generations_as": draw(st.sampled_from(["none", "dict"])),
                "namespace": draw(st.one_of(st.sampled_from(["default", "llama-agents", "prod"]), _TEXT)),
                "timestamp": draw(st.one_of(st.just("2025-01-01T00:00:00+00:00"), st.just("2025-06-01T12:34:56.789012+00:00"), _TEXT)),
                "password": password,
                "other_password": _variant(password, other_kind, indep) if password is not None else indep,
                "other_kind": other_kind if password is not None else "independent",
            }

        return case()

    # ------------------------------------------------------------------ oracle helpers
    def _compare(self, r: CaseResult, contents, case, expected, mode: str) -> None:
        A = self.archive
        if not isinstance(contents, A.BackupContents):
            r.v("read_returned_wrong_type", mode=mode, got=type(contents).__name__)
            return
        m = contents.manifest
        want_manifest = {
            "version": 1,
            "timestamp": case["timestamp"],
            "namespace": case["namespace"],
            "deployment_count": len(expected),
            "encrypted": case["password"] is not None,
        }
        if case["password"] == "":
            # the empty password may consistently mean "encrypt with the empty password" or "no encryption";
            # whichever the archive declares is held against its observable behaviour in run_case
            want_manifest["encrypted"] = bool(getattr(m, "encrypted", None))
        for fld, want in want_manifest.items():
            got = getattr(m, fld, "<missing>")
            if type(got) is not type(want) or got != want:
                r.v("manifest_mismatch", mode=mode, field=fld, want=repr(want)[:80], got=repr(got)[:80])
        seen: dict[str, int] = {}
        for e in contents.entries:
            seen[e.name] = seen.get(e.name, 0) + 1
        for nm in expected:
            if nm not in seen:
                r.v("entry_missing", mode=mode, name=nm, got_names=sorted(map(repr, seen))[:8])
        for nm, cnt in seen.items():
            if nm not in expected:
                r.v("entry_unexpected", mode=mode, name=repr(nm)[:80])
            elif cnt > 1:
                r.v("entry_duplicated", mode=mode, name=nm, count=cnt)
        done = set()
        for e in contents.entries:
            if e.name not in expected or e.name in done:
                continue
            done.add(e.name)
            cr, secret, gen = expected[e.name]
            d = strict_diff(cr, e.cr)
            if d:
                r.v("cr_mismatch", mode=mode, name=e.name, path=d[0][:120], what=d[1][:160])
            if secret is None:
                if e.secret is not None:
                    r.v("secret_mismatch", mode=mode, name=e.name, path="$", what=f"None -> {type(e.secret).__name__}", secret_empty=False)
            else:
                d = strict_diff(secret, e.secret)
                if d:
                    r.v("secret_mismatch", mode=mode, name=e.name, path=d[0][:120], what=d[1][:160], secret_empty=(secret == {}))
            if type(gen) is not type(e.generation) or gen != e.generation:
                r.v("generation_mismatch", mode=mode, name=e.name, want=gen, got=repr(e.generation)[:40])

    # ------------------------------------------------------------------ one case
    def run_case(self, case):
        r = CaseResult()
        A = self.archive
        deps = case["deployments"]
        names = [d["cr"]["metadata"]["name"] for d in deps]
        if len(set(names)) != len(names) or not all(isinstance(n, str) and self._valid_name(n) for n in names):
            r.skipped = True  # outside the property's domain (cannot come from the strategy)
            return r
        password = case["password"]
        other = case["other_password"]
        if password is not None and other == password:
            r.skipped = True
            return r

        expected = {d["cr"]["metadata"]["name"]: (d["cr"], d["secret"], d["gen"]) for d in deps}
        secrets_in = {n: s for n, (_, s, _) in expected.items() if s is not None}
        secrets_in.update({k: v for k, v in case["extra_secrets"].items() if k not in expected})
        gens_in = {n: g for n, (_, _, g) in expected.items() if g is not None}
        gens_in.update({k: v for k, v in case["extra_generations"].items() if k not in expected})
        generations = gens_in if (gens_in or case["empty_generations_as"] == "dict") else None
        n_secret = sum(1 for d in deps if d["secret"] is not None)

        # ---- classes / non-triviality
        r.nontrivial = n_secret > 0
        cl = r.classes
        cl.append("encrypted" if password is not None else "plain")
        cl.append(f"deployments={min(len(deps), 3)}{'+' if len(deps) >= 3 else ''}")
        if n_secret:
            cl.append("has_secret")
        if any(d["secret"] == {} for d in deps):
            cl.append("empty_secret_dict")
        if any(d["gen"] == 0 for d in deps):
            cl.append("generation_zero")
        if any(d["gen"] is not None for d in deps):
            cl.append("has_generation")
        if any(a != b and (b.startswith(a) or b.endswith(a)) for a in names for b in names):
            cl.append("names_prefix_or_suffix_of_each_other")
        if any(t in n.split("-") for n in names for t in ("secret", "meta", "yaml", "json", "enc", "manifest", "unknown")):
            cl.append("name_contains_scheme_token")
        if any(n[-1] in ".yamlmetjsonc" for n in names):
            cl.append("name_ends_in_suffix_letter")
        strs = list(_walk_strings([d["cr"] for d in deps])) + list(_walk_strings([d["secret"] for d in deps if d["secret"]]))
        if any(s in _SPECIAL[:60] for s in strs):
            cl.append("yaml_significant_scalar")
        if any("\n" in s for s in strs):
            cl.append("multiline_string")
        if any(ord(c) > 127 for s in strs for c in s):
            cl.append("non_ascii_string")
        if any(ord(c) > 0xFFFF for s in strs for c in s):
            cl.append("non_bmp_string")
        if any(len(s) > 80 for s in strs):
            cl.append("string_over_80_columns")
        if password == "":
            cl.append("password_empty")
        if password is not None:
            cl.append(f"other_password={case['other_kind']}")

        # ---- create
        try:
            data = A.create_backup_archive(
                deployments=copy.deepcopy([d["cr"] for d in deps]),
                secrets=copy.deepcopy(secrets_in),
                namespace=case["namespace"],
                timestamp=case["timestamp"],
                encryption_password=password,
                generations=copy.deepcopy(generations),
            )
        except Exception as e:  # noqa: BLE001
            r.v("create_raised", mode="encrypted" if password is not None else "plain", error=type(e).__name__, detail=str(e)[:200])
            return r
        if not isinstance(data, (bytes, bytearray)):
            r.v("create_returned_wrong_type", got=type(data).__name__)
            return r

        # ---- read back with the right key material
        if password is None:
            reads = [("plain", None), ("plain_with_unrelated_password", other)]
        else:
            reads = [("encrypted", password)]
        declared_encrypted = password is not None
        for mode, pw in reads:
            try:
                contents = A.read_backup_archive(data, pw) if pw is not None else A.read_backup_archive(data)
            except Exception as e:  # noqa: BLE001
                r.v("read_raised", mode=mode, error=type(e).__name__, detail=str(e)[:200], n_secret=min(n_secret, 1))
                continue
            self._compare(r, contents, case, expected, mode)
            if password == "":
                declared_encrypted = bool(getattr(getattr(contents, "manifest", None), "encrypted", True))
                cl.append("empty_password_declared_encrypted" if declared_encrypted else "empty_password_declared_plain")

        # ---- confidentiality half: the archive is (declared) encrypted and holds at least one secret
        if declared_encrypted and n_secret > 0:
            try:
                got = A.read_backup_archive(data, None)
            except ValueError:
                cl.append("no_password=ValueError")
            except Exception as e:  # noqa: BLE001
                r.v("no_password_undocumented_exception", error=type(e).__name__, detail=str(e)[:200])
            else:
                leaked = any(e.secret is not None for e in got.entries)
                r.v("encrypted_archive_read_without_right_password", via="no_password", password_empty=(password == ""), secrets_returned=leaked)
            try:
                got = A.read_backup_archive(data, other)
            except Exception as e:  # noqa: BLE001
                cl.append(f"other_password_raises={type(e).__name__}")
            else:
                leaked = any(e.secret is not None for e in got.entries)
                r.v(
                    "encrypted_archive_read_without_right_password",
                    via="other_password",
                    password_empty=(password == ""),
                    secrets_returned=leaked,
                    other_kind=case["other_kind"],
                )
        return r


PROP = C33
