"""C14 — pending retries and waiter timeouts survive idle release and restart (virtual-horizon liveness on the server stack)."""

from __future__ import annotations

import asyncio
import json

from hypothesis import strategies as st

from .. import boot, genwf, srv
from ..boot import Runaway, VClock
from ..runner import CaseResult, Prop

LATE = 200.0  # instant of the late human reply (far beyond every timer of a case)


class C14(Prop):
    id = "C14"
    rule = (
        "cases = the deterministic server-stack workflow with a delayed retry (retry delay D in {2,5,20}) and/or a final "
        "wait_for_event(timeout=T in {0,4,15}; 0 = the non-blocking form, due at once) nobody answers in time (optionally preceded, in the same step, by a wait for a confirmation the harness gives once), served by the real WorkflowServer with a generated idle_timeout "
        "I in {1,3,6,10,30,never} (both sides of D and T), optionally a process stop + reboot over the same store at a generated virtual "
        "instant, and a late human reply at t=200 for waits without timeout (waits with a timeout get no reply at all). Oracle at the virtual horizon (>> D, T, I): the handler is "
        "terminal and 'completed'; every job was retried to completion; a wait whose timeout was due before the late reply ended with "
        "TimeoutError (the workflow records reply='timeout'), not with the late reply; a handler still 'running' is the violation. "
        "Non-trivial = an idle release or a restart happened strictly while a retry delay or a waiter timeout was pending."
    )
    assumptions = [
        "liveness is decided at a virtual horizon of 400+ seconds, beyond every finite timer of the case",
        "release/reload instants are observed by polling the idle-release decorator's active-run set every 0.25 virtual seconds",
        "a process stop = cancellation of every task of that server at one virtual instant; the store survives",
    ]
    budgets = {"quick": 600, "thorough": 3000}
    wall = {"quick": 45.0, "thorough": 900.0}

    def setup(self):
        srv.M()

    def strategy(self, tier):
        @st.composite
        def case(draw):
            c = draw(srv.det_strategy(timers=True, hitl=True))
            c["idle_timeout"] = draw(st.sampled_from([1, 3, 6, 10, 30, None]))
            c["restart_at"] = draw(st.sampled_from([None, None, None, 0.5, 1.5, 3.5, 6.5, 12.5, 25.5]))
            c["store"] = draw(st.sampled_from(["memory", "memory", "sqlite"]))
            return c

        return case()

    def run_case(self, case):
        case = json.loads(json.dumps(case))
        r = CaseResult()
        store_kind = case.pop("store")
        I = case.pop("idle_timeout")
        restart_at = case.pop("restart_at")
        ge = genwf.M()["ge"]
        log: dict = {"life": 0}
        obs = {"released": [], "reloaded": [], "restart": None, "row": None, "sent_reply": None, "reply_error": None, "pre_sent": None}
        horizon = 400.0 + 10 * sum(j["d"] * case["attempts"] for j in case["jobs"])

        async def main():
            rec = genwf.Rec({"ties": case["ties"], "ext": []})
            genwf.CUR = rec
            tmp = srv.tmp_root() if store_kind == "sqlite" else None
            try:
                store = srv.make_store(store_kind, tmp)
                idle = float(I) if I is not None else 1e9
                life = await srv.start_life(store, srv.det_factory(case, log), idle_timeout=idle)
                cur = {"life": life}
                hd = await life.server._service.start_workflow(life.wf, "h1", start_event=ge.GStart())
                run_id = hd.run_id

                async def monitor():
                    was = True
                    seen_life = life
                    while True:
                        await asyncio.sleep(0.25)
                        lf = cur["life"]
                        if lf is None or lf.dead:
                            continue
                        dec = lf.server._runtime._decorated
                        active = run_id in dec._active_run_ids
                        if lf is not seen_life:
                            # first sample of a new process life: a run that is simply not loaded (yet) was not "released" by it
                            seen_life = lf
                            was = active
                            continue
                        if was and not active:
                            obs["released"].append(VClock.t)
                        if active and not was:
                            obs["reloaded"].append(VClock.t)
                        was = active

                mon = asyncio.create_task(monitor())

                async def confirm_once():
                    # the human confirms once, one second after being asked the first time (through whichever server life is up)
                    while not log.get("pre_asked"):
                        await asyncio.sleep(0.25)
                    await asyncio.sleep(max(0.0, log["pre_asked"][0] + 1.0 - VClock.t))
                    for _ in range(40):
                        lf = cur["life"]
                        if lf is not None and not lf.dead:
                            try:
                                await lf.server._service.send_event("h1", ge.Reply2(key="pre"))
                                obs["pre_sent"] = VClock.t
                                return
                            except Exception as e:  # noqa: BLE001
                                obs["pre_error"] = repr(e)[:160]
                                return
                        await asyncio.sleep(0.25)

                conf = asyncio.create_task(confirm_once()) if case.get("pre_wait") else None
                harness = {mon, asyncio.current_task()} | ({conf} if conf is not None else set())
                if restart_at is not None:
                    await asyncio.sleep(max(0.0, restart_at - VClock.t))
                    row = await srv.handler_row(store, "h1")
                    if row is not None and row.status == "running":
                        await srv.kill_life(life, keep=harness)
                        obs["restart"] = VClock.t
                        log["life"] = 1
                        genwf.CUR = genwf.Rec({"ties": case["ties"], "ext": []})
                        life = await srv.start_life(store, srv.det_factory(case, log), idle_timeout=idle, keep=harness)
                        cur["life"] = life
                if case.get("wait") and case.get("wait_timeout") is None:
                    # only a wait WITHOUT timeout needs a human to end it; a wait with a timeout must end by itself
                    await asyncio.sleep(max(0.0, LATE - VClock.t))
                    row = await srv.handler_row(store, "h1")
                    if row is not None and row.status == "running":
                        try:
                            obs["sent_reply"] = VClock.t
                            await life.server._service.send_event("h1", ge.Reply(key="k"))
                        except Exception as e:  # noqa: BLE001
                            obs["reply_error"] = repr(e)[:160]
                row = await srv.wait_terminal(store, "h1", horizon - VClock.t if horizon > VClock.t else 1.0)
                obs["row"] = {"status": row.status if row else None, "result": srv.result_of(row), "error": row.error if row else None, "idle": bool(row and row.idle_since)}
                mon.cancel()
                if conf is not None:
                    conf.cancel()
                await asyncio.gather(mon, *([conf] if conf is not None else []), return_exceptions=True)
                await srv.kill_life(life)
            finally:
                srv.cleanup_tmp(tmp)
                genwf.CUR = None

        try:
            boot.run_virtual(main)
        except Runaway as e:
            r.v("runaway", detail=str(e)[:80])
            return r

        # ---- timers that were pending, from the body log
        D = case.get("retry_wait", 0)
        pend: list = []  # (from, to, kind)
        for e in log["work"]:
            if e["exit"] == "raised" and e["attempt"] + 1 < case["attempts"] and D > 0 and e["t_out"] is not None:
                pend.append((e["t_out"], e["t_out"] + D, "retry"))
        T = case.get("wait_timeout")
        asked = log.get("wait_at", [])  # the instant the (timed) wait was first registered
        if case.get("wait") and T is not None and asked:
            pend.append((asked[0], asked[0] + T, "waiter_timeout"))

        def pending_at(t):
            return sorted({k for a, b, k in pend if a < t <= b + 1e-6})  # a release at the very instant the timer is due still races it

        # a release is legitimate only after idle_timeout seconds without any activity of the run
        acts = sorted(
            [e["t_in"] for e in log["work"] + log.get("anon", [])] + [e["t_out"] for e in log["work"] + log.get("anon", []) if e["t_out"] is not None]
            + list(log.get("ask_in", [])) + [a["t"] for a in log.get("asked", [])] + [s_["t"] for s_ in log.get("start", [])] + list(log.get("pre_got", []))
            + ([obs["restart"]] if obs["restart"] is not None else [])
        )
        early = []
        if I is not None:
            for t in obs["released"]:
                before = [a for a in acts if a <= t - 0.25 + 1e-9]
                last = max(before) if before else 0.0
                # (a timer that really fired shows up as a body entry: the retried attempt or the resumed waiting step)
                if (t - 0.25) - last < float(I) - 0.5 - 1e-9:
                    early.append(round((t - 0.25) - last, 3))
        if early:
            r.v("run_released_before_idle_timeout_elapsed", idle_for=early[0], idle_timeout=I)
        rel_pending = sorted({k for t in obs["released"] for k in pending_at(t - 0.25)})  # the release happened at some instant of the last polling interval
        rst_pending = pending_at(obs["restart"]) if obs["restart"] is not None else []
        row = obs["row"] or {}
        in_flight_at_restart = obs["restart"] is not None and any(e["life"] == 0 and e["exit"] == "cancelled" for e in log["work"] + log.get("anon", []))
        # a harness send (the confirmation or the late reply) to a released run after which the run was never seen in memory again
        sends_ = [t for t in (obs.get("pre_sent"), obs["sent_reply"]) if t is not None]
        reload_failed = bool(sends_) and bool(obs["released"]) and row.get("status") == "running" and any(
            not any(t >= ts for t in obs["reloaded"]) and any(rel <= ts + 0.25 + 1e-9 for rel in obs["released"]) for ts in sends_
        )
        attrs = dict(timer_pending_at_release=bool(rel_pending), timer_pending_at_restart=bool(rst_pending), released=bool(obs["released"]), restarted=obs["restart"] is not None,
                     kinds=sorted(set(rel_pending) | set(rst_pending)), restart_with_step_in_flight=in_flight_at_restart, reload_on_reply_failed=reload_failed)
        timeout_due_first = bool(case.get("wait") and T is not None and asked and asked[0] + T < LATE - 1)
        exp_reply = None
        if case.get("wait"):
            exp_reply = "timeout" if timeout_due_first else "k"
        expected = srv.expected_result(case, exp_reply)
        if obs.get("pre_error"):
            r.v("confirmation_rejected", error=obs["pre_error"], **attrs)
        if obs["reply_error"]:
            r.v("late_reply_rejected", error=obs["reply_error"], **attrs)
        if row.get("status") == "running" or row.get("status") is None:
            r.v("handler_still_running_at_horizon", idle=row.get("idle"), **attrs)
        elif row.get("status") != "completed":
            r.v("handler_wrong_status", status=row.get("status"), error=str(row.get("error"))[:80], **attrs)
        elif srv.canon(row.get("result")) != srv.canon(expected):
            got = row.get("result") or {}
            field = next((k for k in ("ids", "reply", "store") if srv.canon(got.get(k)) != srv.canon(expected.get(k))), "other") if isinstance(got, dict) else "type"
            r.v("completed_with_wrong_result", field=field, got_reply=got.get("reply") if isinstance(got, dict) else None, want_reply=exp_reply, **attrs)
        if obs["released"]:
            r.classes.append("released")
        if obs["reloaded"]:
            r.classes.append("reloaded")
        if obs["restart"] is not None:
            r.classes.append("restarted")
        if rel_pending:
            r.classes.append("release_while_timer_pending")
        if rst_pending:
            r.classes.append("restart_while_timer_pending")
        if pend:
            r.classes.append("has_timer")
        if case.get("wait") and T == 0:
            r.classes.append("zero_wait_timeout")
        if case.get("pre_wait") and obs.get("pre_sent") is not None:
            r.classes.append("two_sequential_waits")
            if (obs["restart"] is not None and obs["restart"] > obs["pre_sent"]) or any(t > obs["pre_sent"] for t in obs["released"]):
                r.classes.append("restart_or_release_while_parked_on_second_wait")
        r.classes.append("status_" + str(row.get("status")))
        r.nontrivial = bool(rel_pending or rst_pending)
        r.sample = {"case": dict(case, store=store_kind, idle_timeout=I, restart_at=restart_at), "released": obs["released"][:3], "reloaded": obs["reloaded"][:3], "restart": obs["restart"], "status": row.get("status"), "work": [[e["idx"], e["life"], e["t_in"], e["t_out"], e["exit"]] for e in log["work"]][:12]}
        return r


PROP = C14
