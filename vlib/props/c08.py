"""C08 — exhausted failures route to the owning @catch_error handler within budget; same with validation disabled."""

from __future__ import annotations

import json

from hypothesis import strategies as st

from .. import genwf
from ..runner import CaseResult
from ._engine import EngineProp


class C08(EngineProp):
    id = "C08"
    rule = (
        "cases = programs with two failing main steps (b on E0 with 1-3 lineages, c on E1) under retry policies of 1-3 attempts, and a "
        "generated handler layout: none / wildcard / scoped to b / scoped to c / scoped+wildcard, max_recoveries 1..3, handler action in "
        "{re-emit the failed event (lineage re-entry), return StopEvent, swallow, raise}; failures last for a generated number of "
        "lineage generations. Every program is run with disable_validation=False and True, and on a second instance of the same workflow class, and the observable traces are compared. "
        "Non-trivial = some lineage entered a handler >=2 times, or the layout has both a scoped and a wildcard handler."
    )
    assumptions = [
        "lineage = chain of events linked by the harness 'parent' field (a handler re-emits the failed event as a child of it)",
        "reference router computed from the decorator metadata alone",
    ]
    add_fin = True
    budgets = {"quick": 500, "thorough": 3000}
    liveness = True  # an unbounded handler/step loop is a recovery-budget violation

    def strategy(self, tier):
        action = st.sampled_from(["resend", "resend", "stop", "swallow", "raise"])

        @st.composite
        def prog(draw):
            layout = draw(st.sampled_from(["none", "wild", "scoped_b", "scoped_c", "both", "both"]))
            nb = draw(st.integers(1, 3))
            steps = [
                {"name": "a", "accepts": ["GStart"], "workers": 1, "retry": None,
                 "acts": {"GStart": [["send", "E0", nb, None], ["send", "E1", draw(st.integers(0, 1)), None], ["ret", None]]}},
                {"name": "b", "accepts": ["E0"], "workers": draw(st.integers(1, 3)), "retry": {"n": draw(st.integers(1, 3)), "w": draw(st.sampled_from([0, 0, 1]))},
                 "acts": {"E0": [["sleep", draw(st.sampled_from([0, 1, 2]))], ["fail_gen", draw(st.sampled_from([None, 1, 2, 3])), "GenError"], ["ret", None]]}},
                {"name": "c", "accepts": ["E1"], "workers": 1, "retry": draw(st.sampled_from([None, {"n": 2, "w": 0}])),
                 "acts": {"E1": [["sleep", draw(st.sampled_from([0, 1, 3]))], ["fail_gen", draw(st.sampled_from([None, 1, 2])), "ValueError"], ["ret", None]]}},
            ]
            if steps[0]["acts"]["GStart"][1][2] == 0:
                steps[0]["acts"]["GStart"].pop(1)
                steps[0]["declares"] = ["E1"]

            def handler(name, for_steps):
                act = draw(action)
                acts = {"resend": [["resend_failed"], ["ret", None]], "stop": [["ret", "GStop"]], "swallow": [["ret", None]],
                        "raise": [["fail", None, "GenErrorB"], ["ret", None]]}[act]
                return {"name": name, "accepts": ["StepFailedEvent"], "role": "catch_error", "for_steps": for_steps,
                        "max_recoveries": draw(st.integers(1, 3)), "workers": 1, "retry": None,
                        "acts": {"StepFailedEvent": [["sleep", draw(st.sampled_from([0, 0, 1]))]] + acts, }, "declares": ["E0", "E1"], "action": act}

            if layout == "wild":
                steps.append(handler("hw", None))
            elif layout == "scoped_b":
                steps.append(handler("hb", ["b"]))
            elif layout == "scoped_c":
                steps.append(handler("hc", ["c"]))
            elif layout == "both":
                steps.append(handler("hb", ["b"]))
                steps.append(handler("hw", None))
            steps.append({"name": "fin", "accepts": ["Fin"], "workers": 1, "retry": None, "acts": {"Fin": [["ret", "GStop"]]}})
            return {"steps": steps, "timeout": None, "ext": [], "ties": draw(st.lists(st.integers(0, 5), max_size=5)), "layout": layout}

        return prog()

    def trace(self, rec):
        tr = []
        for inv in rec.inv:
            e = inv.get("sfe")
            tr.append((inv["step"], inv["type"], inv["uid"] if not e else ("sfe", e["step_name"], e["input_uid"], e["attempts"]), inv["attempt"], inv["exit"]))
        out = rec.outcome
        tail = (out["kind"], type(out.get("exc")).__name__ if out.get("exc") is not None else None, str(out.get("exc"))[:40] if out.get("exc") is not None else None)
        return tr, tail

    def run_case(self, case):
        spec = self.prepare(case)
        r = CaseResult()
        from ..boot import Runaway

        try:
            rec = genwf.run_case_program(json.loads(json.dumps(spec)), probe=False)
            rec2 = genwf.run_case_program(json.loads(json.dumps(spec)), probe=False, wf_kwargs={"disable_validation": True})
            # a SECOND instance of the very same workflow class (validation enabled), as a server creating one instance per request does
            rec3 = genwf.run_case_program(
                json.loads(json.dumps(spec)), probe=False,
                wf_factory=lambda s_, rt_: type(rec.wf)(timeout=s_.get("timeout"), runtime=rt_),
            )
        except Runaway:
            r.v("unbounded_reentry")
            r.nontrivial = True
            return r
        self.oracle(spec, rec, r, mode="validated")
        self.oracle(spec, rec2, r, mode="validation_disabled")
        self.oracle(spec, rec3, r, mode="second_instance_of_the_class")
        t3 = self.trace(rec3)
        if self.trace(rec) != t3:
            r.v("trace_differs_on_second_instance_of_the_class", outcome_first=self.trace(rec)[1][0], outcome_second=t3[1][0],
                handler_entries_first=sum(1 for x in self.trace(rec)[0] if x[1] == "StepFailedEvent"),
                handler_entries_second=sum(1 for x in t3[0] if x[1] == "StepFailedEvent"))
        t1, t2 = self.trace(rec), self.trace(rec2)
        if t1 != t2:
            r.v("trace_differs_with_validation_disabled", outcome_validated=t1[1][0], outcome_disabled=t2[1][0],
                handler_entries_validated=sum(1 for x in t1[0] if x[1] == "StepFailedEvent"),
                handler_entries_disabled=sum(1 for x in t2[0] if x[1] == "StepFailedEvent"))
        r.sample = {"spec": case, "outcome": rec.outcome["kind"], "handler_entries": sum(1 for i in rec.inv if "sfe" in i)}
        return r

    def oracle(self, spec, rec, r: CaseResult, mode="validated") -> None:
        handlers = {s["name"]: s for s in spec["steps"] if s.get("role") == "catch_error"}
        scoped = {t: h["name"] for h in handlers.values() for t in (h["for_steps"] or [])}
        wild = [h["name"] for h in handlers.values() if h["for_steps"] is None]
        retry_n = {s["name"]: (s.get("retry") or {}).get("n", 1) if s.get("retry") else 1 for s in spec["steps"]}

        def owner(step):
            if step in handlers:
                return None
            return scoped.get(step) or (wild[0] if wild else None)

        def root(u):
            seen = 0
            while seen < 50:
                em = rec.emits.get(u)
                if em is None:
                    return u
                # the harness stores parent in the event itself; look at the delivered fields
                parent = self._parent.get(u)
                if parent is None or rec.emits.get(parent, {}).get("type") == "GStart":
                    return u
                u = parent
                seen += 1
            return u

        self._parent = {}
        for inv in rec.inv:
            p = inv["fields"].get("parent") if inv.get("fields") else None
            if inv["uid"] is not None and p is not None:
                self._parent[inv["uid"]] = p
        for inv in rec.inv:
            e = inv.get("sfe")
            if e and e["input_uid"] is not None:
                pass
        entries: dict[tuple[str, int], int] = {}
        exhausted = []  # (step, uid, exc) in order
        by_key: dict[tuple[str, int], list] = {}
        for inv in rec.inv:
            by_key.setdefault((inv["step"], inv["uid"]), []).append(inv)
        for inv in rec.inv:
            if inv["exit"] == "raised" and "sfe" not in inv and inv["attempt"] + 1 >= retry_n.get(inv["step"], 1):
                exhausted.append(inv)
        for inv in rec.inv:
            e = inv.get("sfe")
            if not e:
                continue
            h = inv["step"]
            if e["step_name"] in handlers:
                r.v("handler_entered_for_handler_step", handler=h, failed=e["step_name"], mode=mode)
            if owner(e["step_name"]) != h:
                r.v("wrong_handler", handler=h, failed=e["step_name"], owner=owner(e["step_name"]), mode=mode)
            k = (h, root(e["input_uid"]))
            entries[k] = entries.get(k, 0) + 1
            if entries[k] > handlers[h]["max_recoveries"]:
                r.v("budget_exceeded", handler=h, entries=entries[k], max_recoveries=handlers[h]["max_recoveries"], mode=mode)
            if e["attempts"] != retry_n.get(e["step_name"], 1):
                r.v("step_failed_event_attempts", got=e["attempts"], want=retry_n.get(e["step_name"], 1), mode=mode)
        # every exhausted failure with an owner and budget left reaches the handler, unless the run ended first
        ended_at = rec.t_result if rec.t_result is not None else float("inf")
        handled = {(i["sfe"]["step_name"], i["sfe"]["input_uid"]) for i in rec.inv if "sfe" in i}
        out = rec.outcome
        quiesced = out["kind"] == "result" and (out["stop"].result or {}).get("by") == "fin"
        for inv in exhausted:
            o = owner(inv["step"])
            if o is None:
                # must fail the run with this exception (first such failure wins)
                if out["kind"] not in ("failed",) and inv["t_out"] < ended_at:
                    r.v("unowned_failure_did_not_fail_run", step=inv["step"], outcome=out["kind"], mode=mode)
                continue
            rt = root(inv["uid"])
            used = entries.get((o, rt), 0)
            # a routed failure may still sit in the handler's queue (handlers have one worker) when the run ends
            # early; only a run that ended after quiescence must have entered the handler for every routed failure
            if (inv["step"], inv["uid"]) not in handled and (quiesced or used >= handlers[o]["max_recoveries"]) and inv["t_out"] < ended_at:
                # allowed only when the budget along this lineage was already used up -> then the run must have failed
                if used < handlers[o]["max_recoveries"]:
                    r.v("owned_failure_not_routed", step=inv["step"], owner=o, used=used, mode=mode)
                elif out["kind"] != "failed":
                    r.v("budget_exhausted_but_run_not_failed", step=inv["step"], outcome=out["kind"], mode=mode)
        if out["kind"] == "failed":
            ex = out["exc"]
            fe = [e for _, e in rec.stream if type(e).__name__ == "WorkflowFailedEvent"]
            if len(fe) != 1:
                r.v("failed_event_count", got=len(fe), mode=mode)
            else:
                if type(fe[0].exception) is not type(ex) or str(fe[0].exception) != str(ex):
                    r.v("failed_event_exception_differs", mode=mode)
                # the exception is the original one of some step/handler execution
                origin = [i for i in rec.inv if i["exit"] == "raised" and i.get("exc") is ex]
                if not origin:
                    r.v("run_failed_with_foreign_exception", exc=repr(ex)[:60], mode=mode)
                elif origin[0]["step"] != fe[0].step_name:
                    r.v("failed_event_step_name", got=fe[0].step_name, want=origin[0]["step"], mode=mode)
                else:
                    o_inv = origin[0]
                    if "sfe" not in o_inv:
                        # the original exception is the one of the exhausting (last) attempt
                        if o_inv["attempt"] + 1 < retry_n.get(o_inv["step"], 1):
                            r.v("failed_with_exception_of_earlier_attempt", step=o_inv["step"], attempt=o_inv["attempt"], mode=mode)
                        o = owner(o_inv["step"])
                        if o is not None and entries.get((o, root(o_inv["uid"])), 0) < handlers[o]["max_recoveries"]:
                            r.v("failed_with_budget_left", step=o_inv["step"], owner=o,
                                used=entries.get((o, root(o_inv["uid"])), 0), max_recoveries=handlers[o]["max_recoveries"], mode=mode)
        if mode == "validated":
            r.classes.append("layout_" + spec.get("layout", "?"))
            r.classes.append("outcome_" + out["kind"])
            if any(v >= 2 for v in entries.values()):
                r.classes.append("lineage_reentered")
            r.nontrivial = any(v >= 2 for v in entries.values()) or spec.get("layout") == "both"


PROP = C08
