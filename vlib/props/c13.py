"""C13 — a server restart at any persisted point resumes without losing work (every tick prefix of each program)."""

from __future__ import annotations

import asyncio
import json

from hypothesis import strategies as st

from .. import boot, genwf, srv
from ..boot import Runaway, VClock
from ..runner import CaseResult, Prop

MAX_TICKS = 70


def _tname(ev: dict) -> str:
    return (ev or {}).get("qualified_name", "").rsplit(".", 1)[-1]


def _idx(ev: dict):
    return ((ev or {}).get("value") or {}).get("_data", {}).get("idx")


def unpersisted_by_prefix(ticks: list[dict]) -> list[bool]:
    """For every prefix length k (1-based): does some step invocation whose completion is inside the prefix have an output
    (returned event, ctx.send_event event or retry re-queue) that is only persisted later?  Ground truth from the tick log of
    the uninterrupted run plus the emitter relation of the deterministic workflow family (E1<-start / failed work, E2<-work, E3<-gather, E0<-start, E4<-anon)."""
    n = len(ticks)
    sr = []  # (index, step, idx, has_result_event, failed)
    for i, t in enumerate(ticks, 1):
        if t.get("type") == "step_result":
            res = t.get("result") or []
            has = any(x.get("type") == "result" and x.get("result") is not None for x in res)
            failed = any(x.get("type") == "failed" for x in res)
            sr.append((i, t.get("step_name"), _idx(t.get("event")), has, failed))
    emit: list = []  # (add index, emitter index)
    for a, t in enumerate(ticks, 1):
        if t.get("type") != "add_event":
            continue
        name = _tname(t.get("event"))
        idx = _idx(t.get("event"))
        att = t.get("attempts") or 0
        e = None
        if name == "E1" and att == 0:
            e = next((i for (i, st_, _x, _h, _f) in sr if st_ == "start"), None)
        elif name == "E1":
            fails = [i for (i, st_, x, _h, f) in sr if st_ == "work" and x == idx and f]
            e = fails[att - 1] if len(fails) >= att else None
        elif name == "E2":
            e = next((i for (i, st_, x, h, _f) in sr if st_ == "work" and x == idx and h), None)
        elif name == "E3":
            prev = [i for (i, st_, _x, h, _f) in sr if st_ == "gather" and h and i < a]
            e = prev[-1] if prev else None
        elif name == "E0":  # payload-less items: all sent by the start step
            e = next((i for (i, st_, _x, _h, _f) in sr if st_ == "start"), None)
        elif name == "E4":  # the j-th payload-less output belongs to the j-th completion of the `anon` step (FIFO: equal-valued)
            j = sum(1 for t2 in ticks[: a - 1] if t2.get("type") == "add_event" and _tname(t2.get("event")) == "E4")
            outs = [i for (i, st_, _x, h, _f) in sr if st_ == "anon" and h]
            e = outs[j] if j < len(outs) else None
        if e is not None:
            emit.append((a, e))
    return [any(a > k and e <= k for a, e in emit) for k in range(1, n + 1)]


def total_work(c: dict) -> float:
    """Upper bound on the virtual seconds any one process life of the program spends in step bodies: every sleep of every step
    invocation that can happen in one life, laid end to end (each attempt number of a job runs at most once per life; a step
    that was in progress at the crash is re-run from its start as the same attempt).  The run's critical path is a chain of
    such sleeps, so a life whose timeout exceeds this bound (plus the human's answer latency) cannot be ended by the timeout."""
    return float(sum(j["d"] * c["attempts"] for j in c["jobs"]) + (c.get("anon") or 0) * (c.get("anon_d") or 0) + (c.get("gather_post") or 0) + (c.get("ask_post") or 0))


def _horizon(c: dict) -> float:
    """How long the harness waits for a terminal status: far beyond the program's work and, with a run timeout, far beyond a full
    fresh timeout counted from any restart."""
    work = sum(j["d"] * c["attempts"] for i, j in enumerate(c["jobs"]) if not (c.get("tmo") == "stuck_job" and i == c.get("stuck_idx")))
    return 60.0 + 6 * work + 3 * (c.get("wf_timeout") or 0.0)


class C13(Prop):
    id = "C13"
    level = "fault_enumeration"
    rule = (
        "cases = a deterministic workflow (1-4 jobs fanned out with ctx.send_event and/or a returned event to a retrying worker step "
        "with num_workers 1..3, idempotent state writes, a collect_events gatherer, a final step returning the StopEvent; in some cases one job "
        "exhausts its retries so the run ends failed, or the run is cancelled through the service at a generated instant; in about half of the cases the "
        "workflow has a run timeout (Workflow(timeout=T)): either the uninterrupted run ends BY it (one job's step body sleeps just past T or practically for "
        "ever, or the final step waits for a human answer that never comes; a generated cancel request may still end it first) or T lies just above the work any one process life can need, so the run ends just "
        "before it; in one case of three the final step waits for one or two human answers in sequence, given by a harness task that outlives the processes and re-sends what the step bodies still wait for) served by the "
        "real WorkflowServer runtime chain over a MemoryWorkflowStore or SqliteWorkflowStore. The uninterrupted run gives the expected "
        "result and its persisted tick count K. Then for EVERY k in 1..K the run is repeated with a store that freezes after the k-th "
        "persisted tick; at that moment every task of the process is killed, all in-memory objects are dropped, a new server with a new "
        "workflow instance is booted over the same store, and its start-up resume runs. Oracle at the virtual horizon: if the persisted "
        "prefix already ends the run, the handler is finalised with the matching status/result and no step body runs again; otherwise the "
        "handler is 'completed' with the uninterrupted result (still 'running' = lost work). For a run that only its timeout can end, start-up resume re-enters "
        "the control loop, which arms the run timeout afresh and in full from the restart, so the restarted run may end later than the uninterrupted one but must "
        "end the same way: 'failed' with a timed-out error; still 'running' once virtual time is far beyond restart + T (the harness waits 60 s + 3T + six times the "
        "other work) is the violation resumed_run_never_timed_out; ending 'completed'/'cancelled' (resumed_run_not_ended_by_timeout) or failed for another reason (resumed_run_failed_not_by_timeout) are violations of their own kinds. Non-trivial = a crash point strictly inside "
        "the run at which the engine held work that exists only in memory (un-executed commands of the last tick, buffered or mailbox ticks)."
    )
    assumptions = [
        "a process stop = cancellation of every task of that server at one virtual instant, nothing flushed; the store object (memory) or file (SQLite) is what survives",
        "retry delays and waiter timeouts are 0/absent in this family (timers across restarts are property C14); the only timer is the workflow's run timeout, whose re-arming at start-up resume is what the by-timeout cases observe (when the restarted run times out is not compared, only that it does)",
        "for the ends-before-its-timeout cases T = (sum of every sleep one process life can execute, each retry attempt once) + 2 s per human answer + 0.25..3.25 s, so no life, restarted or not, is entitled to time out; T is never a multiple of 0.5 s, so it cannot tie with a step finishing or with a poll of the human",
        "the crash point is the return of the k-th append_tick, i.e. after the tick is durable and before its commands run",
        "the SQLite store's tick-replay page size (module constant _TICK_PAGE_SIZE = 100) is set by the harness to a generated small value in some cases, so that page boundaries fall inside the short histories; the paging code itself is the repository's",
    ]
    budgets = {"quick": 60, "thorough": 600}
    wall = {"quick": 60.0, "thorough": 900.0}
    min_nontrivial_frac = 0.02

    def setup(self):
        srv.M()

    def strategy(self, tier):
        def mk(p):
            c = dict(p[0], store=p[1], end_mode=p[2], cancel_at=p[3], page=p[5])
            if c.get("wait") or c.get("pre_wait"):
                c["end_mode"] = "stop"  # the human-in-the-loop cases all run to their StopEvent
            if c["end_mode"] == "cancel":
                # make sure the cancel request can land while the run is still working: one job that takes a while
                c["jobs"] = [dict(j) for j in c["jobs"]]
                c["jobs"][0]["d"] = max(c["jobs"][0]["d"], 3)
            if c["end_mode"] == "fail":
                # one job fails on every attempt: the run ends with a step failure after exhausting the retry budget
                c["jobs"] = [dict(j) for j in c["jobs"]]
                c["jobs"][p[4] % len(c["jobs"])]["fail"] = c["attempts"]
            # ---- the workflow's own run timeout (Workflow(timeout=T)); T is never a multiple of 0.5 so it cannot tie with a step
            # finishing (integer sleeps) or with the human's half-second polls
            tmo, t_pick, past = p[6]
            hitl = bool(c.get("wait") or c.get("pre_wait"))
            c["tmo"] = None
            if tmo == "ends_by_timeout":
                if c["end_mode"] != "cancel":
                    # (a cancel request may still come first, at its generated instant: then the log ends with the cancel tick, and
                    # every restart inside the run - the request died with the process - is again a run only its timeout can end)
                    c["end_mode"] = "stop"
                c["jobs"] = [dict(j) for j in c["jobs"]]
                for j in c["jobs"]:
                    j["fail"] = min(j["fail"], c["attempts"] - 1)
                if hitl and p[4] % 2 == 0:
                    # the final step waits for a human answer that never comes; the timeout is long enough for all the other work
                    c["tmo"] = "no_reply"
                    c["wf_timeout"] = total_work(c) + [1.25, 2.25, 4.25, 7.25][t_pick]
                else:
                    # one job's step body sleeps past the timeout (just past it, or practically for ever)
                    c["tmo"] = "stuck_job"
                    c["wf_timeout"] = [1.25, 2.25, 4.25, 7.25][t_pick]
                    c["stuck_idx"] = (p[4] // 2) % len(c["jobs"])
                    c["jobs"][c["stuck_idx"]]["d"] = (int(c["wf_timeout"]) + 1) if past == "just_past" else 1000
            elif tmo == "ends_before_timeout":
                # every life of this program (the uninterrupted one and any restarted one) needs at most total_work(c) virtual seconds:
                # the timeout is just above that, so neither may end by it
                c["tmo"] = "before"
                c["wf_timeout"] = total_work(c) + (2.0 * (bool(c.get("wait")) + bool(c.get("pre_wait")))) + [0.25, 0.25, 1.25, 3.25][t_pick]
            return c

        return st.tuples(
            st.one_of(srv.det_strategy(timers=False, hitl=False), srv.det_strategy(timers=False, hitl=False), srv.det_strategy(timers=False, hitl=True)),
            st.sampled_from(["memory", "memory", "sqlite"]),
            st.sampled_from(["stop", "stop", "stop", "fail", "cancel", "cancel"]),
            st.sampled_from([0.5, 1.5, 2.5, 3.5, 5.5]),
            st.integers(0, 3),
            # page size of the SQLite store's tick replay (the module constant _TICK_PAGE_SIZE, 100 in the repository): small values
            # put page boundaries (exact multiples included) inside these 10-70 tick histories
            st.sampled_from([None, 2, 3, 5, 8]),
            # run-timeout dimension: none / the uninterrupted run ends BY the timeout / it ends just BEFORE the timeout
            st.tuples(
                st.sampled_from([None, None, None, "ends_by_timeout", "ends_by_timeout", "ends_by_timeout", "ends_before_timeout"]),
                st.integers(0, 3),
                st.sampled_from(["just_past", "never"]),
            ),
        ).map(mk)

    # one life-1 run up to an optional crash point; returns info
    async def _first_life(self, case, store_kind, tmpdir, crash_after, log, probe_rec):
        ge = genwf.M()["ge"]
        real = srv.make_store(store_kind, tmpdir)
        proxy = srv.StoreProxy(real, crash_after_tick=crash_after)
        if (case.get("wait") or case.get("pre_wait")) and case.get("tmo") != "no_reply":
            # the human: created before the first life so that it is not part of any process; answers what the workflow is (still)
            # waiting for, as told by the step bodies themselves, once per half second through whichever server life is up
            cur = log.setdefault("_cur", {})

            async def human():
                while True:
                    await asyncio.sleep(0.5)
                    lf = cur.get("life")
                    if lf is None or lf.dead:
                        continue
                    try:
                        if log.get("pre_asked") and not log.get("pre_got"):
                            await lf.server._service.send_event("h1", ge.Reply2(key="pre"))
                        elif log.get("wait_at") and not log.get("asked"):
                            await lf.server._service.send_event("h1", ge.Reply(key="k"))
                    except Exception:  # noqa: BLE001  (handler already terminal, or the process is going down)
                        pass

            log["_human"] = asyncio.create_task(human())
        life = await srv.start_life(proxy, srv.det_factory(case, log))
        if "_cur" in log:
            log["_cur"]["life"] = life
        hd = await life.server._service.start_workflow(life.wf, "h1", start_event=ge.GStart())
        if case.get("end_mode") == "cancel":

            async def canceller():
                await asyncio.sleep(case["cancel_at"])
                if not proxy.crashed.is_set():
                    try:
                        await life.server._service.cancel_handler("h1")
                    except Exception:  # noqa: BLE001
                        pass

            asyncio.create_task(canceller())
        return real, proxy, life, hd

    @staticmethod
    async def _stop_human(log):
        h = log.pop("_human", None)
        if h is not None:
            h.cancel()
            await asyncio.gather(h, return_exceptions=True)

    def run_case(self, case):
        case = json.loads(json.dumps(case))
        store_kind = case.pop("store")
        page = case.pop("page", None)
        import sys as _sys

        sqmod = _sys.modules.get("llama_agents.server._store.sqlite.sqlite_workflow_store")
        page_saved = getattr(sqmod, "_TICK_PAGE_SIZE", None) if sqmod is not None else None
        if page is not None and store_kind == "sqlite" and page_saved is not None:
            sqmod._TICK_PAGE_SIZE = page
            r_page = page
        else:
            r_page = None
        try:
            return self._run_case(case, store_kind, r_page)
        finally:
            if page_saved is not None:
                sqmod._TICK_PAGE_SIZE = page_saved

    def _run_case(self, case, store_kind, page):
        r = CaseResult()
        end_mode = case.get("end_mode", "stop")
        expected = srv.expected_result(case, "k" if case.get("wait") else None)
        horizon = _horizon(case)
        tmo = case.get("tmo")
        T = case.get("wf_timeout")
        by_timeout = tmo in ("stuck_job", "no_reply")  # the uninterrupted run is ended by the workflow's run timeout
        stats = {"prefixes": 0, "inside": 0, "unpersisted": 0, "finalised": 0, "idle_marked": 0, "clean": 0}
        out = {"K": 0}

        async def reference():
            log: dict = {}
            rec = genwf.Rec({"ties": case["ties"], "ext": []})
            rec.probe = True
            genwf.CUR = rec
            tmp = srv.tmp_root() if store_kind == "sqlite" else None
            try:
                t0 = VClock.t
                real, proxy, life, hd = await self._first_life(case, store_kind, tmp, None, log, rec)
                row = await srv.wait_terminal(proxy, "h1", horizon)
                out["ref_status"] = row.status if row else None
                out["ref_result"] = srv.result_of(row)
                out["ref_error"] = row.error if row else None
                ends = [t for (t, _rid, stt) in proxy.status_writes if stt == (row.status if row else None)]
                out["ref_dur"] = (ends[-1] - t0) if ends else None
                out["ref_waiting"] = bool(log.get("wait_at") or log.get("pre_asked"))
                out["K"] = proxy.n_ticks
                ticks = await real.get_ticks(hd.run_id)
                out["tick_types"] = [t.tick_data.get("type") for t in ticks]
                out["unpersisted"] = unpersisted_by_prefix([t.tick_data for t in ticks])
                # un-persisted in-memory work right after each tick (probe snapshots are taken after the tick's commands ran)
                pend = []
                for tk in rec.ticks:
                    buf = [b for b in tk["buffer"] if b in ("TickAddEvent", "TickStepResult")]
                    pend.append(bool(buf) or bool(tk["mailbox"]) or bool([h for h in tk["heap"] if h[1] in ("TickAddEvent", "TickWaiterTimeout")]))
                out["pending_after"] = pend
                await srv.kill_life(life)
            finally:
                await self._stop_human(log)
                srv.cleanup_tmp(tmp)
                genwf.CUR = None

        async def crash_at(k):
            log: dict = {"life": 0}
            rec = genwf.Rec({"ties": case["ties"], "ext": []})
            genwf.CUR = rec
            tmp = srv.tmp_root() if store_kind == "sqlite" else None
            res = {}
            try:
                real, proxy, life, hd = await self._first_life(case, store_kind, tmp, k, log, rec)
                done, _ = await asyncio.wait({asyncio.ensure_future(proxy.crashed.wait())}, timeout=horizon)
                if not done:
                    res["no_crash"] = True
                for t in done:
                    t.cancel()
                await srv.kill_life(life)
                row0 = await srv.handler_row(real, "h1")
                res["idle_marked"] = row0 is not None and row0.idle_since is not None
                res["status_at_crash"] = row0.status if row0 else None
                n_work0 = len(log["work"])
                log["life"] = 1
                # ---- second life over the same store
                rec2 = genwf.Rec({"ties": case["ties"], "ext": []})
                genwf.CUR = rec2
                res["t_restart"] = VClock.t
                life2 = await srv.start_life(real, srv.det_factory(case, log))
                if "_cur" in log:
                    log["_cur"]["life"] = life2
                row = await srv.wait_terminal(real, "h1", horizon)
                res["waited"] = VClock.t - res["t_restart"]
                res["status"] = row.status if row else None
                res["result"] = srv.result_of(row)
                res["error"] = row.error if row else None
                res["reentered"] = len(log["work"]) - n_work0 + len([s for s in log.get("start", []) if s["life"] == 1])
                await srv.kill_life(life2)
            finally:
                await self._stop_human(log)
                srv.cleanup_tmp(tmp)
                genwf.CUR = None
            return res

        try:
            boot.run_virtual(reference)
        except Runaway as e:
            raise RuntimeError(f"inconclusive reference: {e}") from None
        ref_status = out.get("ref_status")
        if by_timeout:
            # the stuck step / the unanswered wait never ends: the only way out is the run timeout, as the log's last tick
            ok_ref = ref_status == "failed" and (out.get("tick_types") or [None])[-1] == "timeout" and "timed out" in str(out.get("ref_error"))
            if end_mode == "cancel" and ref_status == "cancelled" and (out.get("tick_types") or [None])[-1] == "cancel_run":
                ok_ref = True  # cancelled before the timeout was due
        elif end_mode == "fail":
            ok_ref = ref_status == "failed"
        elif end_mode == "cancel":
            ok_ref = ref_status in ("cancelled", "completed")  # the run may finish before the cancel instant
        else:
            ok_ref = ref_status == "completed"
        if not ok_ref or (ref_status == "completed" and srv.canon(out.get("ref_result")) != srv.canon(expected)):
            r.v("uninterrupted_run_wrong", status=ref_status, end_mode=end_mode, run_timeout=tmo, error=str(out.get("ref_error"))[:80], result=srv.canon(out.get("ref_result"))[:120])
            return r
        K = out["K"]
        if K > MAX_TICKS:
            r.skipped = True
            return r
        types = out["tick_types"]
        for k in range(1, K + 1):
            holder = {}

            async def one(k=k):
                holder["res"] = await crash_at(k)

            try:
                boot.run_virtual(one)
            except Runaway as e:
                r.v("runaway_after_restart", k=k, detail=str(e)[:80])
                continue
            res = holder["res"]
            stats["prefixes"] += 1
            last = types[k - 1] if k - 1 < len(types) else None
            ends_run = k == K  # the last persisted tick is the one that produced the StopEvent
            unpersisted = bool(out["unpersisted"][k - 1]) if k - 1 < len(out["unpersisted"]) else False
            if not ends_run:
                stats["inside"] += 1
            if unpersisted:
                stats["unpersisted"] += 1
            if res.get("idle_marked"):
                stats["idle_marked"] += 1
            if not unpersisted and not res.get("idle_marked"):
                stats["clean"] += 1
            attrs = dict(last_tick=last, unpersisted_work_at_crash=unpersisted, marked_idle_at_crash=bool(res.get("idle_marked")), store=store_kind, end_mode=end_mode)
            if tmo:
                attrs["run_timeout"] = tmo
            if res.get("no_crash"):
                r.v("crash_point_not_reached", k=k, K=K)
                continue
            if ends_run:
                stats["finalised"] += 1
                if res["status"] != ref_status or (ref_status == "completed" and srv.canon(res["result"]) != srv.canon(expected)):
                    r.v("ended_run_not_finalised", status=res["status"], want=ref_status, **attrs)
                if res["reentered"]:
                    r.v("ended_run_reexecuted_steps", n=res["reentered"], **attrs)
                continue
            if by_timeout:
                # interior crash point of a run that nothing but its timeout can end: start-up resume re-enters the control loop
                # (workflow.run(ctx=...) -> _ControlLoopRunner.run), which arms the run timeout afresh, in full, from that moment.
                # So the restarted run may end LATER than the uninterrupted one (up to restart + T), but it must end, and like the
                # uninterrupted run: failed by the timeout.  (Work lost at the crash cannot change that: the run is stuck anyway.)
                stats["by_timeout_inside"] = stats.get("by_timeout_inside", 0) + 1
                tattrs = dict(attrs, wf_timeout=T, waited_after_restart=res.get("waited"))
                if res["status"] == "running":
                    r.v("resumed_run_never_timed_out", **tattrs)
                elif res["status"] != "failed":
                    # (own kind: work lost at the crash - the known finding on resumed_run_wrong_status - cannot make a stuck run end otherwise)
                    r.v("resumed_run_not_ended_by_timeout", status=res["status"], want="failed", error=str(res.get("error"))[:80], **tattrs)
                elif "timed out" not in str(res.get("error")):
                    r.v("resumed_run_failed_not_by_timeout", error=str(res.get("error"))[:80], **tattrs)
                continue
            # interior crash point: a failing workflow fails again; a run whose cancel request died with the process simply completes
            want_inside = "failed" if end_mode == "fail" else "completed"
            if res["status"] == "running":
                r.v("resumed_run_lost_work", **attrs)
            elif res["status"] != want_inside:
                r.v("resumed_run_wrong_status", status=res["status"], want=want_inside, error=str(res.get("error"))[:80], **attrs)
            elif want_inside == "completed" and srv.canon(res["result"]) != srv.canon(expected):
                r.v("resumed_run_wrong_result", **attrs)
        r.classes.append("store_" + store_kind)
        if case.get("wait") or case.get("pre_wait"):
            r.classes.append("human_in_the_loop" + ("_two_sequential_waits" if case.get("wait") and case.get("pre_wait") else ""))
        if page is not None:
            r.classes.append("sqlite_small_tick_pages")
            if K and K % page == 0:
                r.classes.append("history_exact_multiple_of_page")
        r.classes.append("end_" + end_mode + "_" + str(ref_status))
        if by_timeout:
            if ref_status == "cancelled":
                r.classes.append("run_stuck_until_its_timeout_but_cancelled_first")
            else:
                r.classes.append("run_ends_by_timeout")
                r.classes.append("run_ends_by_timeout_" + ("waiting_for_event_that_never_comes" if tmo == "no_reply" and out.get("ref_waiting") else "step_sleeping_past_it"))
            if stats.get("by_timeout_inside"):
                r.classes.append("restart_inside_run_that_ends_by_timeout")
        elif tmo == "before":
            r.classes.append("run_ends_before_its_timeout")
            if out.get("ref_dur") is not None and T - out["ref_dur"] <= 1.5:
                r.classes.append("run_ends_within_1.5s_of_its_timeout")
        if stats["unpersisted"]:
            r.classes.append("crash_with_unpersisted_work")
        if stats["idle_marked"]:
            r.classes.append("crash_while_marked_idle")
        self._prefixes = getattr(self, "_prefixes", 0) + stats["prefixes"]
        self._clean = getattr(self, "_clean", 0) + stats["clean"]
        r.nontrivial = stats["unpersisted"] > 0
        r.sample = {"case": dict(case, store=store_kind), "K": K, "tick_types": types, "stats": stats}
        return r

    def extra_coverage(self):
        return {"crash_points_enumerated": getattr(self, "_prefixes", 0), "crash_points_outside_known_findings": getattr(self, "_clean", 0)}


PROP = C13
