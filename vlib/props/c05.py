"""C05 — retry budgets count attempts and elapsed time correctly (reference timeline simulation)."""

from __future__ import annotations

import json

from hypothesis import strategies as st

from .. import genwf
from ..runner import CaseResult, Prop
from .c07 import C07, _stop_tree

EPS = 1e-6

_retry_leaf = st.one_of(
    st.tuples(st.just("type"), st.lists(st.sampled_from(["ValueError", "KeyError", "RuntimeError", "LookupError", "Exception"]), min_size=1, max_size=2)),
    st.tuples(st.just("not_type"), st.lists(st.sampled_from(["ValueError", "KeyError", "LookupError"]), min_size=1, max_size=2)),
    st.tuples(st.just("match"), st.sampled_from([":0$", ":[01]$", ":[0-2]$", "^a:", "nomatch"])),
    st.tuples(st.just("not_match"), st.sampled_from([":2$", ":[3-9]$", "nomatch"])),
    st.tuples(st.just("always"), st.none()),
    st.tuples(st.just("always"), st.none()),
)


def _retry_tree():
    return st.one_of(
        st.none(),
        st.recursive(
            _retry_leaf.map(list),
            lambda ch: st.tuples(st.sampled_from(["any", "all"]), st.lists(ch, min_size=1, max_size=3), st.sampled_from(["fn", "op"])).map(list),
            max_leaves=4,
        ),
    )


class C05(Prop):
    id = "C05"
    rule = (
        "cases = one failing step with a generated policy: stop tree over stop_after_attempt(n in -1..8), stop_after_delay, "
        "stop_before_delay, |, &; optional retry-predicate tree over exception type and message; wait_fixed(w); the body sleeps s "
        "virtual seconds and raises on the first k attempts (or always); run on two clock configurations of the runtime adapter "
        "(BasicRuntime default, epoch get_now). Non-trivial = >=2 executions and a time-based stop condition in the policy."
    )
    assumptions = [
        "reference = simulation of the documented semantics on the virtual timeline (true elapsed = virtual time since the first attempt started); tolerance 1e-6 s",
        "always-failing cases are bounded by or-ing stop_after_attempt(8) into the generated stop tree",
        "wait strategy restricted to wait_fixed so that C06's indexing question cannot influence this check",
    ]
    budgets = {"quick": 600, "thorough": 4000}
    wall = {"quick": 70.0, "thorough": 900.0}

    def setup(self):
        genwf.M()
        self.h = C07()
        self.h.setup()

    def strategy(self, tier):
        return st.fixed_dictionaries(
            {
                "stop": _stop_tree(),
                "retry": _retry_tree(),
                "w": st.sampled_from([0, 0, 0.5, 1, 2, 3, 10]),
                "s": st.sampled_from([0, 0, 1, 2, 5]),
                "k": st.one_of(st.none(), st.integers(0, 5)),
                "exc": st.sampled_from(["ValueError", "KeyError", "RuntimeError"]),
                "clock": st.sampled_from(["mono", "epoch"]),
            }
        )

    def build_policy(self, case):
        rp = genwf.M()["rp"]
        stop_tree = case["stop"]
        if case["k"] is None:
            stop_tree = ["any", [stop_tree, ["attempt", 8]], "fn"]
        stop = self.h.mk_stop(stop_tree)
        retry = self.h.mk_retry(case["retry"]) if case["retry"] is not None else None
        return rp.retry_policy(retry=retry, wait=rp.wait_fixed(case["w"]), stop=stop), stop_tree

    def reference(self, case, stop_tree):
        """Documented semantics on the true timeline -> list of (T_start, F_fail|None)."""
        from .c07 import EXC_TYPES

        t = 0.0
        T0 = 0.0
        out = []
        j = 0
        while True:
            start = t
            t += case["s"]
            fails = case["k"] is None or j < case["k"]
            if not fails:
                out.append((start, None))
                return out, "success"
            out.append((start, t))
            failures = j + 1
            exc = EXC_TYPES.get(case["exc"], RuntimeError)(f"a:1:{j}")
            if case["retry"] is not None and not self.h.expect_retry(case["retry"], exc):
                return out, "not_retryable"
            elapsed = t - T0
            if self.h.expect_stop(stop_tree, failures, elapsed, float(case["w"])):
                return out, "stopped"
            t += case["w"]
            j += 1
            if j > 40:
                return out, "runaway"

    def run_case(self, case):
        case = json.loads(json.dumps(case))
        r = CaseResult()
        policy, stop_tree = self.build_policy(case)
        spec = {
            "steps": [
                {
                    "name": "a",
                    "accepts": ["GStart"],
                    "workers": 1,
                    "retry": {"custom": True},
                    "acts": {"GStart": [["sleep", case["s"]], ["fail", case["k"], case["exc"]], ["ret", "GStop"]]},
                }
            ],
            "timeout": None,
            "ext": [],
            "ties": [],
        }
        from ..boot import Runaway

        try:
            rec = genwf.run_case_program(
                spec, probe=False, runtime=genwf.make_runtime(case["clock"]), retry_builder=lambda s: policy if s else None, horizon=5000.0
            )
        except Runaway:
            # every generated policy stops after at most 8 attempts: unbounded re-execution is a budget violation
            r.v("unbounded_executions", clock=case["clock"])
            r.nontrivial = True
            return r
        ref, why = self.reference(case, stop_tree)
        r.classes += ["clock_" + case["clock"], "ref_" + why]
        invs = [i for i in rec.inv if i["step"] == "a"]
        clock = case["clock"]
        if len(invs) != len(ref):
            r.v("execution_count", got=len(invs), want=len(ref), why=why, clock=clock, time_based=self._time_based(stop_tree))
        for j, inv in enumerate(invs[: len(ref)]):
            ri = inv["ri"]
            if ri.retry_number != j:
                r.v("retry_number", attempt=j, got=ri.retry_number, clock=clock)
            if abs(inv["t_in"] - ref[j][0]) > EPS and len(invs) == len(ref):
                r.v("attempt_start_time", attempt=j, got=inv["t_in"], want=ref[j][0], clock=clock)
            want_el = inv["t_in"] - invs[0]["t_in"]
            if abs(ri.elapsed_seconds - want_el) > EPS:
                r.v("retry_info_elapsed", attempt=j, got=min(ri.elapsed_seconds, 1e12), want=want_el, clock=clock)
            if j == 0:
                if ri.last_exception is not None or ri.last_failed_at is not None:
                    r.v("retry_info_first_attempt_not_clean", clock=clock)
            else:
                prev = invs[j - 1].get("exc")
                if ri.last_exception is None or type(ri.last_exception) is not type(prev) or str(ri.last_exception) != str(prev):
                    r.v("retry_info_last_exception", attempt=j, clock=clock)
                if ri.last_failed_at is None or abs(ri.last_failed_at.timestamp() - (1_700_000_000.0 + invs[j - 1]["t_out"])) > 1e-3:
                    r.v("retry_info_last_failed_at", attempt=j, clock=clock)
        # terminal report
        if rec.outcome["kind"] == "failed":
            fe = [e for _, e in rec.stream if type(e).__name__ == "WorkflowFailedEvent"]
            if len(fe) != 1:
                r.v("failed_event_count", got=len(fe))
            else:
                true_elapsed = invs[-1]["t_out"] - invs[0]["t_in"]
                if fe[0].attempts != len(invs):
                    r.v("failed_event_attempts", got=fe[0].attempts, want=len(invs), clock=clock)
                if abs(fe[0].elapsed_seconds - true_elapsed) > EPS:
                    r.v("failed_event_elapsed", got=min(fe[0].elapsed_seconds, 1e12), want=true_elapsed, clock=clock)
            if why == "success":
                r.v("failed_but_reference_succeeds", clock=clock)
        elif rec.outcome["kind"] == "result":
            if why != "success":
                r.v("succeeded_but_reference_fails", why=why, clock=clock)
        else:
            r.v("unexpected_outcome", outcome=rec.outcome["kind"], clock=clock)
        tb = self._time_based(stop_tree)
        if tb:
            r.classes.append("time_based_stop")
        r.nontrivial = len(ref) >= 2 and tb
        r.sample = {"case": case, "executions": len(invs), "reference": why}
        return r

    def _time_based(self, node):
        if node[0] in ("any", "all"):
            return any(self._time_based(c) for c in node[1])
        return node[0] in ("delay", "delay_td", "before")


PROP = C05
