"""C05 — retry budgets count attempts and elapsed time correctly (reference timeline simulation)."""

from __future__ import annotations

import json

from hypothesis import strategies as st

from .. import genwf
from ..runner import CaseResult, Prop
from .c07 import C07, _stop_tree

EPS = 1e-6

_retry_leaf = st.one_of(
    st.tuples(st.just("type"), st.lists(st.sampled_from(["ValueError", "KeyError", "RuntimeError", "LookupError", "Exception"]), min_size=1, max_size=2)),
    st.tuples(st.just("not_type"), st.lists(st.sampled_from(["ValueError", "KeyError", "LookupError"]), min_size=1, max_size=2)),
    st.tuples(st.just("match"), st.sampled_from([":0$", ":[01]$", ":[0-2]$", "^a:", "nomatch"])),
    st.tuples(st.just("not_match"), st.sampled_from([":2$", ":[3-9]$", "nomatch"])),
    st.tuples(st.just("always"), st.none()),
    st.tuples(st.just("always"), st.none()),
)


def _retry_tree():
    return st.one_of(
        st.none(),
        st.recursive(
            _retry_leaf.map(list),
            lambda ch: st.tuples(st.sampled_from(["any", "all"]), st.lists(ch, min_size=1, max_size=3), st.sampled_from(["fn", "op"])).map(list),
            max_leaves=4,
        ),
    )


class C05(Prop):
    id = "C05"
    rule = (
        "cases = one failing step with a generated policy: stop tree over stop_after_attempt(n in -1..8), stop_after_delay, "
        "stop_before_delay, |, &; optional retry-predicate tree over exception type and message; wait_fixed(w); the body sleeps s "
        "virtual seconds and raises on the first k attempts (or always); run on two clock configurations of the runtime adapter "
        "(BasicRuntime default, epoch get_now). Non-trivial = >=2 executions of one event and (a time-based stop condition in the policy or a retry that had to wait for a slot)."
    )
    assumptions = [
        "reference = simulation of the documented semantics on the virtual timeline (true elapsed = virtual time since the first attempt started); tolerance 1e-6 s",
        "always-failing cases are bounded by or-ing stop_after_attempt(8) into the generated stop tree",
        "wait strategy restricted to wait_fixed so that C06's indexing question cannot influence this check",
    ]
    budgets = {"quick": 2000, "thorough": 8000}
    wall = {"quick": 70.0, "thorough": 900.0}

    def setup(self):
        genwf.M()
        self.h = C07()
        self.h.setup()

    def strategy(self, tier):
        from .c08 import C08

        # one case in five: a program of the C08 family (failing steps under retry policies, @catch_error handlers that swallow, re-emit,
        # stop or raise): what a HANDLER's own retry_info() and its own WorkflowFailedEvent report
        return st.one_of(self._policy_cases(), self._policy_cases(), self._policy_cases(), self._policy_cases(), C08().strategy(tier).map(lambda p: {"handler_program": p}))

    def _policy_cases(self):
        return st.fixed_dictionaries(
            {
                "stop": _stop_tree(),
                "retry": _retry_tree(),
                "w": st.sampled_from([0, 0, 0.5, 1, 2, 3, 10]),
                "s": st.sampled_from([0, 0, 1, 2, 5]),
                "k": st.one_of(st.none(), st.integers(0, 5)),
                "exc": st.sampled_from(["ValueError", "KeyError", "RuntimeError"]),
                "clock": st.sampled_from(["mono", "epoch"]),
                "m": st.sampled_from([1, 1, 2, 3]),
                "workers": st.sampled_from([1, 1, 2]),
                "ties": st.lists(st.integers(0, 3), max_size=4),
            }
        )

    def build_policy(self, case):
        rp = genwf.M()["rp"]
        stop_tree = case["stop"]
        if case["k"] is None:
            stop_tree = ["any", [stop_tree, ["attempt", 8]], "fn"]
        stop = self.h.mk_stop(stop_tree)
        retry = self.h.mk_retry(case["retry"]) if case["retry"] is not None else None
        return rp.retry_policy(retry=retry, wait=rp.wait_fixed(case["w"]), stop=stop), stop_tree

    def reference(self, case, stop_tree):
        """Documented semantics on the true timeline -> list of (T_start, F_fail|None)."""
        from .c07 import EXC_TYPES

        t = 0.0
        T0 = 0.0
        out = []
        j = 0
        while True:
            start = t
            t += case["s"]
            fails = case["k"] is None or j < case["k"]
            if not fails:
                out.append((start, None))
                return out, "success"
            out.append((start, t))
            failures = j + 1
            exc = EXC_TYPES.get(case["exc"], RuntimeError)(f"a:1:{j}")
            if case["retry"] is not None and not self.h.expect_retry(case["retry"], exc):
                return out, "not_retryable"
            elapsed = t - T0
            if self.h.expect_stop(stop_tree, failures, elapsed, float(case["w"])):
                return out, "stopped"
            t += case["w"]
            j += 1
            if j > 40:
                return out, "runaway"

    def run_handler_program(self, case):
        """retry_info() / failed-event bookkeeping of @catch_error handlers: a handler invocation is a first execution of its own."""
        from ..boot import Runaway
        from .c08 import C08

        r = CaseResult()
        spec = C08().prepare(case["handler_program"])
        try:
            rec = genwf.run_case_program(json.loads(json.dumps(spec)), probe=False)
        except Runaway:
            raise RuntimeError("inconclusive: handler program did not end") from None
        r.classes.append("handler_program")
        handlers = {s_["name"] for s_ in spec["steps"] if s_.get("role") == "catch_error"}
        n_h = 0
        for inv in rec.inv:
            if inv["step"] not in handlers:
                continue
            n_h += 1
            ri = inv["ri"]
            # handlers of this family have no retry policy: every handler invocation is attempt 0 of a new event
            if ri.retry_number != 0 or ri.last_exception is not None or ri.last_failed_at is not None or abs(ri.elapsed_seconds) > 1e-6:
                r.v("handler_retry_info_not_clean", retry_number=ri.retry_number, last_exception=repr(ri.last_exception)[:40], elapsed=round(min(ri.elapsed_seconds, 1e9), 6))
                break
        out = rec.outcome
        if out["kind"] == "failed":
            fe = [e for _, e in rec.stream if type(e).__name__ == "WorkflowFailedEvent"]
            if len(fe) == 1 and fe[0].step_name in handlers:
                # the handler ran once (no retry policy) and failed: one attempt, elapsed = its own duration
                hinv = [i for i in rec.inv if i["step"] == fe[0].step_name and i["exit"] == "raised"]
                if fe[0].attempts != 1:
                    r.v("failed_event_attempts", got=fe[0].attempts, want=1, handler_step=True)
                if hinv:
                    own = hinv[-1]["t_out"] - hinv[-1]["t_in"]
                    if abs(fe[0].elapsed_seconds - own) > 1e-3:
                        r.v("failed_event_elapsed", got=round(min(fe[0].elapsed_seconds, 1e9), 6), want=round(own, 6), handler_step=True)
                r.classes.append("handler_step_failed_the_run")
        if n_h:
            r.classes.append("handler_entered")
        r.nontrivial = n_h > 0
        r.sample = {"spec": case, "handler_entries": n_h, "outcome": out["kind"]}
        return r

    def run_case(self, case):
        from ..boot import Runaway
        from .c07 import EXC_TYPES

        case = json.loads(json.dumps(case))
        if "handler_program" in case:
            return self.run_handler_program(case)
        r = CaseResult()
        policy, stop_tree = self.build_policy(case)
        m, workers = case.get("m", 1), case.get("workers", 1)
        spec = {
            "steps": [
                {"name": "a", "accepts": ["GStart"], "workers": 1, "retry": None, "acts": {"GStart": [["send", "E0", m, None], ["ret", None]]}},
                {"name": "b", "accepts": ["E0"], "workers": workers, "retry": {"custom": True},
                 "acts": {"E0": [["sleep", case["s"]], ["fail", case["k"], case["exc"]], ["ret", None]]}},
                {"name": "fin", "accepts": ["Fin"], "workers": 1, "retry": None, "acts": {"Fin": [["ret", "GStop"]]}},
            ],
            "timeout": None,
            "ext": [[4000.0, "send", "Fin", None, {}]],
            "ties": case.get("ties", []),
        }
        clock = case["clock"]
        try:
            rec = genwf.run_case_program(
                spec, probe=False, runtime=genwf.make_runtime(clock), retry_builder=lambda s_: policy if s_ else None, horizon=5000.0
            )
        except Runaway:
            # every generated policy stops after at most 8 attempts: unbounded re-execution is a budget violation
            r.v("unbounded_executions", clock=clock)
            r.nontrivial = True
            return r
        r.classes += ["clock_" + clock, f"events_{m}", f"workers_{workers}"]
        w = float(case["w"])
        by_uid: dict[int, list] = {}
        for inv in rec.inv:
            if inv["step"] == "b":
                by_uid.setdefault(inv["uid"], []).append(inv)
        ended_at = rec.t_result if rec.t_result is not None else float("inf")
        expected_fail = []  # (time, uid) of reference-decided exhaustion
        contended = False
        for uid, invs in by_uid.items():
            T0 = invs[0]["t_in"]
            for j, inv in enumerate(invs):
                ri = inv["ri"]
                if ri.retry_number != j:
                    r.v("retry_number", attempt=j, got=ri.retry_number, clock=clock)
                want_el = inv["t_in"] - T0
                if abs(ri.elapsed_seconds - want_el) > EPS:
                    r.v("retry_info_elapsed", attempt=j, got=min(ri.elapsed_seconds, 1e12), want=want_el, clock=clock)
                if j == 0:
                    if ri.last_exception is not None or ri.last_failed_at is not None:
                        r.v("retry_info_first_attempt_not_clean", clock=clock)
                else:
                    prev = invs[j - 1].get("exc")
                    if ri.last_exception is None or type(ri.last_exception) is not type(prev) or str(ri.last_exception) != str(prev):
                        r.v("retry_info_last_exception", attempt=j, got=repr(ri.last_exception)[:40], clock=clock, queued=inv["t_in"] > invs[j - 1]["t_out"] + w + EPS)
                    if ri.last_failed_at is None or abs(ri.last_failed_at.timestamp() - (1_700_000_000.0 + invs[j - 1]["t_out"])) > 1e-3:
                        r.v("retry_info_last_failed_at", attempt=j, clock=clock)
                    gap = inv["t_in"] - invs[j - 1]["t_out"]
                    if gap < w - EPS:
                        r.v("retry_before_wait_elapsed", attempt=j, gap=gap, wait=w, clock=clock)
                    if gap > w + EPS:
                        contended = True
                        if m == 1:
                            r.v("attempt_start_time", attempt=j, gap=gap, wait=w, clock=clock)
                # reference decision after this attempt
                if inv["exit"] != "raised":
                    if inv["exit"] == "returned" and j + 1 < len(invs):
                        r.v("executed_again_after_success", uid=uid, clock=clock)
                    continue
                failures = j + 1
                exc = inv["exc"]
                elapsed = inv["t_out"] - T0
                retryable = case["retry"] is None or self.h.expect_retry(case["retry"], exc)
                stop = self.h.expect_stop(stop_tree, failures, elapsed, w)
                should_retry = retryable and not stop
                has_next = j + 1 < len(invs)
                if should_retry and not has_next and inv["t_out"] + w < ended_at - EPS and rec.outcome["kind"] != "failed":
                    r.v("missing_retry", failures=failures, elapsed=elapsed, clock=clock, time_based=self._time_based(stop_tree))
                if should_retry and not has_next and rec.outcome["kind"] == "failed" and rec.outcome["exc"] is exc:
                    r.v("stopped_with_budget_left", failures=failures, elapsed=elapsed, clock=clock, time_based=self._time_based(stop_tree))
                if not should_retry:
                    expected_fail.append((inv["t_out"], uid, inv))
                    if has_next:
                        r.v("retried_beyond_budget", failures=failures, elapsed=elapsed, retryable=retryable, clock=clock)
        # terminal report
        out = rec.outcome
        if expected_fail:
            if out["kind"] != "failed":
                r.v("succeeded_but_reference_fails", clock=clock)
            else:
                origin = [x for x in expected_fail if x[2].get("exc") is out["exc"]]
                fe = [e for _, e in rec.stream if type(e).__name__ == "WorkflowFailedEvent"]
                if len(fe) != 1:
                    r.v("failed_event_count", got=len(fe))
                elif origin:
                    _, uid, inv = origin[0]
                    invs = by_uid[uid]
                    true_elapsed = inv["t_out"] - invs[0]["t_in"]
                    if fe[0].attempts != len(invs):
                        r.v("failed_event_attempts", got=fe[0].attempts, want=len(invs), clock=clock)
                    if abs(fe[0].elapsed_seconds - true_elapsed) > EPS:
                        r.v("failed_event_elapsed", got=min(fe[0].elapsed_seconds, 1e12), want=true_elapsed, clock=clock)
                else:
                    r.v("failed_with_unexpected_exception", exc=repr(out["exc"])[:60], clock=clock)
        elif out["kind"] != "result":
            r.v("failed_but_reference_succeeds", outcome=out["kind"], clock=clock)
        tb = self._time_based(stop_tree)
        if tb:
            r.classes.append("time_based_stop")
        if contended:
            r.classes.append("retry_waited_for_a_slot")
        nexec = max((len(v) for v in by_uid.values()), default=0)
        r.nontrivial = nexec >= 2 and (tb or contended)
        r.sample = {"case": case, "executions_per_event": [len(v) for v in by_uid.values()], "outcome": out["kind"]}
        return r

    def _time_based(self, node):
        if node[0] in ("any", "all"):
            return any(self._time_based(c) for c in node[1])
        return node[0] in ("delay", "delay_td", "before")


PROP = C05
