"""C35 — step lifecycle telemetry on the stream is balanced and ordered."""

from __future__ import annotations

from hypothesis import strategies as st

from .. import genwf
from ..runner import CaseResult
from ._engine import EngineProp, step_state_events


class C35(EngineProp):
    id = "C35"
    rule = (
        "cases = C01's program family (fan-out, retries, collect, waits, Ask returns) ended by a Fin-triggered StopEvent after "
        "quiescence (strict mode), plus programs ended early by StopEvent races, step failures, timeouts or cancellation "
        "(prefix mode: open RUNNING allowed). Non-trivial = some event had to wait for capacity (a PREPARING change) and >=2 "
        "slots of one step were RUNNING at once."
    )
    assumptions = ["stream observed through handler.stream_events(expose_internal=True)", "virtual time / generated ties as in C01"]
    liveness = False

    def strategy(self, tier):
        strict = genwf.program_strategy(collect=True, waits=True, retries=True, ask=True, ask_consumer=True)
        early = genwf.program_strategy(collect=True, waits=True, retries=True, ask=True, ask_consumer=True, stop_mode="any", cancel=True, timeouts=True)
        return st.one_of(strict, strict, early)

    def oracle(self, spec, rec, r: CaseResult) -> None:
        out = rec.outcome
        strict = out["kind"] == "result" and (out["stop"].result or {}).get("by") == "fin"
        r.classes.append("strict" if strict else "ended_early_" + out["kind"])
        sse = step_state_events(rec)
        open_: dict[tuple[str, str], bool] = {}
        n_run: dict[str, int] = {}
        n_not: dict[str, int] = {}
        max_par = 0
        for _, _, e in sse:
            st_ = e.step_state.value
            key = (e.name, e.worker_id)
            if st_ == "running":
                if open_.get(key):
                    r.v("running_twice_without_not_running", step=e.name)
                open_[key] = True
                n_run[e.name] = n_run.get(e.name, 0) + 1
                max_par = max(max_par, sum(1 for k, v in open_.items() if v and k[0] == e.name))
            elif st_ == "not_running":
                if not open_.get(key):
                    r.v("not_running_without_running", step=e.name, worker=e.worker_id)
                open_[key] = False
                n_not[e.name] = n_not.get(e.name, 0) + 1
        # every event that had to wait for capacity announced PREPARING: the step queues seen after each tick (probe) hold the events
        # that were waiting at that moment; (event, attempt) pairs seen waiting are a lower bound on the PREPARING changes of the step
        waited: dict[str, set] = {}
        for tk in rec.ticks:
            for name, w in tk["workers"].items():
                for q in w["queue"]:
                    waited.setdefault(name, set()).add(tuple(q))
        prep_by_step: dict[str, int] = {}
        for _, _, e in sse:
            if e.step_state.value == "preparing":
                prep_by_step[e.name] = prep_by_step.get(e.name, 0) + 1
        for name, ws in waited.items():
            if prep_by_step.get(name, 0) < len(ws):
                r.v("waited_for_capacity_without_preparing", step=name, waited=len(ws), preparing=prep_by_step.get(name, 0))
        if any(len(ws) >= 2 for ws in waited.values()):
            r.classes.append("two_or_more_events_waited_on_one_step")
        # every PREPARING is followed by a distinct later RUNNING of the same step (strict mode)
        n_prep = sum(1 for _, _, e in sse if e.step_state.value == "preparing")
        if strict:
            avail: dict[str, int] = {}
            for _, _, e in reversed(sse):
                st_ = e.step_state.value
                if st_ == "running":
                    avail[e.name] = avail.get(e.name, 0) + 1
                elif st_ == "preparing":
                    if avail.get(e.name, 0) <= 0:
                        r.v("preparing_never_running", step=e.name)
                    else:
                        avail[e.name] -= 1
            for name in n_run:
                if n_run[name] != n_not.get(name, 0):
                    r.v("running_not_closed", step=name, running=n_run[name], not_running=n_not.get(name, 0))
            # body entries vs RUNNING: every started invocation announced; re-runs of collect do not announce again
            has_collect = {s["name"] for s in spec["steps"] if any(a[0] == "collect" for acts in s["acts"].values() for a in acts)}
            entries: dict[str, int] = {}
            for inv in rec.inv:
                entries[inv["step"]] = entries.get(inv["step"], 0) + 1
            for name, n in entries.items():
                if name in has_collect:
                    if n < n_run.get(name, 0):
                        r.v("running_without_invocation", step=name, entries=n, running=n_run.get(name, 0))
                elif n != n_run.get(name, 0):
                    r.v("invocations_vs_running", step=name, entries=n, running=n_run.get(name, 0))
        # Ask returned by a step is published exactly once
        asks = {u for u, em in rec.emits.items() if em["type"] == "Ask" and em["via"] == "ret"}
        returned = {inv.get("out") for inv in rec.inv if inv.get("out_type") == "Ask" and inv["exit"] == "returned"}
        seen: dict[int, int] = {}
        for _, e in rec.stream:
            if type(e).__name__ == "Ask":
                u = e.get("uid")
                seen[u] = seen.get(u, 0) + 1
        for u in returned & asks:
            if strict and seen.get(u, 0) != 1:
                r.v("input_required_publish_count", got=seen.get(u, 0))
            elif seen.get(u, 0) > 1:
                r.v("input_required_publish_count", got=seen.get(u, 0))
        if returned:
            r.classes.append("ask_returned")
            if any("Ask" in s["accepts"] or any(a[0] == "wait" and a[1] == "Ask" for acts in s["acts"].values() for a in acts) for s in spec["steps"]):
                r.classes.append("ask_returned_and_consumed_inside")
        if n_prep:
            r.classes.append("preparing")
        r.nontrivial = n_prep > 0 and max_par >= 2


PROP = C35
