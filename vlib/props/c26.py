"""C26 — idle release and resume never lose an event or double-run a workflow (in-process server stack)."""

from __future__ import annotations

import asyncio
import json

from hypothesis import strategies as st

from .. import boot, genwf, srv
from ..boot import Runaway, VClock
from ..runner import CaseResult, Prop

POLL = 0.05


class C26(Prop):
    id = "C26"
    rule = (
        "cases = a human-in-the-loop run on the real in-process server stack that idles between external Reply events, with idle_timeout "
        "I in {1,2,5}; bursts of 1-3 concurrent send_event calls are placed at generated offsets {-0.5, 0, +0.5, +2} around the instant "
        "the idle release is due (idle_start + I), so that senders race the release decision and each other's reload; each reply takes "
        "generated work time on 1-2 workers, and in one case of three hands every reply on to a second, slower step with ctx.send_event (so the run announces idleness while that event is still in its mailbox); the store is wrapped so that each store call first yields to the event loop a generated number of times (as a store with real I/O does). Oracle: every accepted send is processed exactly once (the run completes at the virtual "
        "horizon with exactly the sent replies in its state); the idle-release decorator aborts the run only at instants at which no step "
        "body is in flight; the control-loop life spans recorded per run id never overlap (at no time two live control loops for one "
        "run) and every release is followed by at most one new control loop before the next release. Non-trivial = a burst of sends "
        "landed within 0.5 s of a release or at least two concurrent sends hit a released run. A quarter of the cases instead drive the real "
        "SqliteRunLifecycleLock (the DBOS stack's lifecycle lock, on the real migration DDL) with groups of 1-4 concurrent create / begin_release / "
        "complete_release / try_begin_resume(crash_timeout) calls over two run ids and virtual sleeps around the crash timeout: every group must be "
        "explained by some serial order of a 3-state reference model (return values and stored states), and no two resumers of one group are granted ownership."
    )
    assumptions = [
        "the DBOS half is covered only as far as it runs without the DBOS engine: the real SqliteRunLifecycleLock is driven directly (asyncpg is an import-only stand-in), and one case in four runs the real DBOSIdleReleaseDecorator over an EMULATED DBOS base with an in-memory lifecycle lock (vlib/dbos_idle.py: what is emulated and which regions are excluded is listed there); the DBOS engine, Postgres and the Postgres lock are not run",
        "abort instants are observed by a harness-side wrapper over IdleReleaseDecorator._abort_inner_run; control-loop life spans by a harness-side wrapper over _ControlLoopRunner.run",
        "the number of sends equals the number of replies the workflow needs, so a lost send is decided as 'not completed at the virtual horizon'",
    ]
    budgets = {"quick": 700, "thorough": 4000}
    wall = {"quick": 60.0, "thorough": 900.0}

    def setup(self):
        srv.M()
        import os

        import llama_agents.dbos.journal.lifecycle as lc

        boot.patch_datetime(lc)
        self.lc = lc
        from .. import dbos_idle

        dbos_idle.setup()
        self.dbos = dbos_idle
        self.lc_ddl = open(os.path.join(boot.REPO, "packages/llama-agents-dbos/src/llama_agents/dbos/_store/sqlite/migrations/0001_init.sql")).read()

    def strategy(self, tier):
        @st.composite
        def case(draw):
            bursts = [{"off": draw(st.sampled_from([-0.5, 0.0, 0.0, 0.5, 0.5, 2.0])), "n": draw(st.sampled_from([1, 1, 2, 3]))} for _ in range(draw(st.integers(1, 4)))]
            return {
                "bursts": bursts,
                "total": sum(b["n"] for b in bursts),
                "work": draw(st.sampled_from([0, 0, 0.5, 1, 3])),
                "workers": draw(st.integers(1, 2)),
                "idle_timeout": draw(st.sampled_from([1, 2, 5])),
                "fanout": draw(st.integers(0, 2)) == 0,
                "post_work": draw(st.sampled_from([0, 1, 3, 6])),
                "yields": draw(st.one_of(st.just([]), st.lists(st.integers(0, 3), min_size=1, max_size=6))),
                "store": draw(st.sampled_from(["memory", "memory", "sqlite"])),
                "ties": draw(st.lists(st.integers(0, 7), max_size=4)),
            }

        @st.composite
        def lock_case(draw):
            op = st.one_of(
                st.tuples(st.just("create")),
                st.tuples(st.just("begin_release")),
                st.tuples(st.just("begin_release")),
                st.tuples(st.just("complete_release")),
                st.tuples(st.just("resume"), st.sampled_from([None, 5, 5, 30])),
                st.tuples(st.just("resume"), st.sampled_from([None, 5, 5, 30])),
            )
            steps = []
            template = [("create",), ("begin_release",), ("complete_release",), ("resume", 5)]
            guided = draw(st.booleans())
            for i in range(draw(st.integers(1, 10))):
                ops = [[draw(st.sampled_from(["r0", "r0", "r1"]))] + list(draw(op)) for _ in range(draw(st.sampled_from([1, 1, 2, 3, 4])))]
                if guided:  # walk the state machine so that released runs and competing resumers actually occur
                    ops[0] = ["r0"] + list(template[i % 4])
                    if i % 4 == 3:
                        ops.append(["r0", "resume", draw(st.sampled_from([None, 5, 30]))])
                steps.append({"ops": ops, "sleep": draw(st.sampled_from([0, 0, 1, 4, 6, 31]))})
            return {"kind": "lock", "steps": steps}

        from .. import dbos_idle

        # one case in four: the real DBOSIdleReleaseDecorator over an emulated DBOS base, with bursts of concurrent senders
        return st.one_of(case(), case(), lock_case(), dbos_idle.strategy(tier, bursts=True).map(lambda c: {"dbos": c}))

    # ------------------------------------------------------------------ DBOS lifecycle lock (real SqliteRunLifecycleLock)
    def _run_lock_case(self, case):
        import itertools
        import os
        import sqlite3

        r = CaseResult()
        lc = self.lc
        obs = []

        async def main():
            tmp = srv.tmp_root()
            try:
                db = os.path.join(tmp, "lc.db")
                conn = sqlite3.connect(db)
                conn.executescript(self.lc_ddl)
                conn.commit()
                conn.close()
                lock = lc.SqliteRunLifecycleLock(db)

                async def call(op):
                    run, name = op[0], op[1]
                    if name == "create":
                        return await lock.create(run)
                    if name == "begin_release":
                        return await lock.begin_release(run)
                    if name == "complete_release":
                        return await lock.complete_release(run)
                    res = await lock.try_begin_resume(run, crash_timeout_seconds=op[2])
                    return res.value if res is not None else None

                for stp in case["steps"]:
                    t = VClock.t
                    results = await asyncio.gather(*[call(op) for op in stp["ops"]], return_exceptions=True)
                    rows = {}
                    c2 = sqlite3.connect(db)
                    for run_id, state, upd in c2.execute("SELECT run_id, state, updated_at FROM run_lifecycle"):
                        rows[run_id] = state
                    c2.close()
                    obs.append({"t": t, "ops": stp["ops"], "results": [repr(x) if isinstance(x, BaseException) else x for x in results], "rows": rows})
                    if stp["sleep"]:
                        await asyncio.sleep(stp["sleep"])
            finally:
                srv.cleanup_tmp(tmp)

        boot.run_virtual(main)

        def apply(model, op, t):
            run, name = op[0], op[1]
            st_, upd = model.get(run, (None, None))
            if name == "create":
                model[run] = ("active", t)
                return None
            if name == "begin_release":
                if st_ == "active":
                    model[run] = ("releasing", t)
                    return True
                return False
            if name == "complete_release":
                if st_ == "releasing":
                    model[run] = ("released", t)
                return None
            ct = op[2]
            if st_ is None or st_ == "active":
                return None
            if st_ == "released" or (st_ == "releasing" and ct is not None and t - upd > ct):
                model[run] = ("active", t)
                return "released"
            return "releasing"

        model: dict = {}
        grants = 0
        contended = False
        for o in obs:
            ok = None
            n = len(o["ops"])
            if n > 1:
                contended = True
            for perm in itertools.permutations(range(n)):
                m2 = dict(model)
                res = [None] * n
                for i in perm:
                    res[i] = apply(m2, o["ops"][i], o["t"])
                if res == o["results"] and {k: v[0] for k, v in m2.items()} == o["rows"]:
                    ok = m2
                    break
            if ok is None:
                r.v("lifecycle_lock_not_linearizable", ops=[x[1] for x in o["ops"]], results=o["results"], rows=o["rows"], model={k: v[0] for k, v in model.items()})
                break
            model = ok
            grants += sum(1 for x in o["results"] if x == "released")
            # at most one resumer is granted ownership per group acting on a released run
            for run in {x[0] for x in o["ops"]}:
                g = sum(1 for x, res_ in zip(o["ops"], o["results"]) if x[0] == run and res_ == "released")
                rel = sum(1 for x in o["ops"] if x[0] == run and x[1] in ("complete_release", "begin_release", "create"))
                if g > 1 and rel == 0:
                    r.v("two_resumers_granted_ownership", run=run)
        r.classes.append("kind_lock")
        if grants:
            r.classes.append("resume_granted")
        if contended:
            r.classes.append("concurrent_callers")
        r.nontrivial = contended and grants > 0
        r.sample = {"case": case, "observed": obs[:4]}
        return r

    def run_case(self, case):
        case = json.loads(json.dumps(case))
        if "dbos" in case:
            r = self.dbos.run_case(case["dbos"])
            r.classes = ["dbos_decorator"] + ["dbos_" + c for c in r.classes]
            return r
        if case.get("kind") == "lock":
            return self._run_lock_case(case)
        r = CaseResult()
        ge = genwf.M()["ge"]
        I = float(case["idle_timeout"])
        log: dict = {"life": 0}
        obs: dict = {"sends": [], "errors": [], "bursts": []}
        rec = genwf.Rec({"ties": case["ties"], "ext": []})
        del srv.ABORTS[:]

        async def main():
            genwf.CUR = rec
            tmp = srv.tmp_root() if case["store"] == "sqlite" else None
            try:
                real = srv.make_store(case["store"], tmp)
                store = srv.StoreProxy(real, yields=case.get("yields") or None)
                life = await srv.start_life(store, srv.reply_factory(case, log), idle_timeout=I)
                hd = await life.server._service.start_workflow(life.wf, "h1", start_event=ge.GStart())
                obs["run_id"] = hd.run_id
                sent = 0
                idle_from = VClock.t
                for b in case["bursts"]:
                    due = idle_from + I + b["off"]
                    if due > VClock.t:
                        await asyncio.sleep(due - VClock.t)
                    t_send = VClock.t

                    async def one(n):
                        try:
                            await life.server._service.send_event("h1", ge.Reply(n=n))
                            obs["sends"].append({"n": n, "t": t_send})
                        except Exception as e:  # noqa: BLE001
                            obs["errors"].append({"n": n, "t": t_send, "error": repr(e)[:120]})

                    ns = list(range(sent, sent + b["n"]))
                    sent += b["n"]
                    obs["bursts"].append({"t": t_send, "release_due": idle_from + I, "n": b["n"]})
                    await asyncio.gather(*[one(n) for n in ns])
                    # wait until everything sent so far was processed (bounded), then the next idle period starts
                    for _ in range(int(40 / POLL)):
                        done = {x["n"] for x in log["body"] if x["exit"] == "returned"}
                        if all(n in done for n in range(sent)) and (not case.get("fanout") or all(("post", n) in done for n in range(sent))):
                            break
                        await asyncio.sleep(POLL)
                    idle_from = max([x["t_out"] for x in log["body"] if x["t_out"] is not None] + [t_send])
                row = await srv.wait_terminal(store, "h1", 80.0)
                obs["row"] = {"status": row.status if row else None, "result": srv.result_of(row)}
                await srv.kill_life(life)
            finally:
                srv.cleanup_tmp(tmp)
                genwf.CUR = None

        try:
            boot.run_virtual(main)
        except Runaway as e:
            r.v("runaway", detail=str(e)[:80])
            return r

        run_id = obs.get("run_id")
        aborts = [a["t"] for a in srv.ABORTS if a["run_id"] == run_id]
        # the shutdown of the life aborts the run too (server stop): only aborts before the final status count as idle releases
        accepted = sorted(x["n"] for x in obs["sends"])
        row = obs.get("row") or {}
        attrs = dict(releases=len(aborts), concurrent_burst=any(b["n"] > 1 for b in case["bursts"]))
        if obs["errors"]:
            r.v("send_rejected", error=obs["errors"][0]["error"], **attrs)
        if row.get("status") != "completed":
            done = sorted(x["n"] for x in log["body"] if x["exit"] == "returned" and not isinstance(x["n"], (tuple, list)))
            r.v("accepted_send_never_processed", status=row.get("status"), accepted=len(accepted), processed=len(done), **attrs)
        else:
            got = (row.get("result") or {}).get("got")
            if got != accepted:
                r.v("processed_replies_differ_from_sent", got=got, sent=accepted, **attrs)
            if case.get("fanout") and (row.get("result") or {}).get("posts") != accepted:
                r.v("internal_events_differ_from_sent", posts=(row.get("result") or {}).get("posts"), sent=accepted, **attrs)
        per = {}
        for x in log["body"]:
            if x["exit"] == "returned":
                key = x["n"] if not isinstance(x["n"], (tuple, list)) else "post-%s" % (x["n"][1],)
                per[key] = per.get(key, 0) + 1
        dup = sorted(n for n, c in per.items() if c > 1)
        if dup:
            r.v("reply_processed_twice", n=dup[0], times=per[dup[0]], **attrs)
        # release only while nothing is running
        for t in aborts:
            busy = [x for x in log["body"] if x["t_in"] < t - 1e-9 and (x["t_out"] is None or x["t_out"] > t + 1e-9)]
            if busy and row.get("status") is not None:
                r.v("released_while_step_in_flight", at=t, **attrs)
                break
        # control loops of one run never overlap
        spans = sorted([s for s in getattr(rec, "runner_spans", []) if s["run_id"] == run_id], key=lambda s: s["t0"])
        for i in range(len(spans)):
            for j in range(i + 1, len(spans)):
                a, b = spans[i], spans[j]
                a1 = a["t1"] if a["t1"] is not None else float("inf")
                b1 = b["t1"] if b["t1"] is not None else float("inf")
                if a["t0"] < b1 - 1e-9 and b["t0"] < a1 - 1e-9:
                    r.v("two_live_control_loops_for_one_run", first=[a["t0"], a["t1"]], second=[b["t0"], b["t1"]], **attrs)
                    break
            else:
                continue
            break
        # at most one new control loop per release
        marks = sorted(aborts)
        for k, t in enumerate(marks):
            nxt = marks[k + 1] if k + 1 < len(marks) else float("inf")
            started = [s for s in spans if t - 1e-9 <= s["t0"] < nxt - 1e-9]
            if len(started) > 1:
                r.v("released_run_resumed_more_than_once", loops=len(started), **attrs)
                break
        near = any(abs(b["t"] - b["release_due"]) <= 0.5 + 1e-9 for b in obs["bursts"])
        multi_on_released = any(b["n"] > 1 and any(a <= b["t"] + 1e-9 and a >= b["release_due"] - 1e-9 for a in aborts) for b in obs["bursts"])
        if near:
            r.classes.append("burst_near_release")
        if multi_on_released:
            r.classes.append("concurrent_sends_to_released_run")
        if aborts:
            r.classes.append("released")
        if len(spans) > 1:
            r.classes.append("reloaded")
        r.nontrivial = near or multi_on_released
        r.sample = {"case": case, "aborts": aborts[:5], "spans": [[s["t0"], s["t1"]] for s in spans][:6], "status": row.get("status")}
        return r


PROP = C26

from .. import dbos_idle as _dbos_idle  # noqa: E402

C26.rule = C26.rule + " DBOS DECORATOR HALF (one case in four): " + _dbos_idle.RULE + " " + _dbos_idle.RULE_BURSTS
C26.assumptions = list(C26.assumptions) + ["DBOS decorator half: " + a for a in _dbos_idle.ASSUMPTIONS + _dbos_idle.ASSUMPTIONS_BURSTS]
