"""C11 — replaying the recorded tick log reproduces the live run state (differential after every tick)."""

from __future__ import annotations

import json
import time

from .. import genwf
from ..runner import CaseResult
from ._engine import EngineProp

FULL_EVERY = 6  # a from-scratch rebuild (plain + through JSON) at every 6th tick and at the last one
MAX_TICKS_FULL = 400


def _u(ev):
    if ev is None:
        return None
    try:
        return (type(ev).__name__, ev.get("uid"))
    except Exception:  # noqa: BLE001
        return (type(ev).__name__, None)


def _exc(e):
    return None if e is None else (type(e).__name__, str(e))


def norm(state) -> dict:
    """Projection of a BrokerState that drops timestamps only."""
    out = {"is_running": state.is_running, "workers": {}}
    for name, w in sorted(state.workers.items()):
        out["workers"][name] = {
            "queue": [[_u(a.event), a.attempts or 0, sorted(a.recovery_counts.items()), _exc(a.last_exception)] for a in w.queue],
            "in_progress": sorted(
                [
                    ip.worker_id,
                    _u(ip.event),
                    ip.attempts,
                    sorted(ip.recovery_counts.items()),
                    _exc(ip.last_exception),
                    {k: [_u(e) for e in v] for k, v in sorted(ip.shared_state.collected_events.items())},
                    [[x.waiter_id, _u(x.event), _u(x.resolved_event), x.timed_out] for x in ip.shared_state.collected_waiters],
                ]
                for ip in w.in_progress
            ),
            "collected": {k: [_u(e) for e in v] for k, v in sorted(w.collected_events.items())},
            "waiters": [
                [x.waiter_id, _u(x.event), x.waiting_for_event.__name__, sorted((k, repr(v)) for k, v in x.requirements.items()), x.has_requirements, _u(x.resolved_event), x.timed_out]
                for x in w.collected_waiters
            ],
        }
    return out


def _canon(x) -> str:
    return json.dumps(x, sort_keys=True, default=repr)


def first_diff(a: dict, b: dict) -> str:
    if a["is_running"] != b["is_running"]:
        return "is_running"
    for name in sorted(set(a["workers"]) | set(b["workers"])):
        wa, wb = a["workers"].get(name), b["workers"].get(name)
        if wa is None or wb is None:
            return "workers"
        for k in ("queue", "in_progress", "collected", "waiters"):
            if _canon(wa[k]) != _canon(wb[k]):
                return k
    return "none"


class C11(EngineProp):
    id = "C11"
    rule = (
        "cases = generated workflow programs of every family (fan-out, num_workers 1..4, retries with delays, collect_events re-runs, "
        "wait_for_event with timeouts, external sends, unhandled events, cancel, workflow timeout, serialize/resume, a second run continued on the context of the first, ended run (same context object or its to_dict snapshot; the ended run may have left queued or in-flight work behind); one in four is a @catch_error "
        "handler program of the C08 family with recovery budgets) on generated "
        "schedules. After EVERY tick the live BrokerState is compared (queues with attempts/recovery counts/last exception, running "
        "work with worker ids and its shared snapshot, collected events, waiters with resolved/timed-out flags, running flag; timestamps "
        "dropped) with the state folded incrementally from the recorded ticks; at every 6th tick and at the last one additionally with "
        "rebuild_state_from_ticks(init_state, ticks) from scratch, with the same rebuild over the ticks passed through their JSON form "
        "(what a store replays), and with what the live handler reports through ctx._state/to_dict()/running_steps(). "
        "Non-trivial = the history contains a retry, a collect re-run or a waiter."
    )
    assumptions = [
        "ticks are taken from the BasicRuntime adapter's recorded log (AsyncioAdapterQueues.ticks); the live state is read by a harness-side wrapper over _ControlLoopRunner._process_tick",
        "retry policies in this family are attempt-based (stop_after_attempt), so a replay executed at a later clock reading cannot legitimately take a different retry decision",
        "exceptions are compared by type name and message",
    ]
    gen_kwargs = dict(collect=True, waits=True, retries=True, resume=True, unhandled=True, cancel=True, timeouts=True, stop_mode="any", nonevent=True, reply_step=True, ask=True, ask_consumer=True)
    budgets = {"quick": 600, "thorough": 5000}
    wall = {"quick": 60.0, "thorough": 900.0}
    probe = False

    def strategy(self, tier):
        from hypothesis import strategies as st

        def thin(pair):
            spec, k = pair
            if k:  # 3 of 4 programs run to completion: longer histories
                spec = dict(spec)
                spec["ext"] = [e for e in spec["ext"] if e[1] != "cancel"]
                spec["timeout"] = None
            return spec

        def cont(pair):
            # a second run on the context of the first, ended one (workflow.run(ctx=handler.ctx) / Context.from_dict of the ended
            # run's snapshot): the init state is "not running" but may still carry the work the first run left behind
            spec, c = pair
            if c is not None and spec.get("snap") is None:
                spec = dict(spec)
                spec["cont"] = c
            return spec

        from .c08 import C08

        def snap(pair):
            spec, k = pair
            if k is not None:
                spec = dict(spec)
                spec["snap"] = k
            return spec

        handlers = st.tuples(C08().strategy(tier), st.sampled_from([None, None, 0, 1, 2, 3, 5])).map(snap)
        main = st.tuples(st.tuples(genwf.program_strategy(**self.gen_kwargs), st.integers(0, 3)).map(thin), st.sampled_from([None, None, None, "ctx", "dict"])).map(cont)
        from .c05 import C05

        timed = C05()._policy_cases().map(lambda c: {"timed": c})
        return st.one_of(main, main, main, handlers, timed)

    def setup(self):
        m = genwf.M()
        from workflows.runtime.types.ticks import WorkflowTickAdapter

        self.cl = m["control_loop"]
        self.adapter = WorkflowTickAdapter

    def _timed_spec(self, tc):
        """The C05 family: one failing step under a generated retry policy with attempt- AND time-based stop conditions."""
        if not hasattr(self, "_c05"):
            from .c05 import C05

            self._c05 = C05()
            self._c05.setup()
        policy, stop_tree = self._c05.build_policy(tc)
        spec = {
            "steps": [
                {"name": "a", "accepts": ["GStart"], "workers": 1, "retry": None, "acts": {"GStart": [["send", "E0", tc.get("m", 1), None], ["ret", None]]}},
                {"name": "b", "accepts": ["E0"], "workers": tc.get("workers", 1), "retry": {"custom": True},
                 "acts": {"E0": [["sleep", tc["s"]], ["fail", tc["k"], tc["exc"]], ["ret", None]]}},
                {"name": "fin", "accepts": ["Fin"], "workers": 1, "retry": None, "acts": {"Fin": [["ret", "GStop"]]}},
            ],
            "timeout": None,
            "ext": [[4000.0, "send", "Fin", None, {}]],
            "ties": tc.get("ties", []),
        }
        time_based = any(k in json.dumps(stop_tree) for k in ("delay", "before"))
        return spec, dict(runtime=genwf.make_runtime(tc["clock"]), retry_builder=lambda s_: policy if s_ else None, horizon=5000.0), time_based

    def run_case(self, case):
        run_kw: dict = {}
        time_based = False
        if isinstance(case, dict) and "timed" in case:
            spec, run_kw, time_based = self._timed_spec(json.loads(json.dumps(case["timed"])))
        else:
            spec = self.prepare(case)
        r = CaseResult()
        cl = self.cl
        stats = {"ticks": 0, "full": 0, "skipped_full": 0}
        folds: dict = {}  # id(runner) -> folded state
        jcache: dict = {}
        seen: set = set()

        def report(kind, **kw):
            key = (kind, kw.get("field"), kw.get("tick"))
            if key not in seen:
                seen.add(key)
                r.v(kind, time_based_retry_policy=time_based, **kw)

        def hook(runner, tick):
            stats["ticks"] += 1
            live = norm(runner.state)
            q = runner.adapter._queues
            ticks = list(q.ticks)
            tname = type(tick).__name__
            # (1) incremental fold of the recorded ticks
            if id(runner) not in folds:
                st, _ = cl.rewind_in_progress(q.init_state, time.time())
                folds[id(runner)] = [st, 0, runner]
            f = folds[id(runner)]
            try:
                while f[1] < len(ticks):
                    f[0], _ = cl._reduce_tick(ticks[f[1]], f[0], time.time())
                    f[1] += 1
                got = norm(f[0])
            except Exception as e:  # noqa: BLE001
                report("fold_raised", error=type(e).__name__, detail=str(e)[:120], resumed=rec.segment > 0)
                f[1] = len(ticks)
            else:
                if _canon(got) != _canon(live):
                    report("fold_differs_from_live", field=first_diff(live, got), tick=tname, resumed=rec.segment > 0)
            if not ticks or ticks[-1] is not tick:
                report("tick_not_recorded", tick=tname)
            n = len(ticks)
            if n % FULL_EVERY and tname not in ("TickCancelRun", "TickTimeout") and runner.state.is_running:
                return
            if n > MAX_TICKS_FULL:
                stats["skipped_full"] += 1
                return
            stats["full"] += 1
            resumed = rec.segment > 0
            # (2) rebuild from scratch
            try:
                full = norm(cl.rebuild_state_from_ticks(q.init_state, ticks))
            except Exception as e:  # noqa: BLE001
                report("rebuild_raised", error=type(e).__name__, detail=str(e)[:120], resumed=resumed)
            else:
                if _canon(full) != _canon(live):
                    report("rebuild_differs_from_live", field=first_diff(live, full), tick=tname, resumed=resumed)
            # (3) through the JSON form of the ticks (what a store replays); each tick is converted once
            try:
                jc = jcache.setdefault(id(runner), [])
                while len(jc) < len(ticks):
                    t = ticks[len(jc)]
                    jc.append(self.adapter.validate_python(json.loads(json.dumps(self.adapter.dump_python(t, mode="json")))))
                fj = norm(cl.rebuild_state_from_ticks(q.init_state, jc))
            except Exception as e:  # noqa: BLE001
                report("json_ticks_not_replayable", error=type(e).__name__, detail=str(e)[:120])
            else:
                if _canon(fj) != _canon(live):
                    report("json_rebuild_differs_from_live", field=first_diff(live, fj), tick=tname, resumed=resumed)
            # (4) what the live handler reports
            h = rec.handler
            if h is not None and h._external_adapter.run_id == runner.adapter.run_id and h._external_adapter._queues is q:
                try:
                    face = h.ctx._face
                    hstate = face._state
                    hs = norm(hstate)
                    if _canon(hs) != _canon(live):
                        report("handler_state_differs_from_live", field=first_diff(live, hs), tick=tname, resumed=resumed)
                    if stats["full"] % 3 == 0:
                        d = h.ctx.to_dict()
                        want = runner.state.to_serialized(face._serializer).model_dump(mode="python")
                        for k in ("is_running", "workers"):
                            if _canon(d.get(k)) != _canon(want.get(k)):
                                report("to_dict_differs_from_live", field=k, tick=tname, resumed=resumed)
                    rs = sorted(s for s in runner.state.workers if runner.state.workers[s].in_progress)
                    hrs = sorted(s for s in hstate.workers if hstate.workers[s].in_progress)
                    if rs != hrs:
                        report("running_steps_differs_from_live", tick=tname)
                except Exception as e:  # noqa: BLE001
                    report("handler_snapshot_raised", error=type(e).__name__, detail=str(e)[:120], tick=tname)

        rec = genwf.Rec(spec)
        rec.tick_hook = hook

        cont_info: dict = {}

        async def main():
            import asyncio

            await genwf.run_program(spec, rec, probe=False, **run_kw)
            mode = spec.get("cont") if isinstance(spec, dict) else None
            if not mode or rec.outcome["kind"] not in ("result", "failed", "timeout"):
                return rec
            m = genwf.M()
            first_outcome = rec.outcome
            h = rec.handler
            try:
                d = h.ctx.to_dict()
            except Exception as e:  # noqa: BLE001
                report("handler_snapshot_raised", error=type(e).__name__, detail=str(e)[:120], tick="after_end")
                return rec
            cont_info["leftover"] = any(w.get("queue") or w.get("in_progress") for w in d.get("workers", {}).values())
            rec.segment += 1
            try:
                if mode == "dict":
                    wf2 = genwf.build_workflow(dict(spec, timeout=None), runtime=genwf.make_runtime())
                    ctx2 = m["Context"].from_dict(wf2, json.loads(json.dumps(d)))
                else:
                    wf2, ctx2 = rec.wf, h.ctx
                h2 = wf2.run(ctx=ctx2, start_event=rec.mk("GStart", "start"), run_id="run-1")
            except Exception as e:  # noqa: BLE001
                cont_info["error"] = repr(e)[:160]
                return rec
            cont_info["ran"] = True
            rec.handler = h2
            consumer = asyncio.create_task(genwf.consume_stream(rec, h2))
            settle = genwf.fin_time(spec)
            await asyncio.wait({h2._result_task}, timeout=settle)
            if not h2._result_task.done():
                try:
                    h2.ctx.send_event(rec.mk("Fin", "ext"))
                except Exception:  # noqa: BLE001
                    pass
                await asyncio.wait({h2._result_task}, timeout=settle)
            await asyncio.wait({consumer}, timeout=5.0)
            if not consumer.done():
                consumer.cancel()
            if not h2._result_task.done():
                try:
                    h2._external_adapter.abort()
                except Exception:  # noqa: BLE001
                    pass
            await asyncio.gather(consumer, h2._result_task, return_exceptions=True)
            rec.outcome = first_outcome
            return rec

        from .. import boot
        from ..boot import Runaway

        try:
            boot.run_virtual(main)
        except Runaway as e:
            raise RuntimeError(f"inconclusive: {e}") from None
        finally:
            genwf.CUR = None
        if stats["ticks"] == 0:
            r.v("no_ticks_observed")
        if any(inv["attempt"] > 0 for inv in rec.inv):
            r.classes.append("with_retry")
        if any(inv["exit"] == "waiting" for inv in rec.inv):
            r.classes.append("with_waiter")
        rerun = False
        per = {}
        for inv in rec.inv:
            if "collect" in inv:
                per[(inv["step"], inv["uid"], inv["attempt"], inv["seg"])] = per.get((inv["step"], inv["uid"], inv["attempt"], inv["seg"]), 0) + 1
        rerun = any(v > 1 for v in per.values())
        if rerun:
            r.classes.append("with_collect_rerun")
        if rec.resumed:
            r.classes.append("resumed")
        if cont_info.get("ran"):
            r.classes.append("continued_on_ended_context" + ("_with_leftover_work" if cont_info.get("leftover") else ""))
        r.classes.append("outcome_" + rec.outcome["kind"])
        if time_based:
            r.classes.append("time_based_retry_policy")
        if stats["skipped_full"]:
            r.classes.append("long_history_full_rebuild_skipped")
        self._ticks_total = getattr(self, "_ticks_total", 0) + stats["ticks"]
        self._full_total = getattr(self, "_full_total", 0) + stats["full"]
        r.nontrivial = bool({"with_retry", "with_waiter", "with_collect_rerun"} & set(r.classes))
        r.sample = {"spec": case, "ticks": stats["ticks"], "full_rebuilds": stats["full"], "outcome": rec.outcome["kind"]}
        return r

    def extra_coverage(self):
        return {"ticks_compared": getattr(self, "_ticks_total", 0), "full_rebuilds_compared": getattr(self, "_full_total", 0)}


PROP = C11
