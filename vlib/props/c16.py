"""C16 — the stored event log is gap-free and resumable from any cursor.

Layer 1: generated interleavings of append_event / subscribe_events (step-wise consumers) / query_events over
one or two runs, executed against MemoryWorkflowStore, SqliteWorkflowStore (temp file, optionally a second
store instance over the same file for the readers) and the polling default AbstractWorkflowStore.subscribe_events,
each on its own virtual-time loop; oracle = per-run list model + backend differential.
Layer 2 (same cases): some subscribers go through the real `_WorkflowAPI._stream_events` handler
(starlette stand-in) with after_sequence in {int, "now", absent}, Last-Event-ID, SSE / NDJSON.
"""

from __future__ import annotations

import asyncio
import json
import os
import re
import shutil
import signal
import sqlite3
import tempfile

from hypothesis import strategies as st

from .. import boot
from ..runner import CaseResult, Prop

TERMINAL_KINDS = ("stop", "mystop", "failed", "cancelled", "timedout")
SLEEPS = (0.2, 0.5, 1.0, 1.5, 3.0)  # "sleep" ops, in units of the case's poll interval (1.0 = exactly on a poll timer)
HEARTBEATS = (None, 0.6, 2.0)  # SSE heartbeat interval in units of the poll interval
BACKENDS = ("memory", "sqlite", "default_poll")
CALL_TIMEOUT = 60.0  # virtual seconds a single store/API call of the driver may take
_SSE = re.compile(r"\Aid: (-?\d+)\ndata: (.*)\n\n\Z", re.S)
_HEARTBEAT = ": heartbeat\n\n"


WATCHDOG_REAL_SECONDS = 20.0  # a backend run normally takes < 0.2 s


class _Abort(Exception):
    pass


class _Watchdog(BaseException):
    """Raised by SIGALRM inside whatever is executing: breaks loops that never return to the event loop
    (e.g. format_stream's feeder draining a subscription that yields forever into its unbounded queue)."""


class _Sub:
    def __init__(self, sid, run, via, credits):
        self.sid = sid
        self.run = run
        self.via = via  # "store" | "api"
        self.credits = credits
        self.used = 0
        self.got = []  # (sequence | None, envelope-dict)
        self.ended = False
        self.closed = False  # disconnected by the driver
        self.rejected = None  # HTTP status when the API refused to stream
        self.error = None
        self.reported = False
        self.task = None
        self.gate = None
        self.k = -1
        self.sse = True
        self.internal = True
        self.qualname = True
        self.params = None
        self.len_at_start = 0
        self.heartbeats = 0


class C16(Prop):
    id = "C16"
    rule = (
        "case = 0-6 initial appends to r0 followed by an operation sequence over runs r0/r1: app(run, kind) appends an envelope built from a real event (plain, internal, "
        "StopEvent, StopEvent subclass, WorkflowFailedEvent, WorkflowCancelledEvent, WorkflowTimedOutEvent; appends after a terminal event "
        "are generated too); sub(run, cursor, credits) starts a consumer task over store.subscribe_events(run, after_sequence=k) with k "
        "absolute (-3..10) or relative to the current end (-4..+3, i.e. from before the start to beyond the end); req(...) starts a consumer "
        "over the body iterator returned by the real _WorkflowAPI._stream_events (after_sequence int / 'now' / absent, Last-Event-ID header, "
        "SSE or NDJSON, include_internal, include_qualified_name, optional heartbeat); consumers advance step-wise (each __anext__ needs a "
        "credit: adv), recon disconnects a consumer and resubscribes from the last sequence it saw; yield/sleep move the loop / virtual "
        "clock without checking, settle sleeps a little over one poll interval and checks, query compares query_events(after, limit). The same case runs on "
        "MemoryWorkflowStore, SqliteWorkflowStore (temp file; 'split' = readers use a second store instance on the same file, so only "
        "polling can deliver) and the polling default AbstractWorkflowStore.subscribe_events. Oracle: per-run list model; query_events == "
        "sequences 0..n-1 with the appended envelopes in order; a subscriber after k with c credits has received exactly "
        "model[k+1:][:c] cut after the first terminal event above k (SSE ids == store sequences, internal events filtered on request) and "
        "has ended iff that terminal event was delivered and one more item was requested; 204 only when nothing above the cursor exists and "
        "a terminal event was recorded; finally the observation vectors of the backends are compared. Non-trivial = some subscriber "
        "received an event appended after it subscribed, or started from a cursor strictly inside the log."
    )
    assumptions = [
        "starlette is absent from /venv: /verif/shims/starlette is a structural stand-in (Request/Headers/QueryParams, StreamingResponse keeping body_iterator, "
        "HTTPException, permissive Starlette/Route/Middleware/StaticFiles); the handler coroutine _stream_events is called directly and its real format_stream "
        "generator is iterated by the harness; ASGI transport, routing and middleware are not exercised",
        "virtual-time event loop (boot.VLoop): SQLite poll intervals and SSE heartbeats cost no real time; one loop, no threads; appends of one run are sequential "
        "(server_runtime serialises them with a lock)",
        "terminal appends are preceded by update_handler_status(...) exactly as server_runtime.write_to_event_stream does; no request is issued between the two",
        "in 4 of 5 cases the harness keeps one idle sqlite3 connection to the database file open for the duration of the case (as a second attached process would); "
        "it issues no statements after the first SELECT",
        "every case starts from a byte copy of a database freshly migrated by the real migration code (opened with auto_migrate=True again)",
        "timestamps of stored events are not compared (CURRENT_TIMESTAMP vs datetime.now)",
        "default_poll backend = a MemoryWorkflowStore subclass whose subscribe_events is the inherited AbstractWorkflowStore.subscribe_events",
    ]
    budgets = {"quick": 1500, "thorough": 4000}
    wall = {"quick": 38.0, "thorough": 360.0}

    # ------------------------------------------------------------------ setup

    def setup(self):
        boot.seed_llama_agents()
        from llama_agents.client.protocol.serializable_events import EventEnvelopeWithMetadata
        from llama_agents.server import _api
        from llama_agents.server._runtime.server_runtime import ServerRuntimeDecorator
        from llama_agents.server._service import _WorkflowService
        from llama_agents.server._store.abstract_workflow_store import AbstractWorkflowStore, PersistentHandler
        from llama_agents.server._store.memory_workflow_store import MemoryWorkflowStore
        from llama_agents.server._store.sqlite.sqlite_workflow_store import SqliteWorkflowStore
        from starlette.exceptions import HTTPException
        from starlette.requests import Request
        from workflows import events as E
        from workflows.plugins.basic import BasicRuntime

        class VerifStop(E.StopEvent):
            answer: int = 0

        class DefaultPollStore(MemoryWorkflowStore):
            subscribe_events = AbstractWorkflowStore.subscribe_events

        self.Env = EventEnvelopeWithMetadata
        self.api_mod = _api
        self.SRD = ServerRuntimeDecorator
        self.Service = _WorkflowService
        self.PH = PersistentHandler
        self.Memory = MemoryWorkflowStore
        self.Sqlite = SqliteWorkflowStore
        self.DefaultPoll = DefaultPollStore
        self.HTTPException = HTTPException
        self.Request = Request
        self.BasicRuntime = BasicRuntime
        self.E = E
        self.VerifStop = VerifStop
        # A freshly migrated, empty database is built once with the real migration code; every case starts from a copy
        # of these bytes (and still opens it with auto_migrate=True), which saves ~10 ms of schema creation per store.
        d = self._mkdtemp()
        try:
            path = os.path.join(d, "template.sqlite")
            SqliteWorkflowStore(path)
            with open(path, "rb") as f:
                self._template = f.read()
        finally:
            shutil.rmtree(d, ignore_errors=True)

    @staticmethod
    def _mkdtemp():
        # honour $TMPDIR; otherwise prefer the RAM disk (commits are fsync-bound on a real disk)
        if not os.environ.get("TMPDIR") and os.path.isdir("/dev/shm") and os.access("/dev/shm", os.W_OK):
            return tempfile.mkdtemp(prefix="c16-", dir="/dev/shm")
        return tempfile.mkdtemp(prefix="c16-")

    def make_env(self, kind, tag):
        E = self.E
        if kind == "ev":
            ev = E.Event(tag=tag)
        elif kind == "int":
            ev = E.WorkflowIdleEvent(tag=tag)
        elif kind == "stop":
            ev = E.StopEvent(result=tag)
        elif kind == "mystop":
            ev = self.VerifStop(answer=tag)
        elif kind == "failed":
            ev = E.WorkflowFailedEvent(step_name=f"s{tag}", exception=ValueError(f"boom{tag}"), attempts=1, elapsed_seconds=0.0)
        elif kind == "cancelled":
            ev = E.WorkflowCancelledEvent(tag=tag)
        elif kind == "timedout":
            ev = E.WorkflowTimedOutEvent(timeout=1.0, active_steps=[f"s{tag}"], tag=tag)
        else:  # pragma: no cover
            raise ValueError(kind)
        return self.Env.from_event(ev)

    # ------------------------------------------------------------------ generator

    def strategy(self, tier):
        n_ops = 28 if tier == "quick" else 40
        run = st.sampled_from([0, 0, 0, 1])
        kind = st.sampled_from(["ev"] * 18 + ["int"] * 4 + ["stop", "stop", "mystop", "failed", "cancelled", "timedout"])
        rel = st.sampled_from([-4, -3, -2, -2, -1, -1, -1, 0, 0, 0, 0, 1, 2, 3])  # 0 = the last stored sequence
        cur = st.one_of(
            st.tuples(st.just("rel"), rel),
            st.tuples(st.just("rel"), rel),
            st.tuples(st.just("rel"), rel),
            st.tuples(st.just("abs"), st.integers(-3, 10)),
        ).map(list)
        credits = st.sampled_from([0, 1, 1, 2, 3, 50, 50, 50])
        after = st.one_of(st.just(["now"]), st.just(["absent"]), cur, cur)
        leid = st.one_of(st.none(), st.none(), cur)
        params = st.fixed_dictionaries(
            {"after": after, "leid": leid, "sse": st.sampled_from([True, True, True, False]), "internal": st.booleans(), "qualname": st.sampled_from([True, True, False])}
        )
        app = st.tuples(st.just("app"), run, kind)
        ops = st.one_of(
            app,
            app,
            app,
            app,
            st.tuples(st.just("sub"), run, cur, credits),
            st.tuples(st.just("sub"), run, cur, credits),
            st.tuples(st.just("req"), run, params, credits),
            st.tuples(st.just("adv"), st.integers(0, 7), st.sampled_from([1, 1, 2, 50])),
            st.tuples(st.just("recon"), st.integers(0, 7), credits),
            st.tuples(st.just("yield"), st.integers(1, 4)),
            st.tuples(st.just("sleep"), st.integers(0, len(SLEEPS) - 1)),
            st.tuples(st.just("settle")),
            st.tuples(st.just("settle")),
            st.tuples(st.just("query"), run, st.one_of(st.none(), st.integers(-3, 10)), st.one_of(st.none(), st.none(), st.integers(0, 5))),
        ).map(list)
        return st.fixed_dictionaries(
            {
                "poll": st.sampled_from([0.05, 0.1, 1.0]),
                "split": st.booleans(),
                "hold": st.sampled_from([True, True, True, True, False]),
                "hb": st.sampled_from([0, 0, 1, 2]),
                "pre": st.lists(kind, max_size=6),  # appended to r0 before anything else
                "ops": st.lists(ops, min_size=2, max_size=n_ops),
            }
        )

    # ------------------------------------------------------------------ one backend

    def _run_backend(self, case, backend, r, stats):
        """Runs the history on one backend; returns the observation vector (JSON-able)."""
        poll = float(case["poll"])
        tmp = None
        hold = None
        obs = {"settles": [], "queries": [], "final": None}
        try:
            if backend == "memory":
                writer = reader = self.Memory()
            elif backend == "default_poll":
                writer = reader = self.DefaultPoll()
                writer.poll_interval = poll
            else:
                tmp = self._mkdtemp()
                path = os.path.join(tmp, "events.sqlite")
                with open(path, "wb") as f:
                    f.write(self._template)
                writer = self.Sqlite(path, poll_interval=poll)
                reader = self.Sqlite(path, poll_interval=poll) if case.get("split") else writer
                if case.get("hold", True):
                    # an idle connection of "another process": the store's per-call connections are then not the last ones
                    # attached to the WAL database, which spares a checkpoint (~2 ms) on each of their close() calls
                    hold = sqlite3.connect(path)
                    hold.execute("SELECT COUNT(*) FROM events").fetchall()
            fired = []

            def on_alarm(signum, frame):
                fired.append(1)
                raise _Watchdog()

            old_handler = signal.signal(signal.SIGALRM, on_alarm)
            signal.setitimer(signal.ITIMER_REAL, WATCHDOG_REAL_SECONDS)
            try:
                _, quiescent = boot.run_virtual(self._history, case, backend, writer, reader, r, stats, obs)
            except boot.Runaway as e:
                r.v("history_did_not_complete", backend=backend, how="runaway", detail=str(e)[:120])
                quiescent = False
            except _Watchdog:
                quiescent = False
            finally:
                signal.setitimer(signal.ITIMER_REAL, 0)
                signal.signal(signal.SIGALRM, old_handler)
            if fired:
                r.v("history_did_not_complete", backend=backend, how=f"a task did not return to the event loop for {WATCHDOG_REAL_SECONDS:.0f} s of real time")
            if quiescent:
                r.v("history_did_not_complete", backend=backend, how="driver blocked forever in a store call")
        finally:
            if hold is not None:
                hold.close()
            if tmp is not None:
                shutil.rmtree(tmp, ignore_errors=True)
        return obs

    async def _history(self, case, backend, writer, reader, r, stats, obs):
        poll = float(case["poll"])
        settle_s = 1.05 * poll  # every waiting poller fires at least once in any window of one poll interval
        runs = ["r0", "r1"]
        model = {rn: [] for rn in runs}  # list of {"kind", "dump"}
        subs: list[_Sub] = []
        tagc = [0]

        service = self.Service(self.SRD(self.BasicRuntime(), reader), reader)
        hb = HEARTBEATS[int(case.get("hb") or 0)]
        api = self.api_mod._WorkflowAPI(service, sse_heartbeat_interval=None if hb is None else hb * poll)

        def viol(kind, **attrs):
            r.v(kind, backend=backend, **attrs)

        async def call(what, coro):
            try:
                return await asyncio.wait_for(coro, CALL_TIMEOUT)
            except asyncio.TimeoutError:
                viol("store_call_blocked", op=what)
                raise _Abort()
            except self.HTTPException:
                raise
            except Exception as e:  # noqa: BLE001
                viol("store_call_raised", op=what, exc=type(e).__name__, msg=str(e)[:160])
                raise _Abort()

        def is_term(rn, idx):
            return model[rn][idx]["kind"] in TERMINAL_KINDS

        def expected(sub):
            """Indices the subscriber must receive (in order) and whether the list is closed by a terminal event."""
            out = []
            m = model[sub.run]
            for idx in range(max(sub.k + 1, 0), len(m)):
                keep = sub.via == "store" or sub.internal or m[idx]["kind"] != "int"
                if keep:
                    out.append(idx)
                if is_term(sub.run, idx):
                    return out, True
            return out, False

        def want_record(sub, idx):
            d = model[sub.run][idx]["dump"]
            if sub.via == "api" and not sub.qualname:
                d = dict(d, qualified_name=None)
            return d

        def sub_attrs(sub):
            n0 = sub.len_at_start
            if sub.k < 0:
                cls = "from_start"
            elif sub.k >= n0:
                cls = "beyond_end"
            elif sub.k == n0 - 1:
                cls = "at_end"
            else:
                cls = "inside"
            return {
                "via": sub.via if sub.via == "store" else ("api_sse" if sub.sse else "api_ndjson"),
                "cursor": cls,
                "cursor_beyond_end": sub.k >= n0,
                "cursor_after_terminal": any(is_term(sub.run, i) for i in range(0, min(sub.k + 1, n0))),  # as of subscription time
            }

        def check_sub(sub, where):
            if sub.reported or sub.rejected is not None:
                return
            idxs, complete = expected(sub)
            attrs = sub_attrs(sub)

            def rep(kind, **more):
                sub.reported = True
                viol(kind, where=where, k=sub.k, got=[g[0] for g in sub.got][:12], want=idxs[:12], **attrs, **more)

            if sub.error is not None:
                return rep("subscription_raised", error=sub.error[:160])
            seen = set()
            for i, (seq, dump) in enumerate(sub.got):
                if seq is None:
                    # NDJSON frames carry no id: identify the event by its (unique) payload so that the diagnosis is the
                    # same as for the other transports
                    for j in range(len(model[sub.run])):
                        if want_record(sub, j) == dump:
                            seq = j
                            break
                    else:
                        return rep("ndjson_payload_matches_no_appended_event", position=i)
                if seq is not None and seq <= sub.k:
                    return rep("yielded_event_not_above_cursor", seq=seq)
                if seq is not None and seq in seen:
                    return rep("duplicate_delivery", seq=seq)
                if seq is not None:
                    seen.add(seq)
                if i >= len(idxs):
                    return rep("delivered_past_terminal" if complete else "yielded_event_never_appended", seq=seq)
                w = idxs[i]
                if seq is not None and seq != w:
                    if seq > w:
                        return rep("event_skipped", seq=seq, missing=w)
                    return rep("out_of_order", seq=seq)
                if dump != want_record(sub, w):
                    return rep("event_content_differs" if sub.via == "store" or not sub.sse else "sse_id_does_not_match_payload", seq=seq, index=w)
            n = len(sub.got)
            if sub.ended and not (complete and n == len(idxs)):
                return rep("ended_early", received=n)
            if sub.closed:
                return
            if n < min(sub.credits, len(idxs)):
                return rep("not_delivered", received=n, credits=sub.credits)
            if complete and sub.credits >= len(idxs) + 1 and not sub.ended:
                return rep("not_ended_after_terminal", received=n)

        async def consume(sub, ait):
            try:
                while True:
                    while sub.used >= sub.credits:
                        sub.gate.clear()
                        await sub.gate.wait()
                    sub.used += 1
                    try:
                        item = await ait.__anext__()
                    except StopAsyncIteration:
                        sub.ended = True
                        return
                    if sub.via == "store":
                        sub.got.append((item.sequence, json.loads(item.event.model_dump_json())))
                        if item.run_id != sub.run:
                            sub.error = f"event of run {item.run_id!r} delivered to a subscriber of {sub.run!r}"
                            return
                    else:
                        if item == _HEARTBEAT:
                            sub.used -= 1
                            sub.heartbeats += 1
                            continue
                        if sub.sse:
                            m = _SSE.match(item)
                            if m is None:
                                sub.error = "malformed SSE frame: " + repr(item)[:80]
                                return
                            sub.got.append((int(m.group(1)), json.loads(m.group(2))))
                        else:
                            if not item.endswith("\n") or "\n" in item[:-1]:
                                sub.error = "malformed NDJSON line: " + repr(item)[:80]
                                return
                            sub.got.append((None, json.loads(item)))
            except asyncio.CancelledError:
                raise
            except Exception as e:  # noqa: BLE001
                sub.error = f"{type(e).__name__}: {e}"
            finally:
                try:
                    await ait.aclose()
                except BaseException:  # noqa: BLE001
                    pass

        def resolve(rn, cur):
            if cur[0] == "rel":
                return len(model[rn]) - 1 + int(cur[1])
            return int(cur[1])

        def start_store_sub(rn, k, credits):
            sub = _Sub(len(subs), rn, "store", credits)
            sub.k = k
            sub.len_at_start = len(model[rn])
            sub.gate = asyncio.Event()
            if k == -1:
                ait = reader.subscribe_events(rn)  # the documented default cursor
            else:
                ait = reader.subscribe_events(rn, after_sequence=k)
            sub.task = asyncio.create_task(consume(sub, ait))
            subs.append(sub)
            return sub

        async def start_api_sub(rn, params, credits):
            """params: resolved request parameters {"after": int|"now"|None, "leid": int|None, sse, internal, qualname}."""
            sub = _Sub(len(subs), rn, "api", credits)
            sub.sse, sub.internal, sub.qualname = bool(params["sse"]), bool(params["internal"]), bool(params["qualname"])
            sub.params = params
            sub.len_at_start = len(model[rn])
            sub.gate = asyncio.Event()
            q = {"sse": "true" if sub.sse else "false", "include_internal": "true" if sub.internal else "false"}
            if not sub.qualname:
                q["include_qualified_name"] = "false"
            if params["after"] is not None:
                q["after_sequence"] = str(params["after"])
            headers = {}
            if params["leid"] is not None:
                headers["Last-Event-ID"] = str(params["leid"])
            # effective cursor according to the endpoint's documentation
            if params["after"] is None or params["after"] == "now":
                k = len(model[rn]) - 1
            else:
                k = int(params["after"])
            if sub.sse and params["leid"] is not None:
                k = int(params["leid"])
            sub.k = k
            subs.append(sub)
            req = self.Request.build("GET", f"/events/h-{rn}", path_params={"handler_id": f"h-{rn}"}, query=q, headers=headers)
            idxs_above = [i for i in range(max(k + 1, 0), len(model[rn]))]
            has_terminal = any(is_term(rn, i) for i in range(len(model[rn])))
            try:
                resp = await call("_stream_events", api._stream_events(req))
            except self.HTTPException as e:
                sub.rejected = e.status_code
                sub.ended = True
                attrs = sub_attrs(sub)
                if e.status_code != 204:
                    viol("api_unexpected_status", status=e.status_code, detail=str(e.detail)[:120], **attrs)
                elif idxs_above:
                    viol("api_204_with_unseen_events", k=k, unseen=idxs_above[:8], **attrs)
                elif not has_terminal:
                    viol("api_204_on_running_run", k=k, **attrs)
                return sub
            want_media = "text/event-stream" if sub.sse else "application/x-ndjson"
            if getattr(resp, "media_type", None) != want_media:
                viol("api_wrong_media_type", got=str(getattr(resp, "media_type", None)), want=want_media)
            sub.task = asyncio.create_task(consume(sub, resp.body_iterator))
            return sub

        async def disconnect(sub):
            if sub.task is not None and not sub.task.done():
                sub.task.cancel()
            if sub.task is not None:
                await asyncio.gather(sub.task, return_exceptions=True)
            sub.closed = True

        async def check_log(rn, where):
            stored = await call("query_events", reader.query_events(rn))
            seqs = [s.sequence for s in stored]
            if seqs != list(range(len(model[rn]))):
                viol("stored_sequences_not_consecutive", where=where, run=rn, got=seqs[:16], appended=len(model[rn]))
                return seqs
            for s, m in zip(stored, model[rn]):
                if s.run_id != rn or json.loads(s.event.model_dump_json()) != m["dump"]:
                    viol("stored_event_differs_from_appended", where=where, run=rn, seq=s.sequence)
                    break
            return seqs

        async def settle(where):
            await asyncio.sleep(settle_s)
            for _ in range(30):  # let everything that became ready at this very instant run to its next wait
                await asyncio.sleep(0)
            snap = []
            for sub in subs:
                check_sub(sub, where)
                snap.append([[g[0] for g in sub.got], sub.ended, sub.rejected])
                if not sub.closed and sub.rejected is None and len(expected(sub)[0]) > sub.credits:
                    stats["slow_consumer"] = True  # suspended at a yield with undelivered events behind it
            obs["settles"].append(snap)

        try:
            for rn in runs:
                await call("update", writer.update(self.PH(handler_id=f"h-{rn}", workflow_name="wf", status="running", run_id=rn)))
            for op in [["app", 0, kd] for kd in case.get("pre", [])] + list(case["ops"]):
                name = op[0]
                if name == "app":
                    rn, kind = runs[op[1]], op[2]
                    tagc[0] += 1
                    env = self.make_env(kind, tagc[0])
                    if any(m["kind"] in TERMINAL_KINDS for m in model[rn]):
                        stats["append_after_terminal"] = True
                    if op[1] == 1:
                        stats["two_runs"] = True
                    if kind in TERMINAL_KINDS:
                        status = {"failed": "failed", "timedout": "failed", "cancelled": "cancelled"}.get(kind, "completed")
                        await call("update_handler_status", writer.update_handler_status(rn, status=status))
                    await call("append_event", writer.append_event(rn, env))
                    model[rn].append({"kind": kind, "dump": json.loads(env.model_dump_json())})
                elif name == "sub":
                    rn = runs[op[1]]
                    start_store_sub(rn, resolve(rn, op[2]), int(op[3]))
                elif name == "req":
                    rn, p = runs[op[1]], op[2]
                    a = p["after"]
                    after = None if a[0] == "absent" else ("now" if a[0] == "now" else resolve(rn, a))
                    leid = None if p["leid"] is None else resolve(rn, p["leid"])
                    if after in (None, "now"):
                        stats["api_now"] = True
                    if leid is not None and p["sse"]:
                        stats["api_header"] = True
                    await start_api_sub(rn, {"after": after, "leid": leid, "sse": p["sse"], "internal": p["internal"], "qualname": p["qualname"]}, int(op[3]))
                elif name == "adv":
                    if subs:
                        sub = subs[op[1] % len(subs)]
                        if not sub.closed and sub.rejected is None:
                            sub.credits += int(op[2])
                            sub.gate.set()
                elif name == "recon":
                    if subs:
                        old = subs[op[1] % len(subs)]
                        if old.closed or old.rejected is not None or (old.via == "api" and not old.sse):
                            continue
                        # reach a fixpoint first, so that the sequence the client "saw last" is the same on every backend
                        await settle("before_disconnect")
                        await disconnect(old)
                        check_sub(old, "disconnect")
                        last = old.got[-1][0] if old.got else None
                        stats["reconnect"] = True
                        if old.via == "store":
                            start_store_sub(old.run, old.k if last is None else last, int(op[2]))
                        else:
                            p = dict(old.params)
                            if last is not None:
                                p["leid"] = last  # what an EventSource client sends on reconnect
                            await start_api_sub(old.run, p, int(op[2]))
                elif name == "yield":
                    for _ in range(int(op[1])):
                        await asyncio.sleep(0)
                elif name == "sleep":
                    await asyncio.sleep(SLEEPS[int(op[1])] * poll)
                elif name == "settle":
                    await settle("settle")
                elif name == "query":
                    rn, after, limit = runs[op[1]], op[2], op[3]
                    got = await call("query_events", reader.query_events(rn, after_sequence=after, limit=limit))
                    want = [i for i in range(len(model[rn])) if after is None or i > after]
                    if limit is not None:
                        want = want[:limit]
                    seqs = [s.sequence for s in got]
                    obs["queries"].append(seqs)
                    if seqs != want:
                        viol("query_events_wrong_result", run=rn, after=after, limit=limit, got=seqs[:16], want=want[:16])
            await settle("end")
            obs["final"] = {rn: await check_log(rn, "end") for rn in runs}
            # every open subscription gets enough credit: the complete remainder must arrive
            for sub in subs:
                if not sub.closed and sub.rejected is None:
                    # enough for everything that can legitimately arrive plus the end-of-stream request, but bounded
                    # (a subscription that yields forever must stop at a yield, not fill the memory)
                    sub.credits = max(sub.credits, len(sub.got) + len(model[sub.run]) + 2)
                    sub.gate.set()
            await settle("drain")
            for sub in subs:
                if any(g[0] is not None and g[0] >= sub.len_at_start for g in sub.got):
                    stats["waited"] = True  # received an event appended after it subscribed
                if 0 <= sub.k < sub.len_at_start - 1:
                    stats["inside_cursor"] = True
                if sub.k >= sub.len_at_start:
                    stats["cursor_beyond_end"] = True
                if sub.heartbeats:
                    stats["heartbeat"] = True
        except _Abort:
            pass
        finally:
            for sub in subs:
                if sub.task is not None and not sub.task.done():
                    sub.task.cancel()
            await asyncio.gather(*[s.task for s in subs if s.task is not None], return_exceptions=True)

    # ------------------------------------------------------------------ case

    def run_case(self, case):
        r = CaseResult()
        stats: dict[str, bool] = {}
        observations = {}
        for backend in BACKENDS:
            observations[backend] = self._run_backend(case, backend, r, stats)
        if not r.violations:
            ref = observations["memory"]
            for backend in BACKENDS[1:]:
                if observations[backend] != ref:
                    what = [k for k in ("settles", "queries", "final") if observations[backend][k] != ref[k]]
                    r.v("backends_disagree", backend=backend, reference="memory", differs_in=what)
        r.nontrivial = bool(stats.get("waited") or stats.get("inside_cursor"))
        for k in ("waited", "inside_cursor", "cursor_beyond_end", "append_after_terminal", "two_runs", "api_now", "api_header", "reconnect", "slow_consumer", "heartbeat"):
            if stats.get(k):
                r.classes.append(k)
        if case.get("split"):
            r.classes.append("sqlite_split_instances")
        return r


PROP = C16
