"""C10 — a waiting step resumes once, with a matching event or a timeout (also across serialize/resume)."""

from __future__ import annotations

import asyncio
import json
import typing

from hypothesis import strategies as st

from .. import boot, genwf
from ..boot import Runaway, VClock
from ..runner import CaseResult, Prop

KEYS = ["a", "b"]


class C10(Prop):
    id = "C10"
    rule = (
        "cases = a waiting step (num_workers 1..3) receiving 1-3 input events; each invocation optionally works, then performs 1-2 "
        "sequential ctx.wait_for_event calls, optionally failing once or twice AFTER its waits were settled and being retried under a retry policy (type Reply/Reply2, optional requirement on the payload field 'key', unique waiter id per "
        "input and wait, timeout None/finite, optional waiter_event, timeout handled or re-raised), then completes; external responses "
        "are sent at generated virtual instants: matching, wrong type, subclass of the requested type, wrong key, duplicates at one "
        "instant and later, early (before the waiter exists) and late (after the timeout); optionally the context is serialized "
        "through JSON at a generated instant, the first life killed and a fresh workflow instance resumed from Context.from_dict (optionally that resumed run is serialized again before its first loop turn and resumed from the second snapshot). "
        "Oracle over the body log and the stream: each input completes the waiting step at most once; every value returned by a wait "
        "has exactly the requested type and satisfies the requirement, is the same on every replay, was sent after the waiter was "
        "registered and is the earliest such event; a finite-timeout wait raises TimeoutError only if no matching event was sent in "
        "its window and not before the deadline; a matching event sent inside the window is delivered (horizon); the waiter_event "
        "appears at most once per waiter id per life (exactly once in uninterrupted completed runs). Timing clauses are asserted for "
        "uninterrupted runs only. Non-trivial = a duplicate matching response, a timeout that fired, or a resume with a pending waiter."
    )
    assumptions = [
        "waiter ids are unique per (input event, wait) as the API documents for concurrent waiters; default derived ids are used only when every wait of the case differs from every other in (event type, requirements)",
        "events sent at exactly the virtual instant a waiter is registered or expires may go either way and are excluded from the timing clauses",
        "after a resume, timing clauses are not asserted (waiter timers are in-memory only: that is property C14)",
    ]
    budgets = {"quick": 2500, "thorough": 12000}
    wall = {"quick": 60.0, "thorough": 900.0}

    def setup(self):
        genwf.M()

    def strategy(self, tier):
        @st.composite
        def case(draw):
            n_in = draw(st.sampled_from([1, 1, 2, 3]))
            inputs = []
            for _ in range(n_in):
                waits = []
                for _w in range(draw(st.sampled_from([1, 1, 1, 2]))):
                    waits.append(
                        {
                            "type": draw(st.sampled_from(["Reply", "Reply", "Reply2"])),
                            "req": draw(st.booleans()),
                            # the requirement's value: the input's own key, or a value of this wait's own (two waits of one step for the
                            # same type whose requirements differ only in the VALUE)
                            "rkey": draw(st.sampled_from([None, None, "a", "b"])),
                            "timeout": draw(st.sampled_from([None, None, 3, 6])),
                            "wev": draw(st.booleans()),
                            "on_timeout": draw(st.sampled_from(["continue", "continue", "continue", "raise"])),
                        }
                    )
                inputs.append({"key": draw(st.sampled_from(KEYS)), "pre": draw(st.sampled_from([0, 0, 1])), "post": draw(st.sampled_from([0, 0, 1, 2])), "waits": waits,
                               "fail_after": draw(st.sampled_from([0, 0, 0, 1, 2]))})
            replies = []
            for _ in range(draw(st.integers(0, 6))):
                replies.append(
                    [
                        draw(st.sampled_from([0, 1, 1, 2, 2, 3, 4, 5, 6, 7, 8, 10, 12, 0.5, 1.5, 2.5, 3.5, 4.5, 5.5, 7.5, 9.5])),  # half instants: strictly inside a step's work before/after its waits
                        draw(st.sampled_from(["Reply", "Reply", "Reply", "Reply2", "ReplySub"])),
                        draw(st.sampled_from(KEYS)),
                    ]
                )
            if replies and draw(st.booleans()):
                replies.append(list(draw(st.sampled_from(replies))))  # a duplicate at the same instant
            sequential = n_in >= 2 and draw(st.integers(0, 3)) == 0
            if sequential:
                # every wait of a sequential case runs into its own timeout (nobody answers, the step carries on), so that a waiter id
                # is only ever re-used after its previous timer has FIRED.  (Re-use after an ANSWERED timed wait is a known finding --
                # the old timer is not cancelled and times out the new waiter -- kept as a fixed replay, not generated: its symptoms
                # are too varied to attribute one by one.)
                for x in inputs:
                    x["fail_after"] = 0
                    for w in x["waits"]:
                        w["timeout"] = draw(st.sampled_from([3, 6]))
                        w["on_timeout"] = "continue"
                replies = []
            return {
                "workers": draw(st.integers(1, 3)),
                "retry_wait": draw(st.sampled_from([0, 0, 1])),
                "inputs": inputs,
                # derived (default) waiter ids: only where they are unique, i.e. one input whose waits differ in (type, requirement)
                # (across ALL inputs: runs of one step share the waiter-id space; (type, requirements) is what the default id is made of)
                "derived_ids": False if False else len({(w["type"], (w.get("rkey") or x["key"]) if w["req"] else None) for x in inputs for w in x["waits"]}) == sum(len(x["waits"]) for x in inputs)
                and draw(st.integers(0, 2)) == 0,
                "replies": sorted(replies),
                "snap": None if sequential else draw(st.sampled_from([None, None, None, None, None, None, 0, 1, 2, 3, 4, 5, 7, 9])),
                "ties": draw(st.lists(st.integers(0, 7), max_size=8)),
                # the resumed run is serialized again before its first loop turn and resumed from that second snapshot
                "resnap": draw(st.sampled_from([False, False, True])),
                # inputs handed to the waiting step one after the other (the next one only when the previous one completed), all using
                # the SAME waiter ids per wait position: the re-prompt / multi-turn shape, where a waiter id is reused once it is free
                "sequential": sequential,
            }

        return case()

    # ------------------------------------------------------------------ workflow
    def _factory(self, case, rec, log):
        m = genwf.M()
        ge, step, Context, Workflow = m["ge"], m["step"], m["Context"], m["Workflow"]
        WaitingForEvent = m["results"].WaitingForEvent
        inputs = case["inputs"]

        sequential = bool(case.get("sequential"))

        async def start(self, ctx, ev):
            for i, inp in enumerate(inputs):
                if sequential and i > 0:
                    break
                ctx.send_event(rec.mk("E1", "send", key=inp["key"], idx=i))
            return None

        async def waiter(self, ctx, ev):
            i = ev.get("idx")
            inp = inputs[i]
            ri = ctx.retry_info()
            ent = {"uid": ev.get("uid"), "idx": i, "seg": rec.segment, "attempt": ri.retry_number, "t_in": VClock.t, "s_in": rec.nseq(), "waits": [], "exit": None, "t_out": None}
            log["entries"].append(ent)
            try:
                if inp["pre"]:
                    await asyncio.sleep(inp["pre"])
                for j, w in enumerate(inp["waits"]):
                    wid = f"w-{j}" if sequential else (None if case["derived_ids"] else f"w-{i}-{j}")
                    wrec = {"j": j, "wid": wid, "t": None, "res": None}
                    ent["waits"].append(wrec)
                    req = {"key": w.get("rkey") or inp["key"]} if w["req"] else None
                    wev = rec.mk("Ask", "waiter_event", wid=f"w-{i}-{j}") if w["wev"] else None
                    try:
                        got = await ctx.wait_for_event(ge.POOL[w["type"]], waiter_event=wev, waiter_id=wid, requirements=req, timeout=w["timeout"])
                    except asyncio.TimeoutError:
                        wrec["t"], wrec["res"] = VClock.t, "timeout"
                        if w["on_timeout"] == "raise":
                            raise
                        continue
                    except WaitingForEvent:
                        wrec["t"], wrec["res"], wrec["s"] = VClock.t, "waiting", rec.nseq()
                        raise
                    wrec["t"], wrec["res"] = VClock.t, "got"
                    wrec["got"] = {"uid": got.get("uid"), "type": type(got).__name__, "key": got.get("key")}
                if ri.retry_number < inp.get("fail_after", 0):
                    # the step fails AFTER its waits were settled and is retried: the retry must see the same settled waits
                    raise ge.GenError(f"after-wait:{i}:{ri.retry_number}")
                if inp["post"]:
                    await asyncio.sleep(inp["post"])
                ent["exit"] = "returned"
                return rec.mk("E2", "ret", idx=i)
            except WaitingForEvent:
                ent["exit"] = "waiting"
                raise
            except asyncio.CancelledError:
                ent["exit"] = "cancelled"
                raise
            except BaseException as e:  # noqa: BLE001
                ent["exit"] = "raised:" + type(e).__name__
                raise
            finally:
                ent["t_out"], ent["s_out"] = VClock.t, rec.nseq()

        async def after(self, ctx, ev):
            log["done"].append({"idx": ev.get("idx"), "t": VClock.t, "seg": rec.segment})
            nxt = ev.get("idx") + 1
            if sequential and nxt < len(inputs) and not any(d["idx"] == nxt for d in log.get("handed", [])):
                log.setdefault("handed", []).append({"idx": nxt})
                return rec.mk("E1", "ret", key=inputs[nxt]["key"], idx=nxt)
            return None

        async def fin(self, ctx, ev):
            return rec.mk("GStop", "ret", result="done")

        def ann(fn, name, ev_t, ret_t):
            fn.__name__ = name
            fn.__qualname__ = f"C10Wf.{name}"
            fn.__annotations__ = {"ctx": Context, "ev": ev_t, "return": ret_t}
            return fn

        N = type(None)
        U = typing.Union
        members = {
            "start": step(ann(start, "start", ge.GStart, U[ge.E1, N])),
            "waiter": step(
                num_workers=case["workers"],
                retry_policy=m["rp"].retry_policy(wait=m["rp"].wait_fixed(case.get("retry_wait", 0)), stop=m["rp"].stop_after_attempt(3))
                if any(x.get("fail_after") for x in inputs)
                else None,
            )(ann(waiter, "waiter", ge.E1, U[ge.E2, N])),
            "after": step(ann(after, "after", ge.E2, U[ge.E1, ge.GStop, N])),
            "fin": step(ann(fin, "fin", ge.Fin, ge.GStop)),
        }
        cls = type("C10Wf", (Workflow,), members)

        def factory(spec, runtime):
            return cls(timeout=None, runtime=runtime)

        return factory

    # ------------------------------------------------------------------ run + oracle
    def run_case(self, case):
        case = json.loads(json.dumps(case))
        r = CaseResult()
        log = {"entries": [], "done": []}
        span = 15.0 + sum(i["pre"] + i["post"] + sum((w["timeout"] or 0) for w in i["waits"]) for i in case["inputs"]) + max([x[0] for x in case["replies"]] + [0])
        fin_at = 2 * span + 10
        ext = [[t, "send", typ, None, {"key": key}] for t, typ, key in case["replies"]]
        ext.append([fin_at, "send", "Fin", None, {}])
        spec = {"steps": [], "ext": ext, "ties": case["ties"], "timeout": None}
        if case["snap"] is not None:
            spec["snap"] = case["snap"]
            spec["resnap"] = bool(case.get("resnap"))
        rec = genwf.Rec(spec)

        async def main():
            return await genwf.run_program(spec, rec, wf_factory=self._factory(case, rec, log), horizon=fin_at * 3 + 50, probe=False)

        try:
            boot.run_virtual(main)
        except Runaway as e:
            r.v("runaway", detail=str(e)[:80])
            return r
        finally:
            genwf.CUR = None

        resumed = rec.resumed
        snap_t = getattr(rec, "snap_t", None)
        any_raise = any(w["on_timeout"] == "raise" and w["timeout"] for i in case["inputs"] for w in i["waits"])
        kind = rec.outcome["kind"]
        if kind == "failed":
            exc = rec.outcome.get("exc")
            if not (any_raise and isinstance(exc, (asyncio.TimeoutError, TimeoutError))):
                r.v("unexpected_failure", exc=repr(exc)[:120])
        elif kind != "result":
            r.v("unexpected_outcome", outcome=kind)

        sent = [e for e in rec.emits.values() if e["via"] == "ext" and e["type"] != "Fin"]
        sent_by_uid = {e["uid"]: e for e in sent}
        dup_matching = False
        rp_of: dict = {}
        reg0: dict = {}
        timeouts_fired = 0
        pending_at_resume = False

        for i, inp in enumerate(case["inputs"]):
            ents = [e for e in log["entries"] if e["idx"] == i]
            # was a wait *with requirements* of this input pending (registered, unresolved) when the snapshot was taken?
            # (requirements are not serialized: such a waiter is re-established by re-delivering the input after the resume)
            rp = False
            if resumed:
                l0 = [e for e in ents if e["seg"] == 0]
                if l0 and l0[-1]["exit"] == "waiting" and l0[-1]["waits"]:
                    rp = bool(inp["waits"][l0[-1]["waits"][-1]["j"]]["req"])
            rp_of[i] = rp
            for seg in (0, 1):
                es = [e for e in ents if e["seg"] == seg]
                comps = [e for e in es if e["exit"] == "returned"]
                if len(comps) > 1:
                    r.v("step_completed_twice", resumed=resumed, life=seg, waits=len(inp["waits"]), req_wait_pending_at_snapshot=rp)
                fa = inp.get("fail_after", 0)
                retried = any(x.get("fail_after") for x in case["inputs"])
                # with a retry policy on the step an unhandled TimeoutError is retried too (up to 3 attempts)
                extra = fa + (2 if retried and any(w["on_timeout"] == "raise" and w["timeout"] for w in inp["waits"]) else 0)
                bound = 1 + len(inp["waits"]) + extra if seg == 0 else 2 + 2 * len(inp["waits"]) + 2 * extra
                if len(es) > bound:
                    r.v("too_many_replays", resumed=resumed, life=seg, entries=len(es), bound=bound, req_wait_pending_at_snapshot=rp, step_completed_twice=len(comps) > 1)
            c0 = [e for e in ents if e["seg"] == 0 and e["exit"] == "returned"]
            c1 = [e for e in ents if e["seg"] == 1]
            if c0 and snap_t is not None and c0[0]["t_out"] < snap_t and c1:
                r.v("completed_step_reentered_after_resume", reentries=len(c1))
            if resumed and not c0 and any(w["res"] == "waiting" for e in ents if e["seg"] == 0 for w in e["waits"]):
                pending_at_resume = True
            for j, w in enumerate(inp["waits"]):
                recs = [(e, x) for e in ents for x in e["waits"] if x["j"] == j]
                gots = [(e, x) for e, x in recs if x["res"] == "got"]
                for seg in (0, 1):
                    uids = {x["got"]["uid"] for e, x in gots if e["seg"] == seg}
                    if len(uids) > 1:
                        r.v("wait_result_changed_between_replays", resumed=resumed, life=seg, req_wait_pending_at_snapshot=rp)
                for e, x in gots:
                    g = x["got"]
                    if g["type"] != w["type"]:
                        r.v("wait_returned_wrong_type", got=g["type"], want=w["type"])
                    if w["req"] and g["key"] != (w.get("rkey") or inp["key"]):
                        # the known rehydration race: requirement values are not serialized, the restored waiter accepts any event of
                        # its type until the re-delivered input (the first invocation of this input in the resumed life) has
                        # re-registered it.  Two shapes belong to it:
                        #  (a) the wrong event arrived while that re-run was still DELAYED in the step's queue (every worker busy with
                        #      other inputs, or the resume instant itself): the re-run itself is handed the unchecked event;
                        #  (b) it arrived while the re-run was working towards its wait_for_event call, and a second invocation STARTED
                        #      before the re-registration was processed (on another worker) with the snapshot holding the unchecked event.
                        # An invocation started by the re-run's own result (i.e. after the re-registration, which replaces the waiter by a
                        # fresh unresolved one) is not part of the finding, nor is a first invocation that was not delayed.
                        def delayed_(uid):
                            sv = sent_by_uid.get(uid)
                            ts = sv["t"] if sv else None
                            if ts is None:
                                return True
                            busy_others = sum(
                                1 for e2 in log["entries"]
                                if e2["seg"] == 1 and e2["idx"] != i and e2["t_in"] <= ts + 1e-9 and (e2["t_out"] is None or e2["t_out"] >= ts - 1e-9)
                            )
                            return busy_others >= case["workers"] or (snap_t is not None and abs(ts - snap_t) < 1e-9)

                        seg1 = sorted((e2 for e2 in ents if e2["seg"] == 1), key=lambda e2: e2["s_in"])
                        if not resumed or e["seg"] != 1 or not seg1:
                            before = False
                        elif e is seg1[0]:
                            before = delayed_(g["uid"])
                        else:
                            R = seg1[0]
                            r_got = [x2 for x2 in R["waits"] if x2["j"] == j and x2["res"] == "got" and x2["got"]["key"] != (w.get("rkey") or inp["key"])]
                            rereg = sorted(((x2["t"], x2.get("s", 0), id(e2)) for e2 in seg1 for x2 in e2["waits"] if x2["j"] == j and x2["res"] == "waiting"))
                            if r_got:
                                before = delayed_(r_got[0]["got"]["uid"])  # shape (a), replayed
                            elif not rereg:
                                before = True  # the re-run was cut short before it reached the wait
                            elif (e["t_in"], e["s_in"]) < rereg[0][:2]:
                                before = True
                            else:
                                # at one virtual instant the reducer may hand a worker freed by ANOTHER invocation's result to the queued
                                # replay before it has processed the re-run's own result (a tie); with no other invocation ending at that
                                # instant the replay can only have been started by the re-run's own result, after the re-registration
                                t_r, _s_r, rerun = rereg[0]
                                before = abs(e["t_in"] - t_r) < 1e-9 and any(
                                    id(e2) not in (rerun, id(e)) and e2["seg"] == 1 and e2["t_out"] is not None and abs(e2["t_out"] - t_r) < 1e-9 for e2 in log["entries"]
                                )
                        r.v("wait_returned_event_violating_requirement", resumed=resumed, life=e["seg"], req_wait_pending_at_snapshot=rp,
                            replay_started_before_waiter_reregistered=before)
                w0 = [x["t"] for e, x in recs if e["seg"] == 0 and x["res"] == "waiting"]
                if w0:
                    reg0[f"w-{i}-{j}"] = w0[0]
                if resumed and snap_t is not None:
                    t0 = [x["t"] for e, x in recs if e["seg"] == 0 and x["res"] == "timeout"]
                    again = [(e, x) for e, x in recs if e["seg"] == 1 and x["res"] in ("waiting", "got")]
                    if t0 and min(t0) < snap_t and again:
                        # the known double run after a resume (the re-delivered input AND a replay started by an event that resolved the
                        # restored waiter): the second of them finds the step completed and its waiters deleted, and starts from scratch
                        e_a = again[0][0]
                        done_before = any(e2["seg"] == 1 and e2["exit"] == "returned" and e2["s_in"] < e_a["s_in"] for e2 in ents)
                        r.v("timed_out_wait_waits_again_after_resume", then=again[0][1]["res"], resumed=True, life=1, req_wait_pending_at_snapshot=rp,
                            input_already_completed_in_resumed_life=done_before)
                if resumed:
                    continue
                # ---- timing clauses (uninterrupted runs only)
                regs = [x["t"] for e, x in recs if x["res"] == "waiting"]
                if not regs:
                    if any(x["res"] == "timeout" for _e, x in recs) and w["timeout"]:
                        # a TimeoutError without the wait ever having been registered (no suspension): no timeout period elapsed
                        r.v("timeout_before_deadline", never_registered=True, sequential=bool(case.get("sequential")))
                    continue
                reg = regs[0]
                deadline = reg + w["timeout"] if w["timeout"] else None
                matching = [
                    s
                    for s in sent
                    if s["type"] == w["type"] and (not w["req"] or s["fields"].get("key") == (w.get("rkey") or inp["key"]))
                ]
                strictly_in = [s for s in matching if s["t"] > reg and (deadline is None or s["t"] < deadline)]
                at_edges = [s for s in matching if s["t"] == reg or (deadline is not None and s["t"] == deadline)]
                if len([s for s in matching if s["t"] >= reg]) >= 2:
                    dup_matching = True
                touts = [(e, x) for e, x in recs if x["res"] == "timeout"]
                if touts:
                    timeouts_fired += 1
                    t_to = min(x["t"] for _, x in touts)
                    # does this timeout coincide with the deadline of an EARLIER wait that used the same waiter id (sequential inputs
                    # re-using ids)?  That wait's timer is not cancelled when it is answered and is keyed by the id alone.
                    stale = False
                    if case.get("sequential"):
                        for i2, inp2 in enumerate(case["inputs"][:i]):
                            if j < len(inp2["waits"]) and inp2["waits"][j]["timeout"]:
                                regs2 = [x2["t"] for e2 in log["entries"] if e2["idx"] == i2 for x2 in e2["waits"] if x2["j"] == j and x2["res"] == "waiting"]
                                if regs2 and abs(regs2[0] + inp2["waits"][j]["timeout"] - t_to) < 1e-6:
                                    stale = True
                    if deadline is None:
                        r.v("timeout_without_timeout", stale_timer_of_earlier_wait_with_same_id=stale)
                    else:
                        if strictly_in:
                            r.v("timeout_although_matching_event_arrived_in_time", stale_timer_of_earlier_wait_with_same_id=stale)
                        if t_to < deadline - 1e-9:
                            r.v("timeout_before_deadline", stale_timer_of_earlier_wait_with_same_id=stale)
                        if gots:
                            r.v("wait_both_timed_out_and_returned")
                if gots:
                    g = gots[0][1]["got"]
                    s = sent_by_uid.get(g["uid"])
                    if s is None:
                        r.v("wait_returned_unknown_event")
                    else:
                        if s["t"] < reg:
                            r.v("wait_returned_event_sent_before_registration")
                        if deadline is not None and s["t"] > deadline:
                            r.v("wait_returned_event_sent_after_deadline")
                        if not at_edges and strictly_in and s["t"] != min(x["t"] for x in strictly_in):
                            r.v("wait_did_not_return_earliest_match")
                elif strictly_in and not touts and kind == "result":
                    # a matching event was sent inside the window and the run lived until Fin: it must have been delivered
                    r.v("matching_event_never_delivered", waits=len(inp["waits"]))
        # waiter events on the stream
        seg0 = getattr(rec, "stream_seg0", None)
        per: dict = {}
        for idx, (t, ev) in enumerate(rec.stream):
            if type(ev).__name__ == "Ask":
                life = 1 if (seg0 is not None and idx >= seg0) else 0
                per[(ev.get("wid"), life)] = per.get((ev.get("wid"), life), 0) + 1
        for (wid, life), n in per.items():
            if n > 1:
                r.v("waiter_event_published_twice", life=life, resumed=resumed)
        if resumed and snap_t is not None:
            for wid in sorted({w for (w, _life) in per}):
                if per.get((wid, 0)) and per.get((wid, 1)) and reg0.get(wid) is not None and reg0[wid] < snap_t:
                    r.v("waiter_event_republished_after_resume", req_wait_pending_at_snapshot=rp_of.get(int(wid.split("-")[1]), False), resumed=True, life=1)
        if not resumed and kind == "result":
            for i, inp in enumerate(case["inputs"]):
                ents = [e for e in log["entries"] if e["idx"] == i]
                for j, w in enumerate(inp["waits"]):
                    waited = any(x["j"] == j and x["res"] == "waiting" for e in ents for x in e["waits"])
                    if w["wev"] and waited and per.get((f"w-{i}-{j}", 0), 0) != 1:
                        r.v("waiter_event_not_published_once", n=per.get((f"w-{i}-{j}", 0), 0))
        if dup_matching:
            r.classes.append("duplicate_matching_response")
        if timeouts_fired:
            r.classes.append("timeout_fired")
        if resumed:
            r.classes.append("resumed")
            if case.get("resnap"):
                r.classes.append("resumed_from_second_snapshot")
        if pending_at_resume:
            r.classes.append("resume_with_pending_waiter")
        if any(len(i["waits"]) > 1 for i in case["inputs"]):
            r.classes.append("two_waits")
        if case.get("sequential"):
            r.classes.append("sequential_inputs_reusing_waiter_ids")
        if case["derived_ids"]:
            r.classes.append("default_waiter_ids")
            allw = [(w["type"], w.get("rkey") or x["key"]) for x in case["inputs"] for w in x["waits"] if w["req"]]
            if len({t for t, _ in allw}) < len(allw):
                r.classes.append("default_ids_differ_only_in_requirement_value")
        if any(e.get("attempt", 0) > 0 for e in log["entries"]):
            r.classes.append("retried_after_wait")
        r.classes.append("outcome_" + kind)
        r.nontrivial = dup_matching or timeouts_fired > 0 or pending_at_resume
        r.sample = {"case": case, "entries": len(log["entries"]), "completed": len(log["done"]), "outcome": kind}
        return r

PROP = C10
