"""C07 — retry building blocks obey their algebra and bounds (pure inputs)."""

from __future__ import annotations

import math
from datetime import timedelta

from hypothesis import strategies as st

from ..runner import CaseResult, Prop

EXC_TYPES = {
    "ValueError": ValueError,
    "KeyError": KeyError,
    "TypeError": TypeError,
    "RuntimeError": RuntimeError,
    "TimeoutError": TimeoutError,
    "ConnectionError": ConnectionError,
    "OSError": OSError,
    "LookupError": LookupError,
    "Exception": Exception,
}

# ------------------------------------------------------------------ generators

_msgs = st.sampled_from(["", "boom", "rate limit", "HTTP 503", "please retry", "x" * 40, "temporary failure"])
_tnames = st.sampled_from(sorted(EXC_TYPES))


def _exc_spec(depth=2):
    base = st.fixed_dictionaries({"type": _tnames, "msg": _msgs, "cause": st.none()})
    if depth == 0:
        return base
    return st.fixed_dictionaries(
        {"type": _tnames, "msg": _msgs, "cause": st.one_of(st.none(), _exc_spec(depth - 1))}
    )


_retry_leaf = st.one_of(
    st.tuples(st.just("type"), st.lists(_tnames, min_size=1, max_size=3)),
    st.tuples(st.just("not_type"), st.lists(_tnames, min_size=1, max_size=3)),
    st.tuples(st.just("unless_type"), st.lists(_tnames, min_size=1, max_size=3)),
    st.tuples(st.just("msg"), _msgs),
    st.tuples(st.just("match"), st.sampled_from(["rate", r"HTTP 5\d\d", "^$", "retry$", "x{10,}"])),
    st.tuples(st.just("not_msg"), _msgs),
    st.tuples(st.just("not_match"), st.sampled_from(["rate", r"HTTP 5\d\d", "^$"])),
    st.tuples(st.just("cause"), st.lists(_tnames, min_size=1, max_size=2)),
    st.tuples(st.just("always"), st.none()),
    st.tuples(st.just("never"), st.none()),
    st.tuples(st.just("pred_len"), st.integers(0, 12)),
    st.tuples(st.just("lambda_len"), st.integers(0, 12)),  # a bare callable (exercises __ror__/__rand__)
    st.tuples(st.just("lambda_len"), st.integers(0, 12)),
    st.tuples(st.just("lambda_len"), st.sampled_from([0, 3, 4, 9, 11])),
)


def _retry_tree():
    return st.recursive(
        _retry_leaf.map(list),
        lambda ch: st.tuples(
            st.sampled_from(["any", "all"]),
            st.lists(ch, min_size=0, max_size=4),
            st.sampled_from(["fn", "op"]),
        ).map(list),
        max_leaves=10,
    )


_stop_leaf = st.one_of(
    st.tuples(st.just("attempt"), st.integers(-1, 8)),
    st.tuples(st.just("delay"), st.floats(0, 100, allow_nan=False)),
    st.tuples(st.just("delay_td"), st.integers(0, 100)),
    st.tuples(st.just("before"), st.floats(0, 100, allow_nan=False)),
    st.tuples(st.just("never"), st.none()),
)


def _stop_tree():
    return st.recursive(
        _stop_leaf.map(list),
        lambda ch: st.tuples(
            st.sampled_from(["any", "all"]),
            st.lists(ch, min_size=0, max_size=4),
            st.sampled_from(["fn", "op"]),
        ).map(list),
        max_leaves=10,
    )


def _nn(maxv=1e6):
    return st.one_of(
        st.sampled_from([0, 0.0, 0.5, 1, 1.0, 2, 5, 10, 60, 1000.0]),
        st.floats(0, maxv, allow_nan=False, allow_infinity=False),
        st.integers(0, 1000),
    )


def _pair_sorted(maxv=1e6):
    return st.tuples(_nn(maxv), _nn(maxv)).map(lambda p: sorted(p, key=float))


def _pair_any(maxv=1e6):
    # mostly min<=max; sometimes min>max (e.g. wait_exponential(min=120) with the default max=60): the module mirrors
    # tenacity, whose formula applies the min floor last, so the documented result is then max(0, min)
    return st.one_of(_pair_sorted(maxv), _pair_sorted(maxv), _pair_sorted(maxv), _pair_sorted(maxv), st.tuples(_nn(maxv), _nn(maxv)).map(list))


_wait_leaf = st.one_of(
    st.tuples(st.just("fixed"), st.fixed_dictionaries({"wait": _nn(), "td": st.booleans()})),
    st.tuples(st.just("none"), st.just({})),
    st.tuples(st.just("lambda_fixed"), st.fixed_dictionaries({"wait": _nn()})),  # bare callable (exercises __radd__)
    st.tuples(
        st.just("exponential"),
        st.fixed_dictionaries(
            {
                "multiplier": _nn(1e4),
                "exp_base": st.one_of(st.sampled_from([1, 1.5, 2, 2.0, 3, 10]), st.floats(0, 100, allow_nan=False)),
                "mm": _pair_any(),
                "td": st.booleans(),
            }
        ),
    ),
    st.tuples(
        st.just("incrementing"),
        st.fixed_dictionaries(
            {
                "start": _nn(1e4),
                "increment": st.one_of(_nn(1e4), st.floats(-100, 100, allow_nan=False)),
                "max": st.one_of(st.none(), _nn()),
            }
        ),
    ),
    st.tuples(st.just("random"), st.fixed_dictionaries({"mm": _pair_sorted(1e4)})),
    st.tuples(
        st.just("exp_jitter"),
        st.fixed_dictionaries(
            {
                "initial": _nn(1e4),
                "exp_base": st.one_of(st.sampled_from([1, 2, 2.0, 3]), st.floats(0, 100, allow_nan=False)),
                "max": _nn(),
                "jitter": _nn(100),
            }
        ),
    ),
    st.tuples(
        st.sampled_from(["random_exp", "full_jitter"]),
        st.fixed_dictionaries(
            {
                "multiplier": _nn(1e4),
                "exp_base": st.one_of(st.sampled_from([1, 2, 2.0, 3]), st.floats(0, 100, allow_nan=False)),
                "mm": _pair_any(),
            }
        ),
    ),
)


def _wait_tree():
    return st.recursive(
        _wait_leaf.map(list),
        lambda ch: st.one_of(
            st.tuples(st.just("combine"), st.lists(ch, min_size=0, max_size=4), st.sampled_from(["fn", "op", "sum"])).map(list),
            st.tuples(st.just("chain"), st.lists(ch, min_size=1, max_size=4), st.just("fn")).map(list),
        ),
        max_leaves=8,
    )


_attempts = st.one_of(st.integers(0, 12), st.integers(0, 60), st.integers(0, 3000))
_seed = st.one_of(st.none(), st.integers(0, 2**32 - 1))


# ------------------------------------------------------------------ property


class C07(Prop):
    id = "C07"
    rule = (
        "cases = random retry/stop condition trees with an exception (type, message, __cause__ chain) or "
        "(attempts, elapsed, upcoming_sleep), and wait-strategy trees with (attempts, seed); parameters are "
        "drawn inside each strategy's documented domain (non-negative, min<=max). Non-trivial = tree depth>=2, "
        "or a combinator with >=2 children, or a wait whose unclamped value was clamped. Distinct by canonical JSON."
    )
    assumptions = [
        "leaf conditions are evaluated by the real leaf objects; the oracle is the truth table any()/all() over independently evaluated children",
        "wait parameter domain: finite, non-negative; min<=max mostly, and for the exponential families also min>max, where the tenacity formula the module mirrors (floor applied last) gives max(0, min)",
    ]
    budgets = {"quick": 4000, "thorough": 40000}
    wall = {"quick": 60.0, "thorough": 600.0}

    def setup(self):
        import workflows.retry_policy as rp

        self.rp = rp
        self._paths = set()

    def strategy(self, tier):
        return st.one_of(
            st.fixed_dictionaries({"k": st.just("retry"), "tree": _retry_tree(), "exc": _exc_spec()}),
            st.fixed_dictionaries(
                {
                    "k": st.just("stop"),
                    "tree": _stop_tree(),
                    "attempts": st.integers(0, 10),
                    "elapsed": st.one_of(st.floats(0, 200, allow_nan=False), st.integers(0, 100)),
                    "sleep": st.one_of(st.just(0.0), st.floats(0, 100, allow_nan=False)),
                }
            ),
            st.fixed_dictionaries({"k": st.just("wait"), "tree": _wait_tree(), "attempts": _attempts, "seed": _seed}),
            # bare callables as left operands: callable + strategy, callable | cond, callable & cond
            st.fixed_dictionaries(
                {
                    "k": st.just("wait"),
                    "tree": st.tuples(
                        st.just("combine"),
                        st.tuples(
                            st.tuples(st.just("lambda_fixed"), st.fixed_dictionaries({"wait": st.integers(1, 50)})).map(list),
                            _wait_leaf.map(list),
                        ).map(list),
                        st.just("op"),
                    ).map(list),
                    "attempts": st.integers(0, 12),
                    "seed": st.integers(0, 2**32 - 1),
                }
            ),
            st.fixed_dictionaries(
                {
                    "k": st.just("retry"),
                    "tree": st.tuples(
                        st.sampled_from(["any", "all"]),
                        st.tuples(st.tuples(st.just("lambda_len"), st.integers(0, 12)).map(list), _retry_leaf.map(list)).map(list),
                        st.just("op"),
                    ).map(list),
                    "exc": _exc_spec(),
                }
            ),
            st.fixed_dictionaries(
                {
                    "k": st.just("wait"),
                    "tree": _wait_leaf.map(list).filter(lambda n: n[0] in ("random", "exp_jitter", "random_exp", "full_jitter")),
                    "attempts": st.integers(0, 12),
                    "seed": st.integers(0, 2**32 - 1),
                }
            ),
        )

    # ---- builders
    def mk_exc(self, spec):
        if spec is None:
            return None
        e = EXC_TYPES[spec["type"]](spec["msg"])
        c = self.mk_exc(spec.get("cause"))
        if c is not None:
            e.__cause__ = c
        return e

    def mk_retry(self, node):
        rp = self.rp
        k = node[0]
        if k in ("any", "all"):
            kids = [self.mk_retry(c) for c in node[1]]
            if node[2] == "op" and len(kids) >= 2 and not all(type(x).__name__ == "function" for x in kids[:2]):
                if type(kids[0]).__name__ == "function":
                    self._paths.add("ror_rand")
                acc = kids[0]
                for x in kids[1:]:
                    acc = (acc | x) if k == "any" else (acc & x)
                return acc
            return (rp.retry_any if k == "any" else rp.retry_all)(*kids)
        a = node[1]
        if k == "type":
            return rp.retry_if_exception_type(tuple(EXC_TYPES[t] for t in a))
        if k == "not_type":
            return rp.retry_if_not_exception_type(tuple(EXC_TYPES[t] for t in a))
        if k == "unless_type":
            return rp.retry_unless_exception_type(tuple(EXC_TYPES[t] for t in a))
        if k == "msg":
            return rp.retry_if_exception_message(message=a)
        if k == "match":
            return rp.retry_if_exception_message(match=a)
        if k == "not_msg":
            return rp.retry_if_not_exception_message(message=a)
        if k == "not_match":
            return rp.retry_if_not_exception_message(match=a)
        if k == "cause":
            return rp.retry_if_exception_cause_type(tuple(EXC_TYPES[t] for t in a))
        if k == "always":
            return rp.retry_always()
        if k == "never":
            return rp.retry_never()
        if k == "pred_len":
            return rp.retry_if_exception(lambda e, n=a: len(str(e)) > n)
        if k == "lambda_len":
            return lambda e, n=a: len(str(e)) > n
        raise ValueError(k)

    def leaf_expect_retry(self, node, exc):
        """Documented leaf semantics, re-stated independently."""
        import re

        k, a = node[0], node[1]
        s = str(exc)
        if k == "type":
            return isinstance(exc, tuple(EXC_TYPES[t] for t in a))
        if k in ("not_type", "unless_type"):
            return not isinstance(exc, tuple(EXC_TYPES[t] for t in a))
        if k == "msg":
            return s == a
        if k == "match":
            return re.search(a, s) is not None
        if k == "not_msg":
            return s != a
        if k == "not_match":
            return re.search(a, s) is None
        if k == "cause":
            types = tuple(EXC_TYPES[t] for t in a)
            c = exc.__cause__
            seen = 0
            while c is not None and seen < 20:
                if isinstance(c, types):
                    return True
                c = c.__cause__
                seen += 1
            return False
        if k == "always":
            return True
        if k == "never":
            return False
        if k in ("pred_len", "lambda_len"):
            return len(s) > a
        raise ValueError(k)

    def expect_retry(self, node, exc):
        if node[0] == "any":
            return any(self.expect_retry(c, exc) for c in node[1])
        if node[0] == "all":
            return all(self.expect_retry(c, exc) for c in node[1])
        return self.leaf_expect_retry(node, exc)

    def mk_stop(self, node):
        rp = self.rp
        k = node[0]
        if k in ("any", "all"):
            kids = [self.mk_stop(c) for c in node[1]]
            if node[2] == "op" and len(kids) >= 2:
                acc = kids[0]
                for x in kids[1:]:
                    acc = (acc | x) if k == "any" else (acc & x)
                return acc
            return (rp.stop_any if k == "any" else rp.stop_all)(*kids)
        a = node[1]
        if k == "attempt":
            return rp.stop_after_attempt(a)
        if k == "delay":
            return rp.stop_after_delay(a)
        if k == "delay_td":
            return rp.stop_after_delay(timedelta(seconds=a))
        if k == "before":
            return rp.stop_before_delay(a)
        if k == "never":
            return rp.stop_never()
        raise ValueError(k)

    def expect_stop(self, node, attempts, elapsed, sleep):
        k = node[0]
        if k == "any":
            return any(self.expect_stop(c, attempts, elapsed, sleep) for c in node[1])
        if k == "all":
            return all(self.expect_stop(c, attempts, elapsed, sleep) for c in node[1])
        a = node[1]
        if k == "attempt":
            return attempts >= a
        if k in ("delay", "delay_td"):
            return elapsed >= a
        if k == "before":
            return elapsed + sleep >= a
        if k == "never":
            return False
        raise ValueError(k)

    def mk_wait(self, node):
        rp = self.rp
        k = node[0]
        if k == "combine":
            kids = [self.mk_wait(c) for c in node[1]]
            isfn = [type(x).__name__ == "function" for x in kids]
            if node[2] == "op" and len(kids) >= 2 and not (isfn[0] and isfn[1]):
                if isfn[0]:
                    self._paths.add("radd")
                acc = kids[0]
                for x in kids[1:]:
                    acc = acc + x
                return acc
            if node[2] == "sum" and len(kids) >= 1 and not isfn[0]:
                return sum(kids)
            return rp.wait_combine(*kids)
        if k == "chain":
            return rp.wait_chain(*[self.mk_wait(c) for c in node[1]])
        p = node[1]
        if k == "fixed":
            return rp.wait_fixed(timedelta(seconds=p["wait"]) if p["td"] else p["wait"])
        if k == "none":
            return rp.wait_none()
        if k == "lambda_fixed":
            return lambda attempts, seed=None, _w=float(p["wait"]): _w
        if k == "exponential":
            mn, mx = p["mm"]
            if p["td"]:
                mn, mx = timedelta(seconds=mn), timedelta(seconds=mx)
            return rp.wait_exponential(multiplier=p["multiplier"], exp_base=p["exp_base"], max=mx, min=mn)
        if k == "incrementing":
            kw = {} if p["max"] is None else {"max": p["max"]}
            return rp.wait_incrementing(start=p["start"], increment=p["increment"], **kw)
        if k == "random":
            return rp.wait_random(min=p["mm"][0], max=p["mm"][1])
        if k == "exp_jitter":
            return rp.wait_exponential_jitter(initial=p["initial"], exp_base=p["exp_base"], max=p["max"], jitter=p["jitter"])
        if k == "random_exp":
            return rp.wait_random_exponential(multiplier=p["multiplier"], exp_base=p["exp_base"], max=p["mm"][1], min=p["mm"][0])
        if k == "full_jitter":
            return rp.wait_full_jitter(multiplier=p["multiplier"], exp_base=p["exp_base"], max=p["mm"][1], min=p["mm"][0])
        raise ValueError(k)

    def wait_bounds(self, node, attempts):
        """(lo, hi, exact_or_None, clamped) from the documented bounds of each strategy."""
        k = node[0]
        if k == "combine":
            lo = hi = 0.0
            clamped = False
            for c in node[1]:
                l, h, _, cl = self.wait_bounds(c, attempts)
                lo += l
                hi += h
                clamped |= cl
            return lo, hi, None, clamped
        if k == "chain":
            idx_lo, idx_hi = 0, len(node[1]) - 1
            # which member is used for which attempt is C06's subject; here: some member's bounds
            los, his, cl = [], [], False
            for c in node[1]:
                l, h, _, c2 = self.wait_bounds(c, attempts)
                los.append(l)
                his.append(h)
                cl |= c2
            return min(los), max(his), None, cl
        p = node[1]
        if k in ("fixed", "lambda_fixed"):
            w = float(p["wait"])
            if p.get("td"):
                w = timedelta(seconds=w).total_seconds()  # timedelta has microsecond resolution
            return w, w, w, False
        if k == "none":
            return 0.0, 0.0, 0.0, False
        if k == "exponential":
            mn, mx = float(p["mm"][0]), float(p["mm"][1])
            if p.get("td"):
                mn, mx = timedelta(seconds=mn).total_seconds(), timedelta(seconds=mx).total_seconds()
            lo = max(0.0, mn)
            return lo, max(mx, lo), (lo if mn > mx else None), True
        if k == "incrementing":
            mx = math.inf if p["max"] is None else float(p["max"])
            raw = float(p["start"]) + float(p["increment"]) * attempts
            return 0.0, mx, None, (raw < 0 or raw > mx)
        if k == "random":
            return float(p["mm"][0]), float(p["mm"][1]), None, False
        if k == "exp_jitter":
            return 0.0, float(p["max"]), None, True
        if k in ("random_exp", "full_jitter"):
            mn, mx = float(p["mm"][0]), float(p["mm"][1])
            return mn, max(mn, mx), None, True
        raise ValueError(k)

    def sum_value(self, node, att, seed):
        if node[0] == "combine":
            return sum(self.sum_value(c, att, seed) for c in node[1])
        return self.mk_wait(node)(att, seed=seed)

    def has_jitter(self, node):
        k = node[0]
        if k in ("combine", "chain"):
            return any(self.has_jitter(c) for c in node[1])
        return k in ("random", "exp_jitter", "random_exp", "full_jitter")

    @staticmethod
    def depth(node):
        if node[0] in ("any", "all", "combine", "chain"):
            return 1 + max([C07.depth(c) for c in node[1]] or [0])
        return 0

    @staticmethod
    def maxkids(node):
        if node[0] in ("any", "all", "combine", "chain"):
            return max([len(node[1])] + [C07.maxkids(c) for c in node[1]])
        return 0

    # ---- the check
    def run_case(self, case):
        r = CaseResult()
        self._paths = set()
        try:
            return self._run_case(case, r)
        finally:
            r.classes.extend(sorted(self._paths))

    def _run_case(self, case, r):
        tree = case["tree"]
        d, mk = self.depth(tree), self.maxkids(tree)
        r.classes.append(case["k"])
        if case["k"] == "retry":
            exc = self.mk_exc(case["exc"])
            try:
                cond = self.mk_retry(tree)
                got = bool(cond(exc))
            except Exception as e:  # noqa: BLE001
                r.v("retry_raised", error=type(e).__name__, tree=tree)
                return r
            want = self.expect_retry(tree, exc)
            if got != want:
                r.v("retry_algebra", got=got, want=want, top=tree[0])
            r.nontrivial = d >= 2 or mk >= 2
            if case["exc"].get("cause"):
                r.classes.append("retry_with_cause")
        elif case["k"] == "stop":
            try:
                cond = self.mk_stop(tree)
                got = bool(cond(case["attempts"], float(case["elapsed"]), upcoming_sleep=case["sleep"]))
            except Exception as e:  # noqa: BLE001
                r.v("stop_raised", error=type(e).__name__)
                return r
            want = self.expect_stop(tree, case["attempts"], float(case["elapsed"]), case["sleep"])
            if got != want:
                r.v("stop_algebra", got=got, want=want, top=tree[0])
            r.nontrivial = d >= 2 or mk >= 2
        else:
            att, seed = case["attempts"], case["seed"]
            if att > 60:
                r.classes.append("wait_attempts_gt_60")
            try:
                w = self.mk_wait(tree)
                got = w(att, seed=seed)
            except Exception as e:  # noqa: BLE001
                r.v("wait_raised", error=type(e).__name__, strategy=tree[0], big_attempts=att > 60)
                r.nontrivial = True
                return r
            lo, hi, exact, clamped = self.wait_bounds(tree, att)
            if not isinstance(got, (int, float)) or not math.isfinite(got):
                r.v("wait_not_finite", strategy=tree[0], got=repr(got))
            else:
                tol = 1e-9 * max(1.0, abs(hi) if math.isfinite(hi) else 1.0, abs(lo))
                if got < -1e-12:
                    r.v("wait_negative", strategy=tree[0], got=got)
                if got < lo - tol or got > hi + tol:
                    r.v("wait_out_of_bounds", strategy=tree[0], got=got, lo=lo, hi=hi)
                if exact is not None and abs(got - exact) > tol:
                    r.v("wait_fixed_value", got=got, want=exact)
            # combine == sum of parts (same attempts, same seed), at every combine node reachable
            # from the top through combine nodes only
            if tree[0] == "combine" and (seed is not None or not self.has_jitter(tree)):
                try:
                    want = self.sum_value(tree, att, seed)
                    if not (abs(got - want) <= 1e-9 * max(1.0, abs(want))):
                        r.v("combine_not_sum", got=got, want=want, mode=tree[2])
                except Exception:  # noqa: BLE001
                    pass
            # determinism per seed
            if seed is not None:
                try:
                    again = self.mk_wait(tree)(att, seed=seed)
                    if again != got:
                        r.v("jitter_not_deterministic", strategy=tree[0])
                except Exception:  # noqa: BLE001
                    pass
                if tree[0] in ("random", "exp_jitter", "random_exp", "full_jitter"):
                    # the seed must actually be used: if the sampled interval is non-degenerate,
                    # several seeds give more than one value
                    vals = set()
                    try:
                        for s in range(8):
                            vals.add(w(att, seed=seed ^ (s + 1)))
                        vals.add(got)
                    except Exception:  # noqa: BLE001
                        vals = set()
                    nondeg = self._nondegenerate(tree, att)
                    if nondeg and len(vals) == 1:
                        r.v("seed_ignored", strategy=tree[0])
                    if nondeg:
                        r.classes.append("jitter_nondegenerate")
            r.nontrivial = d >= 1 or mk >= 2 or clamped
        return r

    def _nondegenerate(self, node, att):
        k, p = node[0], node[1]
        try:
            if k == "random":
                return p["mm"][1] - p["mm"][0] > 1e-6
            if k == "exp_jitter":
                base = min(float(p["initial"]) * float(p["exp_base"]) ** att, float(p["max"]))
                # only when clamping at max cannot hide the jitter
                return p["jitter"] > 1e-6 and float(p["max"]) - base >= float(p["jitter"])
            if k in ("random_exp", "full_jitter"):
                mn, mx = float(p["mm"][0]), float(p["mm"][1])
                up = max(max(0.0, mn), min(float(p["multiplier"]) * float(p["exp_base"]) ** att, mx))
                return up - mn > 1e-6
        except OverflowError:
            return False
        return False


PROP = C07
