"""C27 — DBOS recovery replays a run to the same execution (exploration over an EMULATED durable substrate).

Real, unmodified: InternalDBOSAdapter.wait_for_next_task / _get_or_create_journal / is_replaying /
_purge_orphaned_operations / close, TaskJournal, SqliteJournalCrud (on a real SQLite file built from the package's DDL),
workflows.runtime.control_loop, the step-worker wrapper, the reducer.
Emulated (this file): DBOS's durable substrate -- function ids, operation_outputs, recv/notifications, stream writes, durable
steps -- and "a process stop".  The DBOS engine, SQLAlchemy and Postgres are not installable offline.
"""

from __future__ import annotations

import asyncio
import contextvars
import json
import os
import pickle
import shutil
import sqlite3
import tempfile
import typing

from hypothesis import strategies as st

from .. import boot
from ..boot import Runaway, VClock
from ..runner import CaseResult, Prop

RUN_ID = "run-c27"
OTHER_RUN = "run-other"
DECOY_KEYS = ["work:2", "__pull__:0", "gather:1", "work:0"]
N_STEP = "step"
N_NOW = "_durable_time"
N_RECV = "DBOS.recv"
N_WSTREAM = "DBOS.writeStream"

# C27_SUSPECTED=1 lifts the domain restriction (timer wake-ups, stops between a receive and its journal row) so that the two
# suspected defects of notes/C27-finding.md can be reproduced with --replay notes/C27-suspected-*.json; never set by ./check.
SUSPECTED = os.environ.get("C27_SUSPECTED") == "1"

CUR_LIFE: contextvars.ContextVar = contextvars.ContextVar("c27_life", default=None)
CUR_STEP: contextvars.ContextVar = contextvars.ContextVar("c27_step", default=None)

_OPS_DDL = """
CREATE TABLE IF NOT EXISTS operation_outputs (
    workflow_uuid TEXT NOT NULL,
    function_id INTEGER NOT NULL,
    function_name TEXT NOT NULL DEFAULT '',
    output BLOB,
    error BLOB,
    started_at_epoch_ms INTEGER NOT NULL DEFAULT 0,
    PRIMARY KEY (workflow_uuid, function_id)
);
"""


# ---------------------------------------------------------------------------------------------------------------------
# deterministic task identity: set iteration order (asyncio.wait's `done`, the runner's worker_tasks) is a function of
# the case, not of memory addresses


class SeqTask(asyncio.Task):
    _c27_hash = 0

    def __hash__(self):  # type: ignore[override]
        return self._c27_hash


class TaskSeq:
    def __init__(self):
        self.n = 0

    def factory(self, loop, coro, **kw):
        t = SeqTask(coro, loop=loop, **kw)
        self.n += 1
        life = CUR_LIFE.get()
        salt, mult = (life.salt, life.mult) if life is not None else (0, 1)
        t._c27_hash = ((self.n * mult) + salt) & 0x3FFFFFFF
        if life is not None:
            life.tasks.append(t)
        return t


# ---------------------------------------------------------------------------------------------------------------------
# the emulated durable substrate


class DurableLog:
    """What survives a process stop: operation_outputs (a table in the journal's SQLite file, because the repository's
    purge code deletes from it), the notification mailbox, the published-events stream."""

    def __init__(self, db_path: str):
        self.db_path = db_path
        self.conn = sqlite3.connect(db_path, isolation_level=None)
        self.conn.execute("PRAGMA synchronous=OFF")
        self.mailbox: list[bytes] = []
        self.waiters: list[asyncio.Future] = []
        self.stream: list[bytes] = []
        self.stream_waiters: list[asyncio.Future] = []
        self.sent = 0

    def close(self):
        try:
            self.conn.close()
        except Exception:  # noqa: BLE001
            pass

    # -- operation_outputs
    def lookup(self, fid: int):
        row = self.conn.execute(
            "SELECT function_name, output, error FROM operation_outputs WHERE workflow_uuid=? AND function_id=?", (RUN_ID, fid)
        ).fetchone()
        return row

    def record(self, fid: int, name: str, output, error=None):
        self.conn.execute(
            "INSERT INTO operation_outputs (workflow_uuid, function_id, function_name, output, error, started_at_epoch_ms) VALUES (?,?,?,?,?,0)",
            (RUN_ID, fid, name, pickle.dumps(output), None if error is None else pickle.dumps(error)),
        )

    def ops_rows(self):
        rows = self.conn.execute(
            "SELECT function_id, function_name, output FROM operation_outputs WHERE workflow_uuid=? ORDER BY function_id", (RUN_ID,)
        ).fetchall()
        return [(f, n, bool(n == N_RECV and o is not None and pickle.loads(o) is not None)) for f, n, o in rows]

    def journal_rows(self):
        return self.conn.execute("SELECT id, run_id, seq_num, task_key FROM workflow_journal WHERE run_id=? ORDER BY id", (RUN_ID,)).fetchall()

    def decoy_rows(self):
        """Rows of another run living in the same tables: nothing the run under test does may touch them."""
        j = self.conn.execute("SELECT run_id, seq_num, task_key FROM workflow_journal WHERE run_id<>? ORDER BY id", (RUN_ID,)).fetchall()
        o = self.conn.execute("SELECT workflow_uuid, function_id, function_name FROM operation_outputs WHERE workflow_uuid<>? ORDER BY function_id", (RUN_ID,)).fetchall()
        return [j, o]

    # -- notifications
    def send(self, tick) -> None:
        self.mailbox.append(pickle.dumps(tick))
        self.sent += 1
        ws, self.waiters = self.waiters, []
        for w in ws:
            if not w.done():
                w.set_result(None)

    # -- stream
    def publish(self, event) -> None:
        self.stream.append(pickle.dumps(event))
        ws, self.stream_waiters = self.stream_waiters, []
        for w in ws:
            if not w.done():
                w.set_result(None)


class Life:
    """One process incarnation executing the DBOS workflow `control_loop` of the run.  Doubles as the 'local DBOS context'
    (attribute function_id = id of the last durable operation started, as DBOS's context counter)."""

    def __init__(self, log: DurableLog, index: int, sched: dict, stop_at: int | None):
        self.log = log
        self.index = index
        self.sched = sched
        self.salt = int(sched.get("salt", 0))
        self.mult = 2 * int(sched.get("mult", 0)) + 1
        self.stop_at = stop_at
        self.function_id = 0
        self.gates = 0
        self.dead = False
        self.killing = False
        self.frozen = asyncio.Event()
        self.tasks: list[asyncio.Task] = []
        self.ticks: list = []  # normalised ticks, in processing order
        self.pubs: list = []  # normalised events passed to write_to_event_stream, in call order
        self.ops: list = []  # (fid, name, replayed)
        self.bodies: list = []  # step body executions
        self.mismatch: list = []  # recorded function name != called function name (DBOSUnexpectedStepError in DBOS)
        self.waits: list = []  # observation of wait_for_next_task calls
        self.task_fid: dict = {}  # worker task -> function id of the step call it made
        self.returned: list = []  # (key, fid) of the worker tasks wait_for_next_task returned, in order
        self.finished = False
        self.where = None
        self.hold = False  # a received message is recorded but its pull is not journaled yet: no stop in this window

    def next_fid(self) -> int:
        self.function_id += 1
        return self.function_id

    async def gate(self, where: str) -> None:
        """A possible stop point.  Once the life is dead nothing durable can happen any more."""
        if self.dead:
            if self.killing:
                raise asyncio.CancelledError()
            await asyncio.Event().wait()
        self.gates += 1
        if self.stop_at is not None and self.gates >= self.stop_at:
            if self.hold and not SUSPECTED:
                return  # domain restriction: the receive and the journal row of its pull count as one durable effect
            self.dead = True
            self.where = where
            self.frozen.set()
            await asyncio.Event().wait()

    def flush(self, inv) -> None:
        """Events a step body sent become durable together with the step's recorded outcome (see assumptions)."""
        for tick in inv["outbox"]:
            self.log.send(tick)
        inv["outbox"] = []

    def check(self, fid: int, name: str, row) -> bool:
        if row[0] != name:
            self.mismatch.append({"fid": fid, "recorded": row[0].split(":")[0], "called": name.split(":")[0]})
            return False
        return True

    # -- the four durable operations ---------------------------------------------------------------------------------
    async def now(self) -> float:
        import time

        fid = self.next_fid()
        row = self.log.lookup(fid)
        if row is not None and self.check(fid, N_NOW, row):
            self.ops.append((fid, N_NOW, True))
            return pickle.loads(row[1])
        await self.gate("now")
        v = time.time()
        if row is None:
            self.log.record(fid, N_NOW, v)
        self.ops.append((fid, N_NOW, False))
        await self.gate("now+")
        return v

    async def recv(self, timeout: float):
        fid = self.next_fid()
        row = self.log.lookup(fid)
        if row is not None and self.check(fid, N_RECV, row):
            self.ops.append((fid, N_RECV, True))
            return pickle.loads(row[1])
        loop = asyncio.get_running_loop()
        deadline = loop.time() + timeout
        while not self.log.mailbox:
            left = deadline - loop.time()
            if left <= 0:
                await self.gate("recv-timeout")
                if row is None:
                    self.log.record(fid, N_RECV, None)
                self.ops.append((fid, N_RECV, False))
                return None
            fut = loop.create_future()
            self.log.waiters.append(fut)
            try:
                await asyncio.wait_for(fut, left)
            except (asyncio.TimeoutError, TimeoutError):
                pass
            finally:
                if fut in self.log.waiters:
                    self.log.waiters.remove(fut)
        await self.gate("recv")
        # consume the oldest message and record the operation output in one transaction, as DBOS's recv does
        msg = pickle.loads(self.log.mailbox.pop(0))
        if row is None:
            self.log.record(fid, N_RECV, msg)
        self.hold = True
        self.ops.append((fid, N_RECV, False))
        await self.gate("recv+")
        return msg

    async def write_stream(self, event) -> None:
        fid = self.next_fid()
        self.pubs.append(norm_event(event))
        row = self.log.lookup(fid)
        if row is not None and self.check(fid, N_WSTREAM, row):
            self.ops.append((fid, N_WSTREAM, True))
            return
        await self.gate("stream")
        self.log.publish(event)
        if row is None:
            self.log.record(fid, N_WSTREAM, None)
        self.ops.append((fid, N_WSTREAM, False))
        await self.gate("stream+")

    def durable_step(self, name: str, fn):
        """DBOS.step(name=...)(fn): the function id is taken in the synchronous preamble of the call; a recorded output is
        returned without running the body; otherwise the body runs and its output is recorded when it returns."""
        life = self
        fname = f"{N_STEP}:{name}"

        async def wrapped(*a, **kw):
            fid = life.next_fid()
            life.task_fid[asyncio.current_task()] = fid
            row = life.log.lookup(fid)
            if row is not None and life.check(fid, fname, row):
                life.ops.append((fid, fname, True))
                if row[2] is not None:
                    raise pickle.loads(row[2])
                return pickle.loads(row[1])
            inv = {"fid": fid, "outbox": []}
            tok = CUR_STEP.set(inv)
            try:
                try:
                    out = await fn(*a, **kw)
                finally:
                    CUR_STEP.reset(tok)
            except Exception as e:  # noqa: BLE001  (DBOS records a step's exception as its outcome)
                await life.gate("step-error")
                if row is None:
                    life.log.record(fid, fname, None, error=e)
                life.flush(inv)
                life.ops.append((fid, fname, False))
                raise
            await life.gate("step")
            if row is None:
                life.log.record(fid, fname, out)
            life.flush(inv)
            life.ops.append((fid, fname, False))
            await life.gate("step+")
            return out

        return wrapped


# ---------------------------------------------------------------------------------------------------------------------
# normalisation


def _j(x):
    try:
        return json.loads(json.dumps(x, sort_keys=True, default=repr))
    except Exception:  # noqa: BLE001
        return repr(x)


def norm_event(ev):
    if ev is None:
        return None
    try:
        d = ev.model_dump(mode="json")
    except Exception:  # noqa: BLE001
        try:
            d = dict(ev.items())
        except Exception:  # noqa: BLE001
            d = repr(ev)
    return _j({"t": type(ev).__name__, "d": d})


_TICK_ADAPTER = None


def norm_tick(tick):
    try:
        d = _TICK_ADAPTER.dump_python(tick, mode="json")
    except Exception:  # noqa: BLE001
        d = {"type": getattr(tick, "type", type(tick).__name__), "repr": repr(tick)}
    return _j(d)


def tick_brief(nt) -> str:
    if not isinstance(nt, dict):
        return str(nt)[:40]
    t = nt.get("type")
    if t == "step_result":
        kinds = ",".join(str(r.get("type")) for r in nt.get("result", []) if isinstance(r, dict))
        return f"step_result:{nt.get('step_name')}:{nt.get('worker_id')}[{kinds}]"
    if t == "add_event":
        ev = nt.get("event") or {}
        return f"add_event:{(ev.get('qualified_name') or ev.get('type') or '?').split('.')[-1]}:a{nt.get('attempts')}"
    return str(t)


# ---------------------------------------------------------------------------------------------------------------------


class C27(Prop):
    id = "C27"
    level = "exploration"
    rule = (
        "case = a deterministic workflow (a start step fans 1-5 jobs out to a `work` step with num_workers 1..3 and a retry policy of "
        "1-3 attempts and NO retry delay, per-job numbers of failing attempts; optionally a second consumer `audit` of the job events; a "
        "collect_events gatherer; optionally a final wait_for_event with/without requirements, answered by an external client that tails "
        "the published stream) + one schedule per life (virtual duration of every step invocation, tie-break salt for simultaneously "
        "done tasks) + 1-2 stop points (index into the sequence of crash positions = immediately before/after every emulated durable "
        "effect of the uninterrupted run). The run is executed once uninterrupted (reference) and once as lives A,B(,C): each life runs "
        "the REAL control loop over the REAL InternalDBOSAdapter.wait_for_next_task/_purge_orphaned_operations/TaskJournal/"
        "SqliteJournalCrud on one SQLite file (package DDL, plus rows of another run) and an EMULATED DBOS substrate (function ids in "
        "call order, operation_outputs, recv/notifications, stream writes, durable steps that return a recorded output without running "
        "their body); a life is stopped by freezing it at the stop point and cancelling all its tasks; the next life re-executes the "
        "workflow function from the start event under a different schedule. Oracle per recovery: (a) the ticks the recovered loop "
        "processes (full serialised form) agree with the longest tick log of the earlier lives, and contain all of it unless the "
        "recovered life is stopped itself; (b) the events it passes to the stream likewise; (c) no step body whose result an earlier "
        "life had processed runs again; (d) the last life finishes by the virtual horizon with the result of the uninterrupted run; "
        "(e) the journal only grows: rows present at a stop stay as they are, seq_nums are 0..n-1, worker keys equal the processed step "
        "results in order, pull keys are sequential, rows of the other run are untouched; (f) no durable operation is looked up under "
        "a function id recorded for another function (DBOS raises DBOSUnexpectedStepError there); (g) while the journal designates a "
        "task, no other task is returned. DOMAIN RESTRICTION: no wait_for_next_task call ends by timeout (no retry delay, no waiter "
        "timeout, no workflow timeout), and no stop falls between the commit of a pull's receive and the journal row of that pull "
        "(the two count as one durable effect; a stop index that falls there takes effect at the next crash position). Outside "
        "this domain two suspected defects are described in notes/C27-finding.md; they depend on unverifiable assumptions about "
        "DBOS and are neither claimed nor suppressed: strategy() does not generate such cases and an old-shape replay is skipped "
        "(the detectors stay in the code; C27_SUSPECTED=1 lifts the restriction for reproducing them). "
        "Non-trivial = the first stop lies strictly inside the run (journal non-empty, run unfinished) and during a replay at least "
        "one other task was already done when the journal-designated task was returned (the journal, not the schedule, decided)."
    )
    assumptions = [
        "EMULATED, not DBOS: function ids are one counter per workflow execution, incremented in call order by get_now (the _durable_time "
        "step), recv, write_stream and every step call (in the step's synchronous preamble); an operation whose id has a recorded output "
        "returns it without executing; a function-name mismatch is reported (DBOS raises DBOSUnexpectedStepError); outputs round-trip "
        "through pickle",
        "EMULATED: recv consumes the oldest notification and records it as the operation output atomically; send_async from a client "
        "appends to the durable mailbox and is not memoised",
        "EMULATED: events sent by a step body (ctx.send_event) become durable together with the step's recorded outcome; in DBOS they are "
        "sent at once, and a step interrupted after sending re-sends them when it is re-executed (documented at-least-once semantics of "
        "steps, outside this property); generated steps do not use the state store and do not write to the stream themselves",
        "EMULATED: operation_outputs is a table in the journal's SQLite file with DBOS's column names (the package's own tests insert into "
        "it the same way), so the repository's purge_operations_from really deletes emulated outputs",
        "EMULATED: 'a process stop' = the life is frozen at a crash position (immediately before or after an emulated durable effect), "
        "every task it created is cancelled, nothing durable can happen after the freeze; the next life starts with a fresh workflow, "
        "runtime and adapter over the same SQLite file, mailbox and stream",
        "EmuAdapter(InternalDBOSAdapter) overrides only send_event, wait_receive (same shutdown logic as the real one, DBOS.recv_async "
        "replaced), write_to_event_stream, get_now, get_state_store, on_tick (recording); wait_for_next_task is wrapped by an observer "
        "that calls the inherited method unchanged; EmuRuntime(BasicRuntime) wraps steps the way DBOSRuntime.register does "
        "(DBOS.step(name=workflow.step)) and runs create_workflow_run_function(workflow) as the workflow function",
        "task hashes are sequence numbers (task factory), so the pick among simultaneously finished tasks (asyncio.wait's done.pop()) "
        "is a function of the case",
        "shims: dbos, dbos._context/_dbos/_error, sqlalchemy.engine, asyncpg are import-only stand-ins; get_local_dbos_context() returns "
        "the current emulated life (function_id = id of the last durable operation started)",
        "restricted domain: timer wake-ups of the control loop and stops between a receive and its journal row are excluded because what "
        "the check observed there (notes/C27-finding.md, replays notes/C27-suspected-*.json) hinges on how the real engine memoises steps "
        "and consumes notifications, which cannot be verified without DBOS; those observations are not claimed as findings",
        "not covered: Postgres journal CRUD, DBOS's own recovery scheduling, executor leases, the idle-release decorator, real threads "
        "(run_in_executor in the real send_event), durable calls made by a worker task outside its step",
    ]
    budgets = {"quick": 1200, "thorough": 3000}
    wall = {"quick": 38.0, "thorough": 420.0}

    # ------------------------------------------------------------------------------------------------------------ setup
    def setup(self):
        global _TICK_ADAPTER
        boot.seed_llama_agents()
        import workflows.retry_policy as rp
        from workflows import Context, Workflow, step
        from workflows.plugins import basic
        from workflows.runtime.types import plugin
        from workflows.runtime.types.step_function import as_step_worker_functions, create_workflow_run_function
        from workflows.runtime.types import ticks as ticks_mod

        from .. import genevents as ge
        import llama_agents.dbos.runtime as rt
        from dbos import _context as dctx

        _TICK_ADAPTER = ticks_mod.WorkflowTickAdapter
        self.ge, self.rp, self.Context, self.Workflow, self.step = ge, rp, Context, Workflow, step
        self.ticks_mod = ticks_mod
        self.dctx = dctx
        self.rt = rt
        ddl_path = os.path.join(boot.REPO, "packages/llama-agents-dbos/src/llama_agents/dbos/_store/sqlite/migrations/0001_init.sql")
        with open(ddl_path) as f:
            self.ddl = f.read()
        self.tmp_root = "/dev/shm" if os.path.isdir("/dev/shm") and os.access("/dev/shm", os.W_OK) else None

        class EmuAdapter(rt.InternalDBOSAdapter):
            """Only the I/O methods are replaced; wait_for_next_task, the journal and the purge are inherited."""

            def __init__(self, life: Life, queues, db_path: str):
                super().__init__(RUN_ID, None, None, db_path=db_path)  # type: ignore[arg-type]
                self._life = life
                self._queues = queues

            async def write_to_event_stream(self, event):
                await self._life.write_stream(event)

            async def get_now(self) -> float:
                return await self._life.now()

            async def send_event(self, tick) -> None:
                life = self._life
                inv = CUR_STEP.get()
                if inv is not None:
                    inv["outbox"].append(tick)  # sent by a step body: committed with the step's outcome
                    return
                await life.gate("send")
                life.log.send(tick)
                await life.gate("send+")

            async def wait_receive(self, timeout_seconds=None):
                # same structure as the real method, with DBOS.recv_async replaced by the emulated recv
                if self._closed:
                    raise asyncio.CancelledError("Adapter closed")
                recv_task = asyncio.ensure_future(self._life.recv(timeout_seconds or rt._UNBOUNDED_WAIT_TIMEOUT_SECONDS))
                shutdown_task = asyncio.ensure_future(self._shutdown_event.wait())
                try:
                    done, _ = await asyncio.wait({recv_task, shutdown_task}, return_when=asyncio.FIRST_COMPLETED)
                except asyncio.CancelledError:
                    recv_task.cancel()
                    shutdown_task.cancel()
                    raise
                if shutdown_task in done:
                    recv_task.cancel()
                    raise asyncio.CancelledError("Adapter closed")
                shutdown_task.cancel()
                result = recv_task.result()
                if result is None:
                    return plugin.WaitResultTimeout()
                return plugin.WaitResultTick(tick=result)

            def get_state_store(self):
                return self._queues.state_store

            async def on_tick(self, tick) -> None:
                self._life.ticks.append(norm_tick(tick))

            async def wait_for_next_task(self, running, pending, timeout=None):
                # observer only: the inherited method does all the work
                life = self._life
                j = self._journal
                idx = j._replay_index if j is not None else 0
                rows = life.log.conn.execute("SELECT COUNT(*) FROM workflow_journal WHERE run_id=?", (RUN_ID,)).fetchone()[0]
                res = await super().wait_for_next_task(running, pending, timeout)
                try:
                    named = list(running) + list(res.started)
                    others = [nt.key for nt in named if nt.task is not res.completed and nt.task.done()]
                    ckey = next((nt.key for nt in named if nt.task is res.completed), None)
                    if ckey is not None and ckey.startswith("__pull__"):
                        life.hold = False  # the pull's journal row is written
                    if res.completed is not None and res.completed in life.task_fid:
                        life.returned.append((ckey, life.task_fid[res.completed]))
                    ent = self._journal._entries or []
                    expected = ent[idx] if idx < rows and idx < len(ent) else None
                    life.waits.append({"expected": expected, "completed": ckey, "others_done": sorted(others), "timeout": timeout,
                                       "expected_started": None if expected is None else any(nt.key == expected for nt in named)})
                except Exception:  # noqa: BLE001
                    pass
                return res

        class ExtAdapter(basic.ExternalAsyncioAdapter):
            def __init__(self, outer, queues, life):
                super().__init__(outer, queues)
                self._life = life

            async def send_event(self, tick) -> None:
                self._life.log.send(tick)

        class EmuRuntime(basic.BasicRuntime):
            def __init__(self, life: Life, db_path: str):
                super().__init__()
                self._life = life
                self._db_path = db_path

            def register(self, workflow):
                name = workflow.workflow_name
                steps = {sn: self._life.durable_step(f"{name}.{sn}", fn) for sn, fn in as_step_worker_functions(workflow).items()}
                return plugin.RegisteredWorkflow(workflow=workflow, workflow_run_fn=create_workflow_run_function(workflow), steps=steps)

            def get_internal_adapter(self, workflow):
                a = super().get_internal_adapter(workflow)
                return EmuAdapter(self._life, a._queues, self._db_path)

            def get_external_adapter(self, run_id):
                return ExtAdapter(self, self._queues[run_id], self._life)

        self.EmuAdapter, self.EmuRuntime = EmuAdapter, EmuRuntime

    # --------------------------------------------------------------------------------------------------------- strategy
    def strategy(self, tier):
        durs = st.sampled_from([0, 0, 1, 1, 2, 3, 5, 8])

        @st.composite
        def case(draw):
            n = draw(st.integers(1, 5))
            attempts = draw(st.integers(1, 3))
            jobs = [{"fail": draw(st.integers(0, attempts - 1))} for _ in range(n)]
            n_stops = draw(st.sampled_from([1, 1, 1, 2]))

            def sched():
                return {
                    "start": draw(st.sampled_from([0, 0, 1])),
                    "work": [[draw(durs) for _ in range(attempts)] for _ in range(n)],
                    "audit": [draw(durs) for _ in range(n)],
                    "gather_post": draw(st.sampled_from([0, 0, 1, 2])),
                    "ask_post": draw(st.sampled_from([0, 0, 1, 2])),
                    "salt": draw(st.integers(0, 15)),
                    "mult": draw(st.integers(0, 3)),
                }

            return {
                "jobs": jobs,
                "workers": draw(st.integers(1, 3)),
                "attempts": attempts,
                "retry_wait": 0,  # domain restriction: no scheduled wake-ups (see rule)
                "audit": draw(st.sampled_from([0, 0, 1, 2])),
                "gather_workers": draw(st.integers(1, 2)),
                "wait": draw(st.sampled_from([None, None, "plain", "req"])),
                "reply_delay": draw(st.sampled_from([0, 1, 2, 4, 7])),
                "sig": [sched() for _ in range(n_stops + 1)],
                "stops": [draw(st.integers(0, 999)) for _ in range(n_stops)],
            }

        return case()

    # --------------------------------------------------------------------------------------------------------- workflow
    def _build_wf(self, case, runtime):
        ge, step, Context, Workflow, rp = self.ge, self.step, self.Context, self.Workflow, self.rp
        jobs = case["jobs"]
        N = len(jobs)

        def body_log(name, idx, attempt):
            life = CUR_LIFE.get()
            ent = {"step": name, "idx": idx, "attempt": attempt, "life": life.index if life else None, "t_in": VClock.t, "exit": None}
            if life is not None:
                life.bodies.append(ent)
            return life, ent

        async def start(self, ctx, ev):
            life, ent = body_log("start", None, 0)
            d = life.sched["start"]
            if d:
                await asyncio.sleep(d)
            for i in range(N):
                ctx.send_event(ge.E1(idx=i))
            ent["exit"] = "returned"
            return None

        async def work(self, ctx, ev):
            i = ev.get("idx")
            a = ctx.retry_info().retry_number
            life, ent = body_log("work", i, a)
            d = life.sched["work"][i][min(a, len(life.sched["work"][i]) - 1)]
            if d:
                await asyncio.sleep(d)
            if a < jobs[i]["fail"]:
                ent["exit"] = "raised"
                raise ge.GenError(f"job{i}:{a}")
            ent["exit"] = "returned"
            return ge.E2(idx=i, val=i * 7 + 1)

        async def audit(self, ctx, ev):
            i = ev.get("idx")
            life, ent = body_log("audit", i, 0)
            d = life.sched["audit"][i]
            if d:
                await asyncio.sleep(d)
            ent["exit"] = "returned"
            return None

        async def gather(self, ctx, ev):
            life, ent = body_log("gather", ev.get("idx"), 0)
            got = ctx.collect_events(ev, [ge.E2] * N)
            if got is None:
                ent["exit"] = "returned"
                return None
            ids = sorted(e.get("idx") for e in got)
            vals = sorted(e.get("val") for e in got)
            d = life.sched["gather_post"]
            if d:
                await asyncio.sleep(d)
            ent["exit"] = "returned"
            return ge.E3(ids=ids, vals=vals)

        async def ask(self, ctx, ev):
            life, ent = body_log("ask", None, 0)
            reply = None
            if case["wait"]:
                req = {"key": "k"} if case["wait"] == "req" else None
                try:
                    r = await ctx.wait_for_event(ge.Reply, waiter_event=ge.Ask(q="q"), waiter_id="ask", requirements=req, timeout=None)
                except BaseException:
                    ent["exit"] = "waiting"
                    raise
                reply = r.get("key")
                d = life.sched["ask_post"]
                if d:
                    await asyncio.sleep(d)
            ent["exit"] = "returned"
            return ge.GStop(result={"ids": ev.get("ids"), "vals": ev.get("vals"), "reply": reply})

        def ann(fn, name, ev_t, ret_t):
            fn.__name__ = name
            fn.__qualname__ = f"C27Wf.{name}"
            fn.__annotations__ = {"ctx": Context, "ev": ev_t, "return": ret_t}
            return fn

        Nn = type(None)
        U = typing.Union
        members = {
            "start": step(ann(start, "start", ge.GStart, U[ge.E1, Nn])),
            "work": step(
                num_workers=case["workers"],
                retry_policy=rp.retry_policy(wait=rp.wait_fixed(case["retry_wait"]), stop=rp.stop_after_attempt(case["attempts"])),
            )(ann(work, "work", ge.E1, U[ge.E2, Nn])),
            "gather": step(num_workers=case["gather_workers"])(ann(gather, "gather", ge.E2, U[ge.E3, Nn])),
            "ask": step(ann(ask, "ask", ge.E3, U[ge.GStop, ge.Ask])),
        }
        if case["audit"]:
            members["audit"] = step(num_workers=case["audit"])(ann(audit, "audit", ge.E1, Nn))
        cls = type("C27Wf", (Workflow,), members)
        return cls(timeout=None, runtime=runtime)

    # ------------------------------------------------------------------------------------------------------------- run
    def _horizon(self, case) -> float:
        tot = 0.0
        for s in case["sig"]:
            tot += s["start"] + s["gather_post"] + s["ask_post"] + sum(s["audit"]) + sum(sum(w) for w in s["work"])
        tot += case["retry_wait"] * case["attempts"] * len(case["jobs"]) + case["reply_delay"]
        return 60.0 + 10.0 * tot

    def _new_db(self, d: str, name: str) -> str:
        path = os.path.join(d, name)
        conn = sqlite3.connect(path)
        try:
            conn.execute("PRAGMA journal_mode=WAL")  # speed only; the repository's CRUD opens its own connections as usual
            conn.executescript(self.ddl)
            conn.executescript(_OPS_DDL)
            # a second run shares the tables (as in production): its rows must neither be replayed nor purged
            for i, key in enumerate(DECOY_KEYS):
                conn.execute("INSERT INTO workflow_journal (run_id, seq_num, task_key) VALUES (?,?,?)", (OTHER_RUN, i, key))
            for fid in (1, 2, 500, 9000):
                conn.execute(
                    "INSERT INTO operation_outputs (workflow_uuid, function_id, function_name, output, error, started_at_epoch_ms) VALUES (?,?,?,?,NULL,0)",
                    (OTHER_RUN, fid, N_NOW, pickle.dumps(1.0)),
                )
            conn.commit()
        finally:
            conn.close()
        return path

    def _start_life(self, life: Life, case, db_path: str):
        """Start the workflow function in a context of its own: every task created from here belongs to the life."""
        ctx = contextvars.copy_context()

        def go():
            CUR_LIFE.set(life)
            self.dctx._set_local_dbos_context(life)
            runtime = self.EmuRuntime(life, db_path)
            wf = self._build_wf(case, runtime)
            return wf.run(start_event=self.ge.GStart(), run_id=RUN_ID)

        return ctx.run(go)

    async def _kill(self, life: Life) -> None:
        life.dead = True
        life.killing = True
        me = asyncio.current_task()
        for _ in range(6):
            victims = [t for t in life.tasks if not t.done() and t is not me]
            if not victims:
                break
            for t in victims:
                t.cancel()
            await asyncio.gather(*victims, return_exceptions=True)
        for w in life.log.waiters:
            if not w.done():
                w.cancel()
        life.log.waiters = []

    async def _responder(self, log: DurableLog, case) -> None:
        """The client: tails the durable published stream and answers every Ask once, after reply_delay."""
        ge = self.ge
        pos = 0
        loop = asyncio.get_running_loop()
        while True:
            while pos < len(log.stream):
                ev = pickle.loads(log.stream[pos])
                pos += 1
                if isinstance(ev, ge.Ask):
                    if case["reply_delay"]:
                        await asyncio.sleep(case["reply_delay"])
                    log.send(self.ticks_mod.TickAddEvent(event=ge.Reply(key="k", n=1)))
            fut = loop.create_future()
            log.stream_waiters.append(fut)
            await fut

    def _run_lives(self, case, stops: list[int | None], scheds: list[dict], tmpdir: str, name: str):
        """Run lives in sequence over one durable log.  stops[i] = gate index at which life i is stopped (None = run to the end)."""
        out: dict = {"lives": [], "journals": [], "ops": [], "finished": False, "result": None, "error": None, "t_end": None}
        db_path = self._new_db(tmpdir, name)
        log = DurableLog(db_path)
        H = self._horizon(case)

        async def main():
            seq = TaskSeq()
            asyncio.get_running_loop().set_task_factory(seq.factory)
            responder = asyncio.create_task(self._responder(log, case))
            try:
                for i, stop in enumerate(stops):
                    life = Life(log, i, scheds[i], stop)
                    out["lives"].append(life)
                    handler = self._start_life(life, case, db_path)
                    rt_task = handler._result_task
                    frozen = asyncio.create_task(life.frozen.wait())
                    try:
                        done, _ = await asyncio.wait({rt_task, frozen}, timeout=max(0.0, H - VClock.t), return_when=asyncio.FIRST_COMPLETED)
                    finally:
                        frozen.cancel()
                    if rt_task in done and not life.dead:
                        out["finished"] = True
                        if rt_task.cancelled():
                            out["error"] = "cancelled"
                        elif rt_task.exception() is not None:
                            out["error"] = rt_task.exception()
                        else:
                            out["result"] = rt_task.result()
                        life.finished = True
                        # let trailing effects of the finished life settle, then take it down
                        await asyncio.sleep(0)
                        out["journals"].append(log.journal_rows())
                        out["ops"].append(log.ops_rows())
                        await self._kill(life)
                        break
                    life.finished = False
                    if not life.dead:
                        # horizon reached: neither finished nor stopped
                        out["journals"].append(log.journal_rows())
                        out["ops"].append(log.ops_rows())
                        await self._kill(life)
                        out["hung"] = i
                        break
                    # the life is frozen at its stop point: this is what the next process finds
                    out["journals"].append(log.journal_rows())
                    out["ops"].append(log.ops_rows())
                    await self._kill(life)
                    after = log.journal_rows()
                    if after != out["journals"][-1]:
                        raise RuntimeError("harness: the journal changed while a stopped life was being torn down")
                out["t_end"] = VClock.t
                out["decoy"] = log.decoy_rows()
            finally:
                responder.cancel()
                await asyncio.gather(responder, return_exceptions=True)

        try:
            boot.run_virtual(main)
        finally:
            log.close()
        return out

    # -------------------------------------------------------------------------------------------------------- run_case
    def run_case(self, case):
        case = json.loads(json.dumps(case))
        r = CaseResult()
        if case.get("retry_wait") and not SUSPECTED:
            r.skipped = True  # outside the restricted domain (a delayed retry arms a timer wake-up)
            return r
        tmpdir = tempfile.mkdtemp(prefix="c27-", dir=self.tmp_root)
        try:
            return self._run_case(case, r, tmpdir)
        finally:
            shutil.rmtree(tmpdir, ignore_errors=True)

    def _run_case(self, case, r: CaseResult, tmpdir: str) -> CaseResult:
        sig = case["sig"]
        # ---- reference: uninterrupted run under the first schedule
        try:
            ref = self._run_lives(case, [None], [sig[0]], tmpdir, "ref.sqlite3")
        except Runaway as e:
            raise RuntimeError(f"inconclusive reference run: {e}") from None
        L0 = ref["lives"][0]
        if not ref["finished"] or ref["error"] is not None:
            r.v("reference_run_did_not_complete", error=repr(ref["error"])[:120], hung=ref.get("hung"))
            return r
        want = _j(getattr(ref["result"], "result", None))
        self._check_journal(r, "reference", ref["journals"][0], L0, None)
        if L0.mismatch:
            r.v("function_id_mismatch", phase="reference", **L0.mismatch[0])
        n_gates = L0.gates
        if n_gates < 3:
            raise RuntimeError("harness: reference run has no crash positions")
        # ---- lives
        stops: list[int | None] = []
        for s in case["stops"]:
            stops.append(1 + (s * (n_gates - 1)) // 1000 if not stops else 1 + s % n_gates)
        stops.append(None)
        scheds = [sig[min(i, len(sig) - 1)] for i in range(len(stops))]
        try:
            run = self._run_lives(case, stops, scheds, tmpdir, "run.sqlite3")
        except Runaway as e:
            r.v("recovered_run_runaway", detail=str(e)[:80])
            return r
        lives = run["lives"]
        A = lives[0]
        out, r = r, CaseResult()  # symptoms are collected in `r`; `out` is what the runner sees (root causes first, see below)
        out.classes.append(f"lives_{len(lives)}")
        out.classes.append("stop_at_" + str(A.where))
        if case["retry_wait"] and any(j["fail"] for j in case["jobs"]):
            out.classes.append("delayed_retry")
        if case["wait"]:
            out.classes.append("waiter")
        jA = run["journals"][0]
        inside = bool(jA) and not getattr(A, "finished", False)
        # ---- per recovery oracles
        had_choice = False
        for k in range(1, len(lives)):
            P, Q = lives[k - 1], lives[k]
            tag = f"life{k}"
            attrs = dict(recovery=k, stop_where=P.where, delayed_retry=bool(case["retry_wait"] and any(j["fail"] for j in case["jobs"])))
            # (f) function ids
            if Q.mismatch:
                r.v("function_id_mismatch", phase=tag, **Q.mismatch[0], **attrs)
            # (a) ticks: agreement with the longest tick log of the earlier lives on the common prefix; a life that was not
            # stopped itself must reproduce all of it
            PT = max((lv.ticks for lv in lives[:k]), key=len)
            PP = max((lv.pubs for lv in lives[:k]), key=len)
            n = len(PT) if Q.where is None else min(len(PT), len(Q.ticks))
            if Q.ticks[:n] != PT[:n]:
                i = next((x for x in range(min(n, len(Q.ticks))) if Q.ticks[x] != PT[x]), min(n, len(Q.ticks)))
                same_kind = i < len(Q.ticks) and i < n and tick_brief(Q.ticks[i]) == tick_brief(PT[i])
                r.v(
                    "replayed_ticks_differ",
                    at=i,
                    of=n,
                    had=tick_brief(PT[i]) if i < n else None,
                    got=tick_brief(Q.ticks[i]) if i < len(Q.ticks) else None,
                    only_payload=same_kind,
                    **attrs,
                )
            # (b) published events
            m = len(PP) if Q.where is None else min(len(PP), len(Q.pubs))
            if Q.pubs[:m] != PP[:m]:
                i = next((x for x in range(min(m, len(Q.pubs))) if Q.pubs[x] != PP[x]), min(m, len(Q.pubs)))
                r.v(
                    "replayed_published_events_differ",
                    at=i,
                    of=m,
                    had=(PP[i] or {}).get("t") if i < m else None,
                    got=(Q.pubs[i] or {}).get("t") if i < len(Q.pubs) else None,
                    **attrs,
                )
            # (c) a step invocation (function id) that an earlier life had seen complete -- wait_for_next_task returned its task, so
            # the completion is journaled -- must not execute its body again; and, where the number of body executions per job is
            # fixed by the program (everything but a gatherer with 2 workers, which the reducer re-runs on stale snapshots), no job
            # gets more executions than the uninterrupted run needs
            seen_done = {fid for lv in lives[:k] for (_key, fid) in lv.returned}
            again = sorted(fid for (fid, name, rep) in Q.ops if name.startswith(N_STEP + ":") and not rep and fid in seen_done)
            if again:
                name = next(n for (f, n, rep) in Q.ops if f == again[0])
                r.v("completed_step_body_ran_again", step=name.split(".")[-1], how="function_id", **attrs)
            else:
                processed = self._processed_counts(lives[:k])
                total_ref = self._body_counts([L0])
                ran = self._body_counts([Q])
                for key, cnt in sorted(ran.items(), key=repr):
                    if key[0] == "gather" and case["gather_workers"] > 1:
                        continue
                    allowed = total_ref.get(key, 0) - processed.get(key, 0)
                    if cnt > max(allowed, 0) and processed.get(key, 0) > 0:
                        r.v("completed_step_body_ran_again", step=key[0], how="count", ran=cnt, processed_before=processed.get(key, 0), needed=total_ref.get(key, 0), **attrs)
                        break
            # (e) journal
            self._check_journal(r, tag, run["journals"][k] if k < len(run["journals"]) else [], Q, run["journals"][k - 1], attrs)
            # non-triviality: the journal decided against what was already finished
            for w in Q.waits:
                if w["expected"] is not None and w["completed"] == w["expected"] and w["others_done"]:
                    had_choice = True
        # ---- (d) result
        last = lives[-1]
        if "hung" in run:
            r.v("recovered_run_did_not_finish", life=run["hung"], stop_where=lives[run["hung"] - 1].where if run["hung"] else None,
                journal_len=len(run["journals"][-1]), mailbox_left=len(last.log.mailbox))
        elif run["error"] is not None:
            r.v("recovered_run_failed", error=type(run["error"]).__name__ if not isinstance(run["error"], str) else run["error"], detail=repr(run["error"])[:160])
        elif run["finished"]:
            got = _j(getattr(run["result"], "result", None))
            if got != want:
                field = next((f for f in ("ids", "vals", "reply") if isinstance(got, dict) and isinstance(want, dict) and got.get(f) != want.get(f)), "other")
                r.v("recovered_result_differs", field=field, got=repr(got)[:120], want=repr(want)[:120])
        want_decoy = [[(OTHER_RUN, i, k) for i, k in enumerate(DECOY_KEYS)], [(OTHER_RUN, f, N_NOW) for f in (1, 2, 500, 9000)]]
        if _j(run.get("decoy")) != _j(want_decoy):
            d = run.get("decoy") or [[], []]
            r.v("rows_of_another_run_touched", journal_rows=len(d[0]), op_rows=len(d[1]))
        # ---- root causes that can be observed directly; their consequences (the symptoms above) are folded into one record
        symptoms = sorted({v["kind"] for v in r.violations})
        lost = self._purged_receives(run, lives)
        fired = sum(1 for lv in lives[:-1] for w in lv.waits if w["expected"] is None and w["completed"] is None)
        journaled_timeouts = sum(1 for row in run["journals"][-1] if row[3].startswith("__timeout"))
        other = next(
            (w for lv in lives[1:] for w in lv.waits if w["expected"] is not None and w["completed"] not in (None, w["expected"])), None
        )
        if (lost or fired) and not SUSPECTED:
            # outside the restricted domain (old-shape replay file); never produced by strategy()
            out.violations.clear()
            out.skipped = True
            return out
        if lost:
            out.v("received_message_deleted_by_orphan_purge", stop_where=lost["stop_where"], recovery=lost["recovery"], symptoms=symptoms)
        elif (symptoms or other) and fired > journaled_timeouts:
            out.v(
                "replay_diverges_after_unjournaled_timeout",
                returned_other_task=other is not None,
                expected_was_started=(other or {}).get("expected_started"),
                symptoms=symptoms,
            )
        else:
            if other is not None:
                out.v("replay_returned_other_task", expected=other["expected"].split(":")[0], completed=str(other["completed"]).split(":")[0],
                      expected_was_started=other.get("expected_started"))
            out.violations.extend(r.violations)
        r = out
        r.nontrivial = bool(inside and len(lives) > 1 and had_choice)
        if inside:
            r.classes.append("stop_inside")
        if had_choice:
            r.classes.append("journal_decided")
        if len(lives) > 1 and any(op[2] for op in lives[1].ops):
            r.classes.append("replayed_ops")
        if fired:
            r.classes.append("timer_fired_before_stop")
        r.sample = {"case": case, "stops": stops[:-1], "stop_where": [lv.where for lv in lives[:-1]], "journal_at_stop": [row[3] for row in jA][:40],
                    "ticks_A": len(A.ticks), "ticks_last": len(last.ticks)}
        return r

    def _purged_receives(self, run, lives):
        """A recorded DBOS.recv output that held a message at a stop, and that a later life executed afresh under the same function id
        (or that is gone at the end): the message had been consumed from the mailbox, so it is lost."""
        for k in range(1, len(lives)):
            if k - 1 >= len(run["ops"]):
                break
            held = [fid for (fid, name, has) in run["ops"][k - 1] if name == N_RECV and has]
            for q in range(k, min(len(lives), len(run["ops"]))):
                still = {fid for (fid, name, has) in run["ops"][q] if name == N_RECV and has}
                fresh = {fid for (fid, name, rep) in lives[q].ops if name == N_RECV and not rep}
                hit = [fid for fid in held if fid not in still or fid in fresh]
                if hit:
                    return {"recovery": q, "stop_where": lives[k - 1].where, "fid": hit[0]}
        return None

    # ---------------------------------------------------------------------------------------------------------- helpers
    @staticmethod
    def _tick_key(nt):
        """(step, idx, attempt) of a processed step result."""
        if not isinstance(nt, dict) or nt.get("type") != "step_result":
            return None
        ev = nt.get("event") or {}
        data = ev.get("value") or ev.get("data") or ev
        idx = None
        try:
            idx = _find(data, "idx")
        except Exception:  # noqa: BLE001
            pass
        return (nt.get("step_name"), idx)

    def _processed_counts(self, lives):
        """How many step results per (step, idx) the lives before the recovery had already processed (longest tick log wins:
        a later life's log extends the earlier one's)."""
        best = max(lives, key=lambda lv: len(lv.ticks))
        out: dict = {}
        for nt in best.ticks:
            k = self._tick_key(nt)
            if k is not None:
                out[k] = out.get(k, 0) + 1
        return out

    @staticmethod
    def _body_counts(lives):
        out: dict = {}
        for lv in lives:
            for b in lv.bodies:
                k = (b["step"], b["idx"])
                out[k] = out.get(k, 0) + 1
        return out

    def _check_journal(self, r: CaseResult, tag: str, rows, life: Life, before, attrs=None):
        attrs = attrs or {}
        seqs = [row[2] for row in sorted(rows, key=lambda x: x[0])]
        if seqs != list(range(len(seqs))):
            r.v("journal_seq_nums_not_contiguous", phase=tag, seqs=seqs[:30], **attrs)
        if any(row[1] != RUN_ID for row in rows):
            r.v("journal_row_for_other_run", phase=tag, **attrs)
        if before is not None:
            if rows[: len(before)] != before:
                r.v("journal_rewritten", phase=tag, had=len(before), now=len(rows), **attrs)
        keys = [row[3] for row in sorted(rows, key=lambda x: (x[2], x[0]))]
        wk = [k for k in keys if not k.startswith("__")]
        tk = [f"{t['step_name']}:{t['worker_id']}" for t in life.ticks if isinstance(t, dict) and t.get("type") == "step_result"]
        # every processed step result was journaled first, in that order; a finished life has processed all of them
        if wk[: len(tk)] != tk or (life.where is None and life.finished and len(wk) != len(tk)):
            r.v("journal_disagrees_with_processed_step_results", phase=tag, journal=wk[:12], processed=tk[:12], **attrs)
        pk = [k for k in keys if k.startswith("__pull__")]
        if pk != [f"__pull__:{i}" for i in range(len(pk))]:
            r.v("journal_pull_keys_not_sequential", phase=tag, keys=pk[:12], **attrs)


def _find(d, name):
    if isinstance(d, dict):
        if name in d:
            return d[name]
        for v in d.values():
            x = _find(v, name)
            if x is not None:
                return x
    elif isinstance(d, list):
        for v in d:
            x = _find(v, name)
            if x is not None:
                return x
    return None


PROP = C27
