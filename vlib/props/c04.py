"""C04 — every run ends once, and its stream ends with the matching terminal event."""

from __future__ import annotations

from hypothesis import strategies as st

from .. import genwf
from ..runner import CaseResult
from ._engine import EngineProp

TERMINAL = ("WorkflowFailedEvent", "WorkflowCancelledEvent", "WorkflowTimedOutEvent")


class C04(EngineProp):
    id = "C04"
    rule = (
        "cases = generated programs that may end by a StopEvent subclass returned from any step (racing other running workers), by "
        "an exhausted step failure, a non-Event return value, the workflow timeout, cancel_run at a generated instant, or by user "
        "retry code that raises (a policy whose next() raises on its k-th call, or a retry predicate that raises); otherwise by the "
        "harness Fin event. A consumer iterates handler.stream_events() concurrently. Non-trivial = outcome other than plain "
        "success, or >=2 workers were running when the terminal tick arrived."
    )
    assumptions = [
        "'finishes' = the handler's result future is done; the stream consumer then gets 5 virtual seconds (nothing in the engine needs time there)",
        "virtual time / generated ties as in C01",
    ]
    liveness = True

    def strategy(self, tier):
        base = genwf.program_strategy(stop_mode="any", cancel=True, timeouts=True, nonevent=True, retries=True, waits=True, collect=True)

        @st.composite
        def with_policy_faults(draw):
            spec = draw(base)
            for s in spec["steps"]:
                if s.get("retry") and draw(st.integers(0, 5)) == 0:
                    s["retry"]["raise_at"] = draw(st.integers(1, 3))
                    s["retry"]["raise_in"] = draw(st.sampled_from(["next", "predicate"]))
                elif s.get("retry") and draw(st.integers(0, 3)) == 0:
                    # a user-written policy object of an ordinary Python shape (the RetryPolicy protocol only asks for next())
                    s["retry"]["user_policy"] = draw(st.sampled_from(["dataclass", "no_seed_kwarg", "slots", "eq_without_hash"]))
            return spec

        @st.composite
        def stop_race(draw):
            """StopEvent returned while other workers are about to publish: the 'nothing after the terminal event' clause."""
            d = draw(st.sampled_from([0, 1, 1, 2]))
            ys = lambda: [["sleep", 0]] * draw(st.integers(0, 4))  # noqa: E731
            n0 = draw(st.integers(1, 2))
            via = draw(st.sampled_from(["plain", "plain", "collect", "wait"]))
            react = draw(st.sampled_from([False, False, True]))
            stopper = [["sleep", d]] + ys() + ([["ret", draw(st.sampled_from(["GStop", "GStop", "nonevent"]))]] if not react else [["fail", None, "GenError"], ["ret", None]])
            ext = []
            if via == "collect":
                n0 = 2
                stopper = [["collect", ["E0", "E0"], None]] + stopper
            elif via == "wait":
                stopper = [["wait", "Reply", {}, "auto", None, False, "continue"]] + stopper
                ext = [[draw(st.sampled_from([0, 1, 2])), "send", "Reply", None, {}]]
            steps = [
                {"name": "a", "accepts": ["GStart"], "workers": 1, "retry": None,
                 "acts": {"GStart": [["send", "E0", n0, None], ["send", "E1", draw(st.integers(1, 3)), None], ["ret", None]]}},
                {"name": "b", "accepts": ["E0"], "workers": draw(st.integers(1, 2)), "retry": None, "acts": {"E0": stopper}},
                {"name": "c", "accepts": ["E1"], "workers": draw(st.integers(1, 3)), "retry": None, "cancel_note": draw(st.booleans()),
                 "acts": {"E1": [["sleep", draw(st.sampled_from([d, d, 0, 1, 3]))]] + ys() + [["stream", "Note"]] + ys() + [["stream", "Note"], ["sleep", draw(st.sampled_from([0, 1, 5]))], ["ret", None]]
                          if not react else
                          # a sibling that writes only in REACTION to the terminal event: it parks until the stream's consumer has seen
                          # one; a run whose other workers are cancelled together with the terminal publish never lets it write
                          [["sleep", draw(st.sampled_from([0, 0, 1]))], ["wait_terminal"]] + ys() + [["stream", "Note", {"reaction": 1}], ["sleep", 5], ["ret", None]]}},
                {"name": "fin", "accepts": ["Fin"], "workers": 1, "retry": None, "acts": {"Fin": [["ret", "GStop"]]}},
            ]
            return {"steps": steps, "timeout": None, "ext": ext, "ties": draw(st.lists(st.integers(0, 7), max_size=6))}

        @st.composite
        def user_policy_failures(draw):
            """A step that really fails and is retried (or exhausts its budget) under a user-written policy object."""
            n = draw(st.integers(1, 3))
            upto = draw(st.integers(1, n + 1))  # > n-1 attempts failing = budget exhausted -> the run fails
            retry = {"n": n, "w": draw(st.sampled_from([0, 0, 1])), "user_policy": draw(st.sampled_from(["dataclass", "no_seed_kwarg", "slots", "eq_without_hash"]))}
            steps = [
                {"name": "a", "accepts": ["GStart"], "workers": 1, "retry": None,
                 "acts": {"GStart": [["send", "E0", draw(st.integers(1, 3)), None], ["ret", None]]}},
                {"name": "b", "accepts": ["E0"], "workers": draw(st.integers(1, 2)), "retry": retry,
                 "acts": {"E0": [["sleep", draw(st.sampled_from([0, 1, 2]))], ["fail", upto, "GenError"], ["stream", "Note"], ["ret", None]]}},
                {"name": "fin", "accepts": ["Fin"], "workers": 1, "retry": None, "acts": {"Fin": [["ret", "GStop"]]}},
            ]
            return {"steps": steps, "timeout": None, "ext": [], "ties": draw(st.lists(st.integers(0, 7), max_size=4))}

        def prior(pair):
            spec, p = pair
            if p:
                # the run id of this run was used before on the same runtime by a run that has ended, is still referenced and whose
                # stream nobody read (a re-submitted job id): whether the submission is refused or accepted, the run that results has
                # its own outcome, its own terminal event and nothing of the earlier run in its stream
                spec = dict(spec, prior_run=True)
            return spec

        return st.tuples(st.one_of(with_policy_faults(), with_policy_faults(), stop_race(), user_policy_failures()), st.sampled_from([False, False, False, True])).map(prior)

    def retry_builder(self, spec):
        m = genwf.M()
        rp, ge = m["rp"], m["ge"]
        if spec is None:
            return None
        inner_kw = dict(wait=rp.wait_fixed(spec.get("w", 0)), stop=rp.stop_after_attempt(spec["n"]))
        k = spec.get("raise_at")
        shape = spec.get("user_policy")
        if not k and shape:
            import dataclasses

            inner0 = rp.retry_policy(**inner_kw)
            if shape == "dataclass":

                @dataclasses.dataclass  # eq=True, not frozen: instances are unhashable
                class BudgetPolicy:
                    budget: int = 3

                    def next(self, elapsed_time, attempts, error, *, seed=None):
                        return inner0.next(elapsed_time, attempts, error, seed=seed)

                return BudgetPolicy()
            if shape == "no_seed_kwarg":

                class OldStylePolicy:
                    def next(self, elapsed_time, attempts, error):
                        return inner0.next(elapsed_time, attempts, error)

                return OldStylePolicy()
            if shape == "slots":

                class SlotsPolicy:
                    __slots__ = ()

                    def next(self, elapsed_time, attempts, error, *, seed=None):
                        return inner0.next(elapsed_time, attempts, error, seed=seed)

                return SlotsPolicy()

            class EqPolicy:
                def __eq__(self, other):
                    return isinstance(other, EqPolicy)

                def next(self, elapsed_time, attempts, error, *, seed=None):
                    return inner0.next(elapsed_time, attempts, error, seed=seed)

            return EqPolicy()
        if not k:
            return rp.retry_policy(**inner_kw)
        calls = {"n": 0}
        if spec.get("raise_in") == "predicate":

            def pred(e):
                calls["n"] += 1
                if calls["n"] >= k:
                    raise ge.GenErrorB("retry predicate failed")
                return True

            return rp.retry_policy(retry=rp.retry_if_exception(pred), **inner_kw)
        inner = rp.retry_policy(**inner_kw)

        class RaisingPolicy:
            def next(self, elapsed_time, attempts, error, *, seed=None):
                calls["n"] += 1
                if calls["n"] >= k:
                    raise ge.GenErrorB("retry policy failed")
                return inner.next(elapsed_time, attempts, error, seed=seed)

        return RaisingPolicy()

    def run_spec(self, spec, **kw):
        return genwf.run_case_program(spec, probe=True, retry_builder=self.retry_builder, **kw)

    def oracle(self, spec, rec, r: CaseResult) -> None:
        out = rec.outcome
        kind = out["kind"]
        r.classes.append("outcome_" + kind)
        if any(a_[0] == "wait_terminal" for s_ in spec["steps"] for acts in s_["acts"].values() for a_ in acts):
            r.classes.append("sibling_reacts_to_terminal_event")
        for n_ in rec.notes:
            if "prior_run_id" in n_:
                r.classes.append("run_id_used_before_" + n_["prior_run_id"])
        policy_fault = any((s.get("retry") or {}).get("raise_at") for s in spec["steps"])
        if policy_fault:
            r.classes.append("policy_fault_armed")
        if any((s.get("retry") or {}).get("user_policy") for s in spec["steps"]):
            r.classes.append("user_policy_object")
        if kind == "unfinished":
            # Fin / timeout always ends these programs: not finishing at the horizon is out of C04's scope unless
            # the engine died silently; report separately so it is not lost
            r.v("run_never_finished", policy_fault=policy_fault)
            return
        names = [type(e).__name__ for _, e in rec.stream]
        terminals = [(i, e) for i, (_, e) in enumerate(rec.stream) if type(e).__name__ in TERMINAL or type(e).__name__ == "GStop"]
        engine_side = kind == "failed" and type(out["exc"]).__name__ == "GenErrorB"
        if engine_side:
            r.classes.append("engine_side_failure")
        if not rec.consumer_finished:
            r.v("consumer_not_terminated", outcome=kind, engine_side=engine_side, exc=type(out.get("exc")).__name__)
        if len(terminals) != 1:
            r.v("terminal_event_count", outcome=kind, count=len(terminals), engine_side=engine_side)
        if terminals:
            i, e = terminals[-1]
            if i != len(rec.stream) - 1:
                r.v("published_after_terminal", outcome=kind, after=names[i + 1 :][:3])
            tn = type(e).__name__
            want = {"result": "GStop", "failed": "WorkflowFailedEvent", "cancelled": "WorkflowCancelledEvent", "timeout": "WorkflowTimedOutEvent"}.get(kind)
            if want is not None and tn != want:
                r.v("terminal_kind_mismatch", outcome=kind, terminal=tn)
            if kind == "result" and tn == "GStop":
                if e.get("uid") != out["stop"].get("uid") or e.result != out["stop"].result:
                    r.v("stop_event_not_the_result")
            if kind == "failed" and tn == "WorkflowFailedEvent":
                ex = out["exc"]
                if type(e.exception) is not type(ex) or str(e.exception) != str(ex):
                    r.v("failed_event_other_exception", event_exc=repr(e.exception)[:60], run_exc=repr(ex)[:60])
        if rec.publish_left:
            left_types = getattr(rec, "publish_left_types", [])
            # what is left: events a step wrote itself (ctx.write_event_to_stream -> Note) and step-state telemetry, or something else
            # (e.g. a second terminal event)
            r.v("publish_queue_not_empty_after_terminal", left=rec.publish_left, outcome=kind, left_types=left_types,
                only_step_written_events=bool(left_types) and set(left_types) <= {"Note", "StepStateChanged"},
                written_in_reaction_to_terminal=bool(getattr(rec, "publish_left_reaction", False)))
        # how many workers were running at the terminal tick
        par = 0
        if rec.ticks:
            last = rec.ticks[-1]
            par = sum(len(w["in_progress"]) for w in last["workers"].values())
        r.nontrivial = kind != "result" or par >= 2
        if par >= 2:
            r.classes.append("terminal_with_parallel_workers")


PROP = C04
