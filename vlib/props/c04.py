"""C04 — every run ends once, and its stream ends with the matching terminal event."""

from __future__ import annotations

import asyncio
import json

from hypothesis import strategies as st

from .. import boot, genwf
from ..boot import Runaway, VClock
from ..runner import CaseResult
from ._engine import EngineProp

TERMINAL = ("WorkflowFailedEvent", "WorkflowCancelledEvent", "WorkflowTimedOutEvent")


class C04(EngineProp):
    id = "C04"
    rule = (
        "cases = generated programs that may end by a StopEvent subclass returned from any step (racing other running workers), by "
        "an exhausted step failure, a non-Event return value, the workflow timeout, cancel_run at a generated instant, or by user "
        "retry code that raises (a policy whose next() raises on its k-th call, or a retry predicate that raises); otherwise by the "
        "harness Fin event. A consumer iterates handler.stream_events() concurrently. Non-trivial = outcome other than plain "
        "success, or >=2 workers were running when the terminal tick arrived. "
        "Second family (limited_runs): ONE workflow instance of a two-step workflow with num_concurrent_runs in 1..3 (optionally a workflow "
        "timeout) and 2-6 runs of it started at generated virtual instants, more runs than slots in most cases; each run has generated step "
        "durations, optional stream writes, optionally fails in its first or second step, runs into the workflow timeout, and/or is "
        "cancelled with cancel_run at a generated instant (at once, while it still waits for a slot, while it runs, after it ended); its "
        "stream_events() consumer is attached at run() or only after the run has ended. The same clauses are judged for EVERY run of the "
        "case: the run finishes, its consumer terminates, the stream holds exactly one terminal event, of the kind matching the run's "
        "outcome (and carrying that run's result / exception), as its last event, and nothing is left or arrives in the publish queue "
        "afterwards (judged at the end of the case, so also after a cancel_run on an ended run). Non-trivial there = some run had to wait "
        "for a slot or ended other than by its result."
    )
    assumptions = [
        "'finishes' = the handler's result future is done; the stream consumer then gets 5 virtual seconds (nothing in the engine needs time there)",
        "virtual time / generated ties as in C01",
        "limited_runs: step bodies write to the stream only after a positive sleep, durations are whole seconds, the workflow timeout is k+1/2 and "
        "run k's cancel instant has the fractional part (2k+1)/64, so no step ever writes at the instant of a non-result terminal event of its own "
        "run (the late-write finding of the first family cannot occur there by construction)",
    ]
    liveness = True
    budgets = {"quick": 1000, "thorough": 5000}

    def strategy(self, tier):
        base = genwf.program_strategy(stop_mode="any", cancel=True, timeouts=True, nonevent=True, retries=True, waits=True, collect=True)

        @st.composite
        def with_policy_faults(draw):
            spec = draw(base)
            for s in spec["steps"]:
                if s.get("retry") and draw(st.integers(0, 5)) == 0:
                    s["retry"]["raise_at"] = draw(st.integers(1, 3))
                    s["retry"]["raise_in"] = draw(st.sampled_from(["next", "predicate"]))
                elif s.get("retry") and draw(st.integers(0, 3)) == 0:
                    # a user-written policy object of an ordinary Python shape (the RetryPolicy protocol only asks for next())
                    s["retry"]["user_policy"] = draw(st.sampled_from(["dataclass", "no_seed_kwarg", "slots", "eq_without_hash"]))
            return spec

        @st.composite
        def stop_race(draw):
            """StopEvent returned while other workers are about to publish: the 'nothing after the terminal event' clause."""
            d = draw(st.sampled_from([0, 1, 1, 2]))
            ys = lambda: [["sleep", 0]] * draw(st.integers(0, 4))  # noqa: E731
            n0 = draw(st.integers(1, 2))
            via = draw(st.sampled_from(["plain", "plain", "collect", "wait"]))
            react = draw(st.sampled_from([False, False, True]))
            stopper = [["sleep", d]] + ys() + ([["ret", draw(st.sampled_from(["GStop", "GStop", "nonevent"]))]] if not react else [["fail", None, "GenError"], ["ret", None]])
            ext = []
            if via == "collect":
                n0 = 2
                stopper = [["collect", ["E0", "E0"], None]] + stopper
            elif via == "wait":
                stopper = [["wait", "Reply", {}, "auto", None, False, "continue"]] + stopper
                ext = [[draw(st.sampled_from([0, 1, 2])), "send", "Reply", None, {}]]
            steps = [
                {"name": "a", "accepts": ["GStart"], "workers": 1, "retry": None,
                 "acts": {"GStart": [["send", "E0", n0, None], ["send", "E1", draw(st.integers(1, 3)), None], ["ret", None]]}},
                {"name": "b", "accepts": ["E0"], "workers": draw(st.integers(1, 2)), "retry": None, "acts": {"E0": stopper}},
                {"name": "c", "accepts": ["E1"], "workers": draw(st.integers(1, 3)), "retry": None, "cancel_note": draw(st.booleans()),
                 "acts": {"E1": [["sleep", draw(st.sampled_from([d, d, 0, 1, 3]))]] + ys() + [["stream", "Note"]] + ys() + [["stream", "Note"], ["sleep", draw(st.sampled_from([0, 1, 5]))], ["ret", None]]
                          if not react else
                          # a sibling that writes only in REACTION to the terminal event: it parks until the stream's consumer has seen
                          # one; a run whose other workers are cancelled together with the terminal publish never lets it write
                          [["sleep", draw(st.sampled_from([0, 0, 1]))], ["wait_terminal"]] + ys() + [["stream", "Note", {"reaction": 1}], ["sleep", 5], ["ret", None]]}},
                {"name": "fin", "accepts": ["Fin"], "workers": 1, "retry": None, "acts": {"Fin": [["ret", "GStop"]]}},
            ]
            return {"steps": steps, "timeout": None, "ext": ext, "ties": draw(st.lists(st.integers(0, 7), max_size=6))}

        @st.composite
        def user_policy_failures(draw):
            """A step that really fails and is retried (or exhausts its budget) under a user-written policy object."""
            n = draw(st.integers(1, 3))
            upto = draw(st.integers(1, n + 1))  # > n-1 attempts failing = budget exhausted -> the run fails
            retry = {"n": n, "w": draw(st.sampled_from([0, 0, 1])), "user_policy": draw(st.sampled_from(["dataclass", "no_seed_kwarg", "slots", "eq_without_hash"]))}
            steps = [
                {"name": "a", "accepts": ["GStart"], "workers": 1, "retry": None,
                 "acts": {"GStart": [["send", "E0", draw(st.integers(1, 3)), None], ["ret", None]]}},
                {"name": "b", "accepts": ["E0"], "workers": draw(st.integers(1, 2)), "retry": retry,
                 "acts": {"E0": [["sleep", draw(st.sampled_from([0, 1, 2]))], ["fail", upto, "GenError"], ["stream", "Note"], ["ret", None]]}},
                {"name": "fin", "accepts": ["Fin"], "workers": 1, "retry": None, "acts": {"Fin": [["ret", "GStop"]]}},
            ]
            return {"steps": steps, "timeout": None, "ext": [], "ties": draw(st.lists(st.integers(0, 7), max_size=4))}

        def prior(pair):
            spec, p = pair
            if p:
                # the run id of this run was used before on the same runtime by a run that has ended, is still referenced and whose
                # stream nobody read (a re-submitted job id): whether the submission is refused or accepted, the run that results has
                # its own outcome, its own terminal event and nothing of the earlier run in its stream
                spec = dict(spec, prior_run=True)
            return spec

        @st.composite
        def limited_runs(draw):
            """Several runs of ONE workflow instance that has num_concurrent_runs slots: runs queue for a slot, and end in every way."""
            limit = draw(st.sampled_from([1, 1, 2, 2, 3]))
            runs = []
            for _ in range(draw(st.integers(2, 6))):
                runs.append(
                    {
                        "at": draw(st.sampled_from([0, 0, 0, 1, 1, 2, 3])),
                        "d1": draw(st.sampled_from([0, 1, 2, 3])),
                        "d2": draw(st.sampled_from([0, 0, 1, 2])),
                        "w1": draw(st.booleans()),
                        "w2": draw(st.booleans()),
                        "fail": draw(st.sampled_from([None, None, None, None, 1, 2])),
                        # cancel_run(): "now" = in the same instant as run(); n = n whole seconds (plus the run's own fraction) after run()
                        "cancel": draw(st.sampled_from([None, None, None, "now", 0, 0, 1, 2, 4, 7])),
                        "consume": draw(st.sampled_from(["live", "live", "live", "late"])),
                    }
                )
            return {"family": "limited_runs", "limit": limit, "timeout": draw(st.sampled_from([None, None, None, 0.5, 1.5, 1.5, 2.5, 4.5])), "runs": runs,
                    "ties": draw(st.lists(st.integers(0, 7), max_size=6))}

        programs = st.tuples(st.one_of(with_policy_faults(), with_policy_faults(), stop_race(), user_policy_failures()), st.sampled_from([False, False, False, True])).map(prior)
        limited = limited_runs()

        @st.composite
        def pick(draw):
            # one case in five is of the limited_runs family (st.one_of over repeated identical branches does not weight them)
            return draw(limited) if draw(st.integers(0, 4)) == 0 else draw(programs)

        return pick()

    def retry_builder(self, spec):
        m = genwf.M()
        rp, ge = m["rp"], m["ge"]
        if spec is None:
            return None
        inner_kw = dict(wait=rp.wait_fixed(spec.get("w", 0)), stop=rp.stop_after_attempt(spec["n"]))
        k = spec.get("raise_at")
        shape = spec.get("user_policy")
        if not k and shape:
            import dataclasses

            inner0 = rp.retry_policy(**inner_kw)
            if shape == "dataclass":

                @dataclasses.dataclass  # eq=True, not frozen: instances are unhashable
                class BudgetPolicy:
                    budget: int = 3

                    def next(self, elapsed_time, attempts, error, *, seed=None):
                        return inner0.next(elapsed_time, attempts, error, seed=seed)

                return BudgetPolicy()
            if shape == "no_seed_kwarg":

                class OldStylePolicy:
                    def next(self, elapsed_time, attempts, error):
                        return inner0.next(elapsed_time, attempts, error)

                return OldStylePolicy()
            if shape == "slots":

                class SlotsPolicy:
                    __slots__ = ()

                    def next(self, elapsed_time, attempts, error, *, seed=None):
                        return inner0.next(elapsed_time, attempts, error, seed=seed)

                return SlotsPolicy()

            class EqPolicy:
                def __eq__(self, other):
                    return isinstance(other, EqPolicy)

                def next(self, elapsed_time, attempts, error, *, seed=None):
                    return inner0.next(elapsed_time, attempts, error, seed=seed)

            return EqPolicy()
        if not k:
            return rp.retry_policy(**inner_kw)
        calls = {"n": 0}
        if spec.get("raise_in") == "predicate":

            def pred(e):
                calls["n"] += 1
                if calls["n"] >= k:
                    raise ge.GenErrorB("retry predicate failed")
                return True

            return rp.retry_policy(retry=rp.retry_if_exception(pred), **inner_kw)
        inner = rp.retry_policy(**inner_kw)

        class RaisingPolicy:
            def next(self, elapsed_time, attempts, error, *, seed=None):
                calls["n"] += 1
                if calls["n"] >= k:
                    raise ge.GenErrorB("retry policy failed")
                return inner.next(elapsed_time, attempts, error, seed=seed)

        return RaisingPolicy()

    def run_spec(self, spec, **kw):
        return genwf.run_case_program(spec, probe=True, retry_builder=self.retry_builder, **kw)

    def run_case(self, case):
        if isinstance(case, dict) and case.get("family") == "limited_runs":
            return self.run_limited(json.loads(json.dumps(case)))
        return super().run_case(case)

    # ------------------------------------------------------------------ family limited_runs

    def _limited_cls(self, log):
        m = genwf.M()
        ge, step, Context, Workflow = m["ge"], m["step"], m["Context"], m["Workflow"]

        async def a(self, ctx, ev):
            k = ev.get("k")
            if log[k]["enter"] is None:
                log[k]["enter"] = VClock.t
                log[k]["seq"]["enter"] = genwf.cur().nseq()
            if ev.get("d1"):
                await asyncio.sleep(ev.get("d1"))
                if ev.get("w1"):
                    ctx.write_event_to_stream(ge.Note(k=k, by="a"))
            if ev.get("fail") == 1:
                raise ge.GenError(f"run{k}:a")
            return ge.E0(k=k, d2=ev.get("d2"), w2=ev.get("w2"), fail=ev.get("fail"))

        async def b(self, ctx, ev):
            k = ev.get("k")
            if ev.get("d2"):
                await asyncio.sleep(ev.get("d2"))
                if ev.get("w2"):
                    ctx.write_event_to_stream(ge.Note(k=k, by="b"))
            if ev.get("fail") == 2:
                raise ge.GenError(f"run{k}:b")
            return ge.GStop(result=k)

        def ann(fn, name, ev_t, ret_t):
            fn.__name__ = name
            fn.__qualname__ = f"C04LimitedWf.{name}"
            fn.__annotations__ = {"ctx": Context, "ev": ev_t, "return": ret_t}
            return fn

        return type("C04LimitedWf", (Workflow,), {"a": step(ann(a, "a", ge.GStart, ge.E0)), "b": step(ann(b, "b", ge.E0, ge.GStop))})

    def run_limited(self, case) -> CaseResult:
        r = CaseResult()
        m = genwf.M()
        ge = m["ge"]
        runs = case["runs"]
        limit = case["limit"]
        n = len(runs)
        # instants (virtual time) and, under "seq", the order of the same moments within one instant
        log = [{"started": None, "enter": None, "done": None, "cancelled_at": None, "cancel_after_end": False, "consumer_finished": None,
                "outcome": None, "publish_left": None, "left_types": [], "seq": {}} for _ in runs]
        rec = genwf.Rec({"ties": case["ties"], "ext": []})
        sinks = [genwf.Rec({"ties": [], "ext": []}) for _ in runs]  # one stream record per run (what consume_stream fills)
        horizon = 60.0 + 4 * sum(x["d1"] + x["d2"] + x["at"] for x in runs) + 4 * n * float(case["timeout"] or 0)
        genwf.CUR = rec
        runtime = genwf.make_runtime()
        wf = self._limited_cls(log)(timeout=case["timeout"], runtime=runtime, num_concurrent_runs=limit)
        handlers: list = [None] * n

        async def main():
            genwf.CUR = rec
            side: list = []

            async def cancel_later(k, spec, h):
                if spec["cancel"] != "now":
                    await asyncio.sleep(spec["cancel"] + (2 * k + 1) / 64)
                if h._result_task.done():
                    log[k]["cancel_after_end"] = True
                else:
                    log[k]["cancelled_at"] = VClock.t
                    log[k]["seq"]["cancel"] = rec.nseq()
                await h.cancel_run(timeout=1e9)

            async def one(k, spec):
                lg = log[k]
                if spec["at"]:
                    await asyncio.sleep(spec["at"])
                lg["started"] = VClock.t
                lg["seq"]["started"] = rec.nseq()
                h = wf.run(start_event=ge.GStart(k=k, d1=spec["d1"], d2=spec["d2"], w1=spec["w1"], w2=spec["w2"], fail=spec["fail"]), run_id=f"run-{k}")
                handlers[k] = h

                def done(_t, lg=lg):
                    lg["done"] = VClock.t
                    lg["seq"]["done"] = rec.nseq()

                h._result_task.add_done_callback(done)
                consumer = None
                if spec["consume"] == "live":
                    consumer = asyncio.create_task(genwf.consume_stream(sinks[k], h))
                    side.append(consumer)
                canc = None
                if spec["cancel"] is not None:
                    canc = asyncio.create_task(cancel_later(k, spec, h))
                    side.append(canc)
                fin, _ = await asyncio.wait({h._result_task}, timeout=max(0.0, horizon - VClock.t))
                if fin:
                    if consumer is None:
                        # a consumer that attaches only after the run has ended still gets the whole stream
                        await asyncio.sleep(1)
                        consumer = asyncio.create_task(genwf.consume_stream(sinks[k], h))
                        side.append(consumer)
                    await asyncio.wait({consumer}, timeout=5.0)
                lg["consumer_finished"] = consumer is not None and consumer.done()
                if canc is not None and not canc.done():
                    await asyncio.wait({canc}, timeout=max(0.0, horizon - VClock.t))

            tasks = [asyncio.create_task(one(k, s)) for k, s in enumerate(runs)]
            await asyncio.wait(tasks, timeout=2 * horizon)
            await asyncio.sleep(1)
            for k, h in enumerate(handlers):
                if h is None:
                    continue
                log[k]["outcome"] = genwf.classify_outcome(rec, h)
                try:
                    q = h._external_adapter._queues.publish_queue
                    log[k]["publish_left"] = q.qsize()
                    log[k]["left_types"] = sorted({type(x).__name__ for x in list(getattr(q, "_queue", []))})
                except Exception:  # noqa: BLE001
                    pass
                if not h._result_task.done():
                    try:
                        h._external_adapter.abort()
                    except Exception:  # noqa: BLE001
                        pass
            for t in tasks + side:
                if not t.done():
                    t.cancel()
            await asyncio.gather(*tasks, *side, *[h._result_task for h in handlers if h is not None], return_exceptions=True)

        try:
            boot.run_virtual(main)
        except Runaway as e:
            r.v("runaway", detail=str(e)[:80], family="limited_runs")
            r.nontrivial = True
            return r
        finally:
            genwf.CUR = None

        INF = float("inf")
        waited = False
        cls: set = set()
        for k, spec in enumerate(runs):
            lg = log[k]
            if lg["started"] is None or lg["outcome"] is None:
                raise RuntimeError(f"limited_runs harness: run {k} was never started")
            out = lg["outcome"]
            kind = out["kind"]
            # slots are handed out in the order of the run() calls: how many runs started before this one had not ended at moment q?
            # (moments are ordered by a counter, so that runs which start, wait and end within one virtual instant are classified too)
            sq = lg["seq"]

            def ahead(q, k=k):
                return sum(1 for j in range(n) if j != k and log[j]["seq"]["started"] < log[k]["seq"]["started"] and log[j]["seq"].get("done", INF) > q)

            had_to_wait = ahead(sq["started"]) >= limit
            waited = waited or had_to_wait
            c_at = lg["cancelled_at"]
            queued_when_cancelled = c_at is not None and sq.get("enter", INF) > sq["cancel"] and ahead(sq["cancel"]) >= limit
            cls.add("limited_outcome_" + kind)
            if had_to_wait:
                cls.add("limited_run_waited_for_slot")
            if queued_when_cancelled:
                cls.add("limited_cancelled_while_waiting_for_slot")
                if spec["consume"] == "late":
                    cls.add("limited_cancelled_while_waiting_late_consumer")
            elif c_at is not None:
                cls.add("limited_cancelled_while_running")
            if lg["cancel_after_end"]:
                cls.add("limited_cancel_run_after_end")
            if kind == "timeout" and had_to_wait:
                cls.add("limited_waited_then_timed_out")
            if case["timeout"] is not None and lg["enter"] is not None and lg["enter"] - lg["started"] > case["timeout"]:
                cls.add("limited_waited_longer_than_the_timeout")
            extra = {"family": "limited_runs", "limit": limit, "waited_for_slot": had_to_wait, "queued_when_cancelled": queued_when_cancelled}
            if kind == "unfinished":
                r.v("run_never_finished", policy_fault=False, **extra)
                continue
            if kind == "result" and out["stop"].result != k:
                r.v("result_of_another_run", **extra)
            stream = sinks[k].stream
            if sinks[k].consumer_error is not None:
                r.v("consumer_raised", outcome=kind, error=repr(sinks[k].consumer_error)[:80], consume=spec["consume"], **extra)
            elif not lg["consumer_finished"]:
                r.v("consumer_not_terminated", outcome=kind, engine_side=False, exc=type(out.get("exc")).__name__, consume=spec["consume"], **extra)
            self.terminal_clauses(r, kind, out, stream, extra)
            foreign = [type(e).__name__ for _, e in stream if type(e).__name__ in ("Note", "GStop") and (e.get("k", None) if type(e).__name__ == "Note" else e.result) != k]
            if foreign:
                r.v("event_of_another_run_in_stream", outcome=kind, events=foreign[:3], **extra)
            if lg["publish_left"]:
                # no step of this family writes at the instant of a terminal event (see assumptions), so this is never the late-write
                # finding of the first family: it carries none of that finding's attributes
                r.v("publish_queue_not_empty_after_terminal", left=lg["publish_left"], outcome=kind, left_types=lg["left_types"],
                    same_instant_writer=False, cancel_run_after_end=lg["cancel_after_end"], **extra)
        if n > limit:
            cls.add("limited_more_runs_than_slots")
        cls.add("family_limited_runs")
        r.classes.extend(sorted(cls))
        r.nontrivial = waited or any(lg["outcome"]["kind"] != "result" for lg in log)
        r.sample = {"case": case, "log": [{k_: (v["kind"] if k_ == "outcome" else v) for k_, v in lg.items()} for lg in log]}
        return r

    # ------------------------------------------------------------------ oracle

    @staticmethod
    def terminal_clauses(r: CaseResult, kind: str, out: dict, stream: list, extra: dict, engine_side: bool = False) -> None:
        """Exactly one terminal event, last in the stream, of the kind of the outcome and carrying the outcome's payload."""
        names = [type(e).__name__ for _, e in stream]
        terminals = [(i, e) for i, (_, e) in enumerate(stream) if type(e).__name__ in TERMINAL or type(e).__name__ == "GStop"]
        if len(terminals) != 1:
            r.v("terminal_event_count", outcome=kind, count=len(terminals), engine_side=engine_side, **extra)
        if terminals:
            i, e = terminals[-1]
            if i != len(stream) - 1:
                r.v("published_after_terminal", outcome=kind, after=names[i + 1 :][:3], **extra)
            tn = type(e).__name__
            want = {"result": "GStop", "failed": "WorkflowFailedEvent", "cancelled": "WorkflowCancelledEvent", "timeout": "WorkflowTimedOutEvent"}.get(kind)
            if want is not None and tn != want:
                r.v("terminal_kind_mismatch", outcome=kind, terminal=tn, **extra)
            if kind == "result" and tn == "GStop":
                if e.get("uid") != out["stop"].get("uid") or e.result != out["stop"].result:
                    r.v("stop_event_not_the_result", **extra)
            if kind == "failed" and tn == "WorkflowFailedEvent":
                ex = out["exc"]
                if type(e.exception) is not type(ex) or str(e.exception) != str(ex):
                    r.v("failed_event_other_exception", event_exc=repr(e.exception)[:60], run_exc=repr(ex)[:60], **extra)

    def oracle(self, spec, rec, r: CaseResult) -> None:
        out = rec.outcome
        kind = out["kind"]
        r.classes.append("outcome_" + kind)
        if any(a_[0] == "wait_terminal" for s_ in spec["steps"] for acts in s_["acts"].values() for a_ in acts):
            r.classes.append("sibling_reacts_to_terminal_event")
        for n_ in rec.notes:
            if "prior_run_id" in n_:
                r.classes.append("run_id_used_before_" + n_["prior_run_id"])
        policy_fault = any((s.get("retry") or {}).get("raise_at") for s in spec["steps"])
        if policy_fault:
            r.classes.append("policy_fault_armed")
        if any((s.get("retry") or {}).get("user_policy") for s in spec["steps"]):
            r.classes.append("user_policy_object")
        if kind == "unfinished":
            # Fin / timeout always ends these programs: not finishing at the horizon is out of C04's scope unless
            # the engine died silently; report separately so it is not lost
            r.v("run_never_finished", policy_fault=policy_fault)
            return
        engine_side = kind == "failed" and type(out["exc"]).__name__ == "GenErrorB"
        if engine_side:
            r.classes.append("engine_side_failure")
        if not rec.consumer_finished:
            r.v("consumer_not_terminated", outcome=kind, engine_side=engine_side, exc=type(out.get("exc")).__name__)
        self.terminal_clauses(r, kind, out, rec.stream, {}, engine_side=engine_side)
        if rec.publish_left:
            left_types = getattr(rec, "publish_left_types", [])
            # what is left: events a step wrote itself (ctx.write_event_to_stream -> Note) and step-state telemetry, or something else
            # (e.g. a second terminal event)
            r.v("publish_queue_not_empty_after_terminal", left=rec.publish_left, outcome=kind, left_types=left_types,
                only_step_written_events=bool(left_types) and set(left_types) <= {"Note", "StepStateChanged"},
                written_in_reaction_to_terminal=bool(getattr(rec, "publish_left_reaction", False)))
        # how many workers were running at the terminal tick
        par = 0
        if rec.ticks:
            last = rec.ticks[-1]
            par = sum(len(w["in_progress"]) for w in last["workers"].values())
        r.nontrivial = kind != "result" or par >= 2
        if par >= 2:
            r.classes.append("terminal_with_parallel_workers")


PROP = C04
