"""C32 — generated deployment ids are valid DNS-1035 labels (pure inputs)."""

from __future__ import annotations

import ast
import asyncio
import os
import random
import re

from hypothesis import strategies as st

from .. import boot
from ..runner import CaseResult, Prop

DNS = re.compile(r"^[a-z]([a-z0-9-]{0,61}[a-z0-9])?$")


def load_slice():
    """Execute find_deployment_id/_append_random_suffix from the current source (k8s_client imports kubernetes, absent here)."""
    path = os.path.join(boot.REPO, "packages/llama-agents-control-plane/src/llama_agents/control_plane/k8s_client.py")
    src = open(path).read()
    tree = ast.parse(src)
    want = {"find_deployment_id", "_append_random_suffix"}
    nodes = [n for n in tree.body if isinstance(n, (ast.FunctionDef, ast.AsyncFunctionDef)) and n.name in want]
    if {n.name for n in nodes} != want:
        raise RuntimeError("find_deployment_id/_append_random_suffix not found in k8s_client.py")
    mod = ast.Module(body=nodes, type_ignores=[])
    ns: dict = {"re": re, "random": random}
    exec(compile(mod, path, "exec"), ns)
    return ns


class C32(Prop):
    id = "C32"
    rule = (
        "cases = display names from full Unicode text (case-mapping oddities, combining marks, digit-first, hyphen runs, >63 chars) "
        "and from a names-like alphabet, force_suffix flag, a generated set of ids reported as already taken (incl. the deterministic "
        "id), and a seed for the suffix draws. Non-trivial = name needs truncation, a 'd-' prefix, a suffix, or hits a collision."
    )
    assumptions = [
        "find_deployment_id and _append_random_suffix are executed from the current source by AST slice (the module imports kubernetes, which is not installable offline); validate_deployment_id is supplied by the harness",
        "'lowercase alphanumerics' = characters of name.lower() in [a-z0-9]",
    ]
    budgets = {"quick": 4000, "thorough": 40000}
    wall = {"quick": 60.0, "thorough": 600.0}

    def setup(self):
        boot.seed_llama_agents()
        self.ns = load_slice()
        from llama_agents.core.schema.deployments import validate_dns_1035_label

        self.validate_label = validate_dns_1035_label

    def strategy(self, tier):
        namey = st.text(alphabet=st.sampled_from(list("abcXYZ019-_. /ÄßİK一")), min_size=0, max_size=80)
        wordy = st.text(alphabet=st.sampled_from(list("abcdefghijXYZ0123456789--  _.")), min_size=0, max_size=120)
        # long names whose hyphens fall around the 57/63 character cut-offs
        longy = st.builds(
            lambda a, b, c: a + b + c,
            st.text(alphabet=st.sampled_from(list("abc1")), min_size=50, max_size=66),
            st.sampled_from(["", "-", "--", " ", "_-", "- -"]),
            st.text(alphabet=st.sampled_from(list("xyz-9 ")), max_size=30),
        )
        return st.fixed_dictionaries(
            {
                "name": st.one_of(st.text(max_size=90), namey, wordy, longy, longy),
                "force": st.sampled_from([False, False, False, True]),
                "taken_base": st.booleans(),
                "taken_n": st.integers(0, 3),
                "seed": st.integers(0, 10**6),
            }
        )

    @staticmethod
    def sanitize(name: str) -> str:
        low = name.lower()
        runs = re.findall(r"[a-z0-9]+", low)
        s = "-".join(runs)
        if s and s[0].isdigit():
            s = "d-" + s
        return s[:63].rstrip("-")

    def run_case(self, case):
        r = CaseResult()
        name = case["name"]
        base = self.sanitize(name)
        alnum = re.findall(r"[a-z0-9]", name.lower())
        calls = {"n": 0}
        taken_first_n = case["taken_n"]

        async def validate_deployment_id(did: str) -> bool:
            calls["n"] += 1
            if case["taken_base"] and did == base:
                return False
            if calls["n"] <= taken_first_n:
                return False
            return True

        self.ns["validate_deployment_id"] = validate_deployment_id
        random.seed(case["seed"])
        try:
            got = asyncio.run(self.ns["find_deployment_id"](name, force_suffix=case["force"]))
        except ValueError as e:
            r.v("raised", err=str(e)[:60])
            return r
        if not DNS.match(got) or len(got) > 63:
            r.v("invalid_dns_label", got=got, name=name[:40])
        try:
            self.validate_label(got)
        except ValueError:
            r.v("rejected_by_validate_dns_1035_label", got=got)
        collided = calls["n"] > 1
        has_suffix = re.search(r"(^|-)[0-9a-f]{5}$", got) is not None
        if len(alnum) >= 3:
            if not case["force"] and not collided:
                if got != base:
                    r.v("not_derived_from_alphanumerics", got=got, want=base)
            else:
                if not has_suffix:
                    r.v("no_suffix_after_collision_or_force", got=got)
                # still derived from the name
                stem = got[:-6]
                if not base.startswith(stem.rstrip("-")[: len(base)]) and not stem.startswith(base[:57]):
                    r.v("suffixed_id_not_derived", got=got, base=base)
        else:
            if not has_suffix:
                r.v("no_suffix_with_few_alphanumerics", got=got, n_alnum=len(alnum))
        if len(alnum) >= 3 and not has_suffix or (len(alnum) >= 3 and has_suffix):
            prefixed = bool(alnum) and alnum[0].isdigit()  # "d-" was added because the name starts with a digit
            ga = [c for c in (got[2:] if prefixed else got) if c.isalnum()]
            if has_suffix and (case["force"] or collided):
                ga = ga[:-5]
            if ga != alnum[: len(ga)]:
                r.v("alphanumerics_not_preserved_in_order", got=got)
        r.classes.append("few_alnum" if len(alnum) < 3 else "enough_alnum")
        if collided:
            r.classes.append("collision")
        trunc = len("-".join(re.findall(r"[a-z0-9]+", name.lower()))) > 63
        if trunc:
            r.classes.append("truncated")
        r.nontrivial = trunc or (bool(alnum) and alnum[0].isdigit()) or has_suffix or collided
        return r


PROP = C32
