"""C06 — retry delays follow the wait strategy in documented (tenacity) order."""

from __future__ import annotations

import json
import math

from hypothesis import strategies as st

from .. import genwf
from ..runner import CaseResult, Prop
from .c07 import C07, _wait_leaf, _wait_tree

EPS = 1e-6


class C06(Prop):
    id = "C06"
    rule = (
        "cases = one always-failing step with retry_policy(wait=<generated wait-strategy tree: fixed, none, exponential, incrementing, "
        "random, exponential-jitter, random-exponential, wait_chain of 1-4 members, wait_combine/+>, stop=stop_after_attempt(n), n in 3..6); "
        "the virtual timestamps of successive attempts are compared with the delay documented for retry k (tenacity semantics: "
        "wait_chain member k, multiplier*exp_base^(k-1), start+increment*(k-1), sums, jitter intervals). "
        "Non-trivial = >=2 retries whose documented delays differ."
    )
    assumptions = [
        "documented delay for retry k = tenacity's definition with attempt_number k, as the property states the module mirrors tenacity",
        "tolerance 1e-6 relative/absolute on virtual time; jittered strategies are checked against their documented interval only",
    ]
    budgets = {"quick": 500, "thorough": 3000}
    wall = {"quick": 70.0, "thorough": 900.0}

    def setup(self):
        genwf.M()
        self.h = C07()
        self.h.setup()

    def strategy(self, tier):
        return st.fixed_dictionaries({"tree": st.one_of(_wait_tree(), _wait_tree(), _wait_leaf.map(list)), "tick": st.sampled_from([None, 0.3, 0.7, 1.3]), "m": st.sampled_from([1, 1, 2, 3]), "workers": st.sampled_from([1, 1, 2]), "ties": st.lists(st.integers(0, 3), max_size=4), "n": st.integers(3, 6), "s": st.sampled_from([0, 0.5, 1, 2])})

    # documented interval for retry k (1-based)
    def doc(self, node, k):
        kind = node[0]
        if kind == "combine":
            lo = hi = 0.0
            for c in node[1]:
                l, h = self.doc(c, k)
                lo += l
                hi += h
            return lo, hi
        if kind == "chain":
            idx = min(k, len(node[1])) - 1
            return self.doc(node[1][idx], k)
        p = node[1]
        from datetime import timedelta

        def tdv(x, td):
            return timedelta(seconds=x).total_seconds() if td else float(x)

        if kind in ("fixed", "lambda_fixed"):
            w = tdv(p["wait"], p.get("td"))
            return w, w
        if kind == "none":
            return 0.0, 0.0

        def powk(base):
            try:
                return float(base) ** (k - 1)
            except OverflowError:
                return math.inf

        if kind == "exponential":
            mn, mx = tdv(p["mm"][0], p.get("td")), tdv(p["mm"][1], p.get("td"))
            v = max(max(0.0, mn), min(float(p["multiplier"]) * powk(p["exp_base"]) if p["multiplier"] else 0.0, mx))
            return v, v
        if kind == "incrementing":
            mx = math.inf if p["max"] is None else float(p["max"])
            v = max(0.0, min(float(p["start"]) + float(p["increment"]) * (k - 1), mx))
            return v, v
        if kind == "random":
            return float(p["mm"][0]), float(p["mm"][1])
        if kind == "exp_jitter":
            base = min(float(p["initial"]) * powk(p["exp_base"]) if p["initial"] else 0.0, float(p["max"]))
            return base, min(base + float(p["jitter"]), float(p["max"]))
        if kind in ("random_exp", "full_jitter"):
            mn, mx = float(p["mm"][0]), float(p["mm"][1])
            up = max(max(0.0, mn), min(float(p["multiplier"]) * powk(p["exp_base"]) if p["multiplier"] else 0.0, mx))
            return mn, max(mn, up)
        raise ValueError(kind)

    def run_case(self, case):
        from ..boot import Runaway

        case = json.loads(json.dumps(case))
        r = CaseResult()
        rp = genwf.M()["rp"]
        tree, n = case["tree"], case["n"]
        m, workers = case.get("m", 1), case.get("workers", 1)
        policy = rp.retry_policy(wait=self.h.mk_wait(tree), stop=rp.stop_after_attempt(n))
        spec = {
            "steps": [
                {"name": "a0", "accepts": ["GStart"], "workers": 1, "retry": None, "acts": {"GStart": [["send", "E1", m, None], ["ret", None]]}},
                {"name": "a", "accepts": ["E1"], "workers": workers, "retry": {"custom": True},
                 "acts": {"E1": [["sleep", case["s"]], ["fail", None, "ValueError"], ["ret", "GStop"]]}},
            ],
            "timeout": None, "ext": [], "ties": case.get("ties", []),
        }
        # (k = 1..n, not n-1: the known index shift makes retry k wait what is documented for retry k+1; the ticker below
        # must stay cheap in that world too, or the real-time cap -- inconclusive, not a violation -- would be hit)
        total_hi = sum(self.doc(tree, k)[1] for k in range(1, n + 1))
        ticker = case.get("tick") if total_hi <= 100 else None
        if ticker:
            # a second, independently retrying step: its timers wake the loop at unrelated instants
            spec["steps"][0]["declares"] = ["E0"]
            spec["steps"].append({"name": "b", "accepts": ["E0"], "workers": 1, "retry": {"ticker": True},
                                  "acts": {"E0": [["fail", None, "KeyError"], ["ret", None]]}})
            spec["ext"].append([0, "send", "E0", None, {}])
            r.classes.append("with_ticker")
        tick_policy = rp.retry_policy(wait=rp.wait_fixed(ticker or 1), stop=rp.stop_never())
        try:
            rec = genwf.run_case_program(
                spec, probe=False, horizon=1e13,
                retry_builder=lambda s: None if not s else (tick_policy if s.get("ticker") else policy),
            )
        except Runaway:
            r.v("unbounded_retries")
            r.nontrivial = True
            return r
        by_uid: dict[int, list] = {}
        for i in rec.inv:
            if i["step"] == "a":
                by_uid.setdefault(i["uid"], []).append(i)
        docs = []
        waited = False
        full = [v for v in by_uid.values() if len(v) == n]
        if rec.outcome["kind"] != "failed" or not full:
            r.v("execution_count", got=[len(v) for v in by_uid.values()], want=n)
            return r
        for uid, invs in by_uid.items():
            if len(invs) > n:
                r.v("execution_count", got=len(invs), want=n)
            for k in range(1, len(invs)):
                if invs[k]["ri"].retry_number != k:
                    r.v("retry_number_sequence", k=k, got=invs[k]["ri"].retry_number)
                lo, hi = self.doc(tree, k)
                docs.append((lo, hi))
                gap = invs[k]["t_in"] - invs[k - 1]["t_out"]
                tol = EPS * max(1.0, abs(hi) if math.isfinite(hi) else 1.0)
                nlo, nhi = self.doc(tree, k + 1)  # signature of the known off-by-one (strategy indexed with the failure count)
                # single event: the gap must match the shifted delay exactly; under contention a due retry may have
                # waited for a slot, so only the shifted lower bound can be recognised
                shifted = (nlo - tol <= gap <= nhi + tol) if m == 1 else (gap >= nlo - tol)
                if gap < lo - tol:
                    r.v("retry_too_early", k=k, first_retry=k == 1, gap=gap, documented_lo=lo, explained_by_index_shift=shifted, top=tree[0])
                elif gap > hi + tol:
                    if m == 1:
                        r.v("retry_delay_mismatch", k=k, first_retry=k == 1, gap=gap, documented_hi=hi, explained_by_index_shift=shifted, top=tree[0])
                    else:
                        waited = True  # with several events a due retry may wait for a free slot: only the lower bound applies
        distinct = {d for d in docs}
        r.nontrivial = len(distinct) >= 2
        r.classes.append("top_" + tree[0])
        r.classes.append(f"events_{m}")
        if waited:
            r.classes.append("retry_waited_for_a_slot")
        if self.h.has_jitter(tree):
            r.classes.append("jitter")
        r.sample = {"case": case, "gaps": [[v[k]["t_in"] - v[k - 1]["t_out"] for k in range(1, len(v))] for v in by_uid.values()], "documented": docs[: n - 1]}
        return r


PROP = C06
