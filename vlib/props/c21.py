"""C21 — the single-connection SQLite store behaves like the per-call-connection store (differential operation sequences)."""

from __future__ import annotations

import asyncio
import contextlib
import os
import shutil
import tempfile
from concurrent.futures import ThreadPoolExecutor
from datetime import datetime, timedelta, timezone
from typing import Any

from hypothesis import strategies as st
from pydantic import BaseModel

from .. import boot
from ..runner import CaseResult, Prop, canon


# Typed state models (module level so JsonSerializer can re-import them by qualified name).
class C21Base(BaseModel):
    count: int = 0
    label: str = "d"


class C21Ext(C21Base):
    extra: str = "x"
    bag: dict = {}


class Boom(Exception):
    """Raised by generated user code inside an edit_state() block."""


HIDS = ["h0", "h1", "h2", "h3"]
WFS = ["w0", "w1"]
DICT_RUNS = ["r0", "r1"]
TYPED_RUNS = ["t0", "t1"]
RUNS = DICT_RUNS + TYPED_RUNS
STATUSES = ["running", "completed", "failed", "cancelled"]
DICT_PATHS = ["a", "b", "a.x", "a.y", "b.0", "n.m.k", "count", ""]
TYPED_PATHS = ["count", "label", "extra", "bag.k", "bag.k.j", "nope", "count.x", ""]
DICT_KEYS = ["a", "b", "n"]
TYPED_KEYS = ["count", "label", "extra", "bag"]
UNSER = "@@unserialisable"
T0 = datetime(2024, 1, 1, tzinfo=timezone.utc)
SMALL_PAGES = [2, 3, 5]  # generated stand-ins for the tick-replay page size (_TICK_PAGE_SIZE, 100 in the repository)
TICK_OPS = {"tick", "tks", "gtk", "stk"}

# state-store operations in the sense of the non-triviality rule (they touch the database)
SS_OPS = {"get", "set", "gst", "sst", "edit", "clr"}
SS_NAME = {"get": "get", "set": "set", "gst": "get_state", "sst": "set_state", "edit": "edit_state", "clr": "clear"}
# set_state() arguments the store must reject after it has started talking to the database (both raise the documented ValueError)
REJECTED_SST = {"wrong", "unser"}
# operations that only read (class labels: "nothing but reads between the rejected write and the next set_state/clear")
READ_OPS = {"qry", "qev", "gtk", "lctx", "get", "gst"}


def _other(run: str) -> str:
    pool = DICT_RUNS if run in DICT_RUNS else TYPED_RUNS
    return pool[1 - pool.index(run)]


class _Side:
    """One store under test plus the state-store objects created from it."""

    def __init__(self, path: str, single: bool) -> None:
        self.path = path
        self.single = single
        self.store: Any = None
        self.ss: dict[str, Any] = {}
        # reference model of the tick log: per run the tick_data of every append this store acknowledged, in order
        self.ticks: dict[str, list] = {}
        self.model_viol: list[dict] = []
        # stream_ticks reads performed (generator health): [ticks at start, ticks received, page queries issued, ended by the consumer, consumer ran an op, consumer appended to the streamed run]
        self.reads: list[list] = []


class C21(Prop):
    id = "C21"
    rule = (
        "case = a tick-replay page size (the repository's 100, or a generated small stand-in 2/3/5) and a generated sequence of 1-19 "
        "operations over SqliteWorkflowStore: handler update (upsert) / query / delete / "
        "update_handler_status, append_event / query_events, append_tick (single, or a burst of 1-12 ticks; with the repository's page "
        "size sometimes a burst of 95-215 ticks, so that histories span several replay pages, exact multiples of the page included) / "
        "get_ticks / stream_ticks (consumed to the end, or abandoned after k ticks and closed, optionally with one other generated "
        "operation executed by the consumer between two ticks of the stream), get_legacy_ctx, and state-store "
        "operations on stores obtained from create_state_store(run_id[, state_type, serialized_state, serializer]) for two DictState runs "
        "and two typed-model runs: get / set / get_state / set_state (same type, parent type; or a call the store must reject after it has "
        "read the row: a state model of an incompatible type, or a state of the right type holding a value the serializer cannot encode - "
        "both raise ValueError) / clear / edit_state (generated "
        "mutations, up to two nested store operations inside the block, optionally user code that raises), in a third of the cases a "
        "rejected set_state followed - directly or after one or two reads - by a valid set_state / clear through the same state store or "
        "that of another run (inserted as a block at a generated position), creation seeded from an "
        "in-memory payload or from another run's sqlite reference, and 'reopen' (end of process: the persistent connection is closed, a "
        "new store object is opened on the same file). The sequence is applied step by step to two stores on separate temp files, one "
        "opened with single_connection=True exactly as AgentCore does, one with the default per-call connections; after the generated "
        "operations a read-only epilogue reads back all handlers and the events / ticks (get_ticks and a full stream_ticks replay, as a resumed run does) of every run the case appended to (the store must still "
        "work after use), then both stores are reopened and the same is read back again together with the state of every run the case used "
        "a state store for (everything written must have been committed). Oracle: differential - at every step both stores return equal normalised results (handlers as "
        "model_dump(mode='json') sorted by handler_id; events/ticks without the SQLite CURRENT_TIMESTAMP, which must parse to a datetime; "
        "states as type name + model_dump) or raise the same exception class, and no operation may leave the event loop blocked. "
        "Reference model for the tick log (both stores, each against its own acknowledged appends): get_ticks returns exactly the "
        "acknowledged tick_data in append order with sequences 0..n-1; stream_ticks yields a prefix of that list which contains at least "
        "every tick appended before the stream started (cut at k when the consumer stops after k) - ticks appended by the consumer during "
        "the stream may or may not be included; a top-level tick operation with these valid arguments never raises. "
        "Non-trivial = at least one state-store operation that "
        "touches the database (get/set/get_state/set_state/edit_state/clear or a seeded creation) is followed by another generated "
        "operation (after it in the sequence, or nested inside its edit_state block)."
    )
    assumptions = [
        "both stores live on plain temp-file paths (no URI-special characters); the single-connection store uses sqlite's unix-none VFS as in production",
        "operations are applied sequentially from one task, as the property states sequences (no concurrent writers)",
        "datetime.now() inside abstract_workflow_store (update_handler_status) reads the harness's virtual clock, so both stores stamp the same instant; "
        "SQLite CURRENT_TIMESTAMP columns are real wall-clock values and are dropped after a type check",
        "'reopen' emulates a process restart by closing the persistent connection (uncommitted work is rolled back, as at process exit) and constructing a new store on the same file",
        "query() results are compared as sets keyed by handler_id (SQL without ORDER BY promises no order)",
        "the SQLite store's tick-replay page size (module constant _TICK_PAGE_SIZE = 100 in sqlite_workflow_store) is set by the harness to the "
        "case's generated small value (2, 3 or 5) for the duration of the case and restored afterwards, so that page boundaries fall inside "
        "short histories; the paging code itself is the repository's; cases with the repository's own page size and 95-215 ticks are kept "
        "(about 2-4 % of quick cases with 98-130 ticks, more and up to 215 ticks in the thorough tier)",
        "the case runs on the harness's virtual-time loop extended to wait (in real time) for worker threads the store code itself starts "
        "(asyncio.to_thread / run_in_executor): the plain virtual loop would declare the case quiescent while such a thread is still running; "
        "the executor is private to the case and shut down at its end",
    ]
    budgets = {"quick": 600, "thorough": 800}
    wall = {"quick": 45.0, "thorough": 300.0}

    # ------------------------------------------------------------------ setup

    def setup(self):
        boot.seed_llama_agents()
        from llama_agents.client.protocol.serializable_events import EventEnvelopeWithMetadata
        from llama_agents.server._store import abstract_workflow_store as aws
        from llama_agents.server._store.sqlite import sqlite_workflow_store as sqmod
        from llama_agents.server._store.sqlite.sqlite_workflow_store import SqliteWorkflowStore
        from workflows.context.serializers import JsonSerializer
        from workflows.context.state_store import DictState, create_in_memory_payload
        from workflows.events import StopEvent

        boot.patch_datetime(aws)
        self.Store = SqliteWorkflowStore
        self.sqmod = sqmod
        self.real_page = int(sqmod._TICK_PAGE_SIZE)
        self.HandlerQuery = aws.HandlerQuery
        self.PersistentHandler = aws.PersistentHandler
        self.Envelope = EventEnvelopeWithMetadata
        self.JsonSerializer = JsonSerializer
        self.DictState = DictState
        self.payload = create_in_memory_payload
        self.StopEvent = StopEvent
        self.tmproot = "/dev/shm" if os.path.isdir("/dev/shm") and os.access("/dev/shm", os.W_OK) else None

    # ------------------------------------------------------------------ generator

    def strategy(self, tier):
        text = st.sampled_from(["", "x", "err: boom", "é\"'", "a b"])
        leaf = st.one_of(
            st.none(),
            st.booleans(),
            st.integers(-3, 3),
            st.sampled_from([2**40, 0.5, -1.25, 1e10]),
            text,
        )
        jv = st.recursive(
            leaf,
            lambda ch: st.one_of(st.lists(ch, max_size=3), st.dictionaries(st.sampled_from(["a", "b", "k", "x"]), ch, max_size=3)),
            max_leaves=5,
        )
        jdict = st.dictionaries(st.sampled_from(["a", "b", "n", "x"]), jv, max_size=3)
        opt = lambda s: st.one_of(st.none(), s)  # noqa: E731
        hid = st.sampled_from(HIDS)
        run = st.sampled_from(RUNS)
        run_evt = st.sampled_from(["r0", "r0", "r1", "t0"])
        status = st.sampled_from(STATUSES)
        minutes = st.integers(0, 5000)

        upd = st.tuples(st.just("upd"), hid, st.sampled_from(WFS), status, opt(run), opt(text), opt(jv), st.lists(opt(minutes), min_size=4, max_size=4))
        flt = st.fixed_dictionaries(
            {},
            optional={
                "handler_id_in": st.lists(hid, max_size=3),
                "run_id_in": st.lists(run, max_size=3),
                "workflow_name_in": st.lists(st.sampled_from(WFS), max_size=2),
                "status_in": st.lists(status, max_size=2),
                "is_idle": st.booleans(),
            },
        )
        qry = st.tuples(st.just("qry"), flt)
        # deletes that usually select something (an empty filter deletes nothing by design)
        dflt = st.one_of(
            flt,
            st.fixed_dictionaries({"handler_id_in": st.lists(hid, min_size=1, max_size=3)}),
            st.fixed_dictionaries({"status_in": st.lists(status, min_size=1, max_size=2)}),
            st.fixed_dictionaries({"is_idle": st.booleans()}),
        )
        dele = st.tuples(st.just("del"), dflt)
        uhs = st.tuples(st.just("uhs"), run, opt(status), opt(jv), opt(text), st.one_of(st.just("unset"), st.none(), minutes))
        evt = st.tuples(st.just("evt"), run_evt, st.sampled_from(["Ev", "StopEvent", "WorkflowIdleEvent"]), jdict)
        qev = st.tuples(st.just("qev"), run_evt, opt(st.integers(-1, 4)), opt(st.integers(0, 3)))
        tick = st.tuples(st.just("tick"), run_evt, jdict)
        # a burst of ticks (a run that made some progress): with the small page sizes 1-12 ticks span up to six replay pages
        tks = st.tuples(st.just("tks"), run_evt, st.integers(1, 12), jdict)
        gtk = st.tuples(st.sampled_from(["gtk", "stk"]), run_evt)
        lctx = st.tuples(st.just("lctx"), run)

        ints = st.integers(-2, 9)
        typed_ok = {"count": ints, "label": text, "extra": text, "bag": st.dictionaries(st.sampled_from(["k", "j"]), jv, max_size=2)}

        def paths(r):
            pool = DICT_PATHS if r in DICT_RUNS else TYPED_PATHS
            return st.sampled_from(pool + pool[:-1] + pool[:-1])  # the empty path (always an error) stays rare

        def value_for(r, key):
            # mostly values the run's state model accepts; sometimes anything; rarely something unserialisable
            good = typed_ok.get(key, jv) if r in TYPED_RUNS else jv
            return st.integers(0, 29).flatmap(lambda i: st.just(UNSER) if i == 0 else (jv if i < 4 else good))

        get = run.flatmap(lambda r: st.tuples(st.just("get"), st.just(r), paths(r), st.booleans(), jv))
        sset = run.flatmap(lambda r: paths(r).flatmap(lambda pth: st.tuples(st.just("set"), st.just(r), st.just(pth), value_for(r, pth))))
        gst = st.tuples(st.just("gst"), run)
        sst = st.tuples(st.just("sst"), run, st.sampled_from(["same", "same", "same", "parent", "wrong", "unser"]), jdict, st.integers(-2, 9), text)
        clr = st.tuples(st.just("clr"), run)
        seed = st.one_of(
            st.none(),
            st.tuples(st.just("copy"), st.booleans()),
            st.tuples(st.just("mem"), jdict, st.integers(-2, 9), text),
        )
        ssn = st.tuples(st.just("ssn"), run, seed)

        def mutation(r):
            return st.sampled_from(DICT_KEYS if r in DICT_RUNS else TYPED_KEYS).flatmap(lambda key: st.tuples(st.just(key), value_for(r, key)))

        nested = st.one_of(upd, qry, dele, uhs, evt, qev, tick, tks, gtk, get, gst)
        # stream_ticks with a consumer that may stop after k ticks (and close the stream) and may run one other operation
        # after receiving the tick at a generated index (i.e. between two ticks, sometimes between two pages, of the stream)
        # (the large values only matter for histories longer than the repository's page size)
        stop = opt(st.one_of(st.integers(1, 7), st.integers(1, 7), st.sampled_from([100, 101, 150])))
        mid = opt(st.tuples(st.one_of(st.integers(0, 6), st.integers(0, 6), st.sampled_from([98, 99, 100])), nested))
        stkx = st.tuples(st.just("stk"), run_evt, stop, mid)
        edit = run.flatmap(
            lambda r: st.tuples(
                st.just("edit"),
                st.just(r),
                st.lists(mutation(r), max_size=3),
                st.lists(nested, max_size=2),
                st.sampled_from([False, False, False, True]),
            )
        )
        reopen = st.tuples(st.just("reopen"))
        op = st.one_of(upd, upd, upd, qry, dele, dele, uhs, evt, qev, tick, tks, tks, gtk, stkx, stkx, lctx, get, get, sset, sset, gst, gst, sst, sst, clr, clr, ssn, ssn, edit, edit, reopen, reopen)
        # Tick storyline (half of the cases): a burst on one run and, later in the sequence, a stream_ticks replay of the same run,
        # both inserted at generated positions among the other operations.  With the repository's own page size the burst is now and
        # then longer than one real page (boundaries and exact multiples included); that costs ~0.3 s per case, hence rare in quick.
        if tier == "quick":
            long_every, long_n = 10, st.one_of(st.sampled_from([100, 101]), st.integers(98, 130))
        else:
            long_every, long_n = 3, st.one_of(st.sampled_from([99, 100, 101, 199, 200, 201]), st.integers(95, 215))

        def with_page(page):
            n = st.integers(1, 12)
            if page is None:
                n = st.integers(0, long_every - 1).flatmap(lambda i: long_n if i == 0 else st.integers(1, 12))
            story = st.tuples(run_evt, n, jdict, stop, mid, st.integers(0, 12), st.integers(0, 12))
            return st.tuples(st.just(page), st.one_of(st.none(), story))

        page = st.sampled_from([None, None] + SMALL_PAGES + [3]).flatmap(with_page)

        # Rejected-write storyline (a third of the cases): a set_state() the store must refuse after it has read the row (a state
        # model of an incompatible type -> merge_state raises ValueError; a value the serializer cannot encode -> ValueError from
        # the save), then - with nothing or only reads in between - a valid set_state() / clear() through the same state store
        # (mostly) or through the state store of another run of the same workflow store, inserted as one block at a generated position.
        def rej_story(r):
            follow_run = st.sampled_from([r, r, r, _other(r)] + RUNS)
            follow = follow_run.flatmap(
                lambda r2: st.one_of(
                    st.tuples(st.just("sst"), st.just(r2), st.sampled_from(["same", "same", "parent"]), jdict, st.integers(-2, 9), text),
                    st.tuples(st.just("clr"), st.just(r2)),
                )
            )
            reads = st.one_of(st.just([]), st.just([]), st.lists(st.one_of(qry, qev, gtk, get, gst, lctx), min_size=1, max_size=2))
            rejected = st.tuples(st.just("sst"), st.just(r), st.sampled_from(["wrong", "unser"]), jdict, st.integers(-2, 9), text)
            return st.tuples(rejected, reads, follow, st.integers(0, 14))

        rej = st.one_of(st.none(), st.none(), run.flatmap(rej_story))

        def build(t):
            (pg, story), pre, ops, rej_ = t
            ops = list(ops)
            if story is not None:
                run_, n_, data_, stop_, mid_, a, b = story
                if mid_ is not None and mid_[1][0] in ("tick", "tks"):
                    mid_ = (mid_[0], (mid_[1][0], run_) + tuple(mid_[1][2:]))  # the consumer appends to the run it is replaying
                i = min(a, len(ops))
                ops.insert(i, ("tks", run_, n_, data_))
                ops.insert(i + 1 + min(b, len(ops) - i - 1), ("stk", run_, stop_, mid_))
            if rej_ is not None:
                rejected_, reads_, follow_, at = rej_
                i = min(at, len(ops))
                ops[i:i] = [rejected_, *reads_, follow_]
            return _jsonable({"page": pg, "ops": list(pre) + ops})

        # a short prefix of handler upserts makes later queries / deletes / status updates hit existing rows
        return st.tuples(page, st.lists(upd, max_size=2), st.lists(op, min_size=1, max_size=12), rej).map(build)

    # ------------------------------------------------------------------ applying one operation to one side

    def _dt(self, m):
        return None if m is None else T0 + timedelta(minutes=m, microseconds=m % 7)

    def _val(self, v):
        return object() if v == UNSER else v

    def _query(self, f):
        return self.HandlerQuery(**f)

    def _state_store(self, side: _Side, run: str):
        ss = side.ss.get(run)
        if ss is None:
            ss = side.store.create_state_store(run, None if run in DICT_RUNS else C21Ext)
            side.ss[run] = ss
        return ss

    def _typed(self, count, label):
        return C21Ext(count=count, label=label or "d", extra="e" + (label or ""))

    async def _apply(self, side: _Side, op: list) -> Any:
        k = op[0]
        s = side.store
        if k == "upd":
            _, hid, wf, status, run, error, result, ts = op
            h = self.PersistentHandler(
                handler_id=hid,
                workflow_name=wf,
                status=status,
                run_id=run,
                error=error,
                result=None if result is None else self.StopEvent(result=result),
                started_at=self._dt(ts[0]),
                updated_at=self._dt(ts[1]),
                completed_at=self._dt(ts[2]),
                idle_since=self._dt(ts[3]),
            )
            return await s.update(h)
        if k == "qry":
            hs = await s.query(self._query(op[1]))
            return sorted((h.model_dump(mode="json") for h in hs), key=lambda d: d["handler_id"])
        if k == "del":
            return await s.delete(self._query(op[1]))
        if k == "uhs":
            _, run, status, result, error, idle = op
            kw: dict[str, Any] = {}
            if idle != "unset":
                kw["idle_since"] = self._dt(idle)
            return await s.update_handler_status(
                run, status=status, result=None if result is None else self.StopEvent(result=result), error=error, **kw
            )
        if k == "evt":
            _, run, typ, value = op
            env = self.Envelope(value=value, qualified_name="genmod." + typ, type=typ, types=["Event"] if typ == "Ev" else [typ, "Event"])
            return await s.append_event(run, env)
        if k == "qev":
            evs = await s.query_events(op[1], after_sequence=op[2] if len(op) > 2 else None, limit=op[3] if len(op) > 3 else None)
            return [[e.run_id, e.sequence, isinstance(e.timestamp, datetime), e.event.model_dump(mode="json")] for e in evs]
        if k == "tick":
            res = await s.append_tick(op[1], op[2])
            side.ticks.setdefault(op[1], []).append(op[2])  # acknowledged
            return res
        if k == "tks":
            _, run, n, data = op
            for i in range(n):
                d = dict(data, i=i)
                await s.append_tick(run, d)
                side.ticks.setdefault(run, []).append(d)
            return None
        if k == "gtk":
            ts = await s.get_ticks(op[1])
            rows = [[t.run_id, t.sequence, isinstance(t.timestamp, datetime), t.tick_data] for t in ts]
            self._check_history(side, "get_ticks", op[1], rows, len(side.ticks.get(op[1], [])), None)
            return rows
        if k == "stk":
            run = op[1]
            stop = op[2] if len(op) > 2 else None
            mid = op[3] if len(op) > 3 else None
            n0 = len(side.ticks.get(run, []))
            out: list = []
            mid_res = None
            # the consumer: a plain `async for`, closed explicitly when it is abandoned early
            async with contextlib.aclosing(s.stream_ticks(run)) as stream:
                async for t in stream:
                    out.append([t.run_id, t.sequence, isinstance(t.timestamp, datetime), t.tick_data])
                    if mid is not None and len(out) - 1 == mid[0]:
                        mid_res = ["mid", await self._apply(side, mid[1])]
                    if stop is not None and len(out) >= stop:
                        break
            self._check_history(side, "stream_ticks", run, out, n0, stop)
            abandoned = stop is not None and len(out) >= stop
            P = self.page_now
            side.reads.append([n0, len(out), -(-len(out) // P) if abandoned else len(out) // P + 1, abandoned, mid_res is not None, len(side.ticks.get(run, [])) > n0])
            return out if mid is None else [out, mid_res]
        if k == "lctx":
            return s.get_legacy_ctx(op[1])
        if k == "ssn":
            _, run, seed = op
            st_type = None if run in DICT_RUNS else C21Ext
            ser = self.JsonSerializer()
            if seed is None:
                ss = s.create_state_store(run, st_type)
            elif seed[0] == "copy":
                src = _other(run) if seed[1] else run
                ss = s.create_state_store(run, st_type, {"store_type": "sqlite", "run_id": src}, ser)
            else:
                _, data, count, label = seed
                model = self.DictState(**data) if run in DICT_RUNS else self._typed(count, label)
                ss = s.create_state_store(run, st_type, self.payload(model, ser).model_dump(), ser)
            side.ss[run] = ss
            return None
        if k == "get":
            _, run, path, has_default, default = op
            ss = self._state_store(side, run)
            v = await (ss.get(path, default) if has_default else ss.get(path))
            return _dump(v)
        if k == "set":
            return await self._state_store(side, op[1]).set(op[2], self._val(op[3]))
        if k == "gst":
            return _dump(await self._state_store(side, op[1]).get_state())
        if k == "sst":
            _, run, kind, data, count, label = op
            if kind == "unser":
                # a state of the right type holding a value the JSON serializer cannot encode (top level or nested, by parity)
                bad = object()
                if run in DICT_RUNS:
                    model = self.DictState(**dict(data, **({"a": bad} if count % 2 else {"n": {"k": [bad]}})))
                else:
                    model = C21Ext(count=count, label=label or "d", bag={"k": bad} if count % 2 else {"j": [bad]})
            elif run in DICT_RUNS:
                model = C21Base(count=count) if kind == "wrong" else self.DictState(**data)
            else:
                model = {"same": self._typed(count, label), "parent": C21Base(count=count, label=label), "wrong": self.DictState(**data)}[kind]
            return await self._state_store(side, run).set_state(model)
        if k == "clr":
            return await self._state_store(side, op[1]).clear()
        if k == "edit":
            _, run, muts, nested, do_raise = op
            inner = []
            async with self._state_store(side, run).edit_state() as state:
                for key, val in muts:
                    if run in DICT_RUNS:
                        state[key] = self._val(val)
                    else:
                        setattr(state, key, self._val(val))
                for nop in nested:
                    inner.append(await self._apply(side, nop))
                if do_raise:
                    raise Boom()
            return inner
        if k == "reopen":
            if side.store is not None and getattr(side.store, "_persistent_conn", None) is not None:
                try:
                    side.store._persistent_conn.close()
                except Exception:  # noqa: BLE001
                    pass
            side.ss = {}
            side.store = self.Store(side.path, single_connection=side.single)
            return None
        raise AssertionError(f"unknown op {k}")

    def _check_history(self, side: _Side, api: str, run: str, rows: list, n0: int, stop: int | None) -> None:
        """Reference model of the tick log: `rows` must be a prefix of the acknowledged appends of `run` (sequences
        0..n-1, append order) holding at least the `n0` ticks that existed when the read started (cut at `stop`)."""
        log = side.ticks.get(run, [])
        expected = [[run, i, True, d] for i, d in enumerate(log)]
        lo = n0 if stop is None else min(n0, stop)
        hi = len(log) if stop is None else min(len(log), stop)
        if rows == expected[: len(rows)] and lo <= len(rows) <= hi:
            return
        diff = next((i for i, (a, b) in enumerate(zip(rows, expected)) if a != b), min(len(rows), len(expected)))
        side.model_viol.append(
            {
                "api": api,
                "store": "single_connection" if side.single else "per_call_connections",
                "acknowledged": n0,
                "returned": len(rows),
                "stop_after": stop,
                "first_difference_at": diff,
                "got": canon(rows[diff : diff + 1])[:120],
            }
        )

    async def _step(self, side: _Side, op: list):
        try:
            return ["ok", await self._apply(side, op)], None
        except Exception as e:  # noqa: BLE001
            return ["raise", type(e).__name__], e

    # ------------------------------------------------------------------ the case

    @staticmethod
    def _epilogue(ops, reopened: bool) -> list:
        """Read back what the case wrote: all handlers, the ticks / events of every run it appended to and,
        after the final reopen only, the state of every run it used a state store for.

        Before the reopen the sweep is read-only (it must not commit on the store's behalf: get_state()
        inserts a default row for a run without one).
        """
        flat = _flat(ops)
        out = [["qry", {}]]
        for r in RUNS:
            if any(op[0] in ("tick", "tks") and op[1] == r for op in flat):
                out.append(["gtk", r])
                out.append(["stk", r])  # replay the history the way a resumed run does
            if any(op[0] == "evt" and op[1] == r for op in flat):
                out.append(["qev", r])
            if reopened and any((op[0] in SS_OPS or op[0] == "ssn") and op[1] == r for op in flat):
                out.append(["gst", r])
        return out

    def run_case(self, case):
        page, ops = _split(case)
        saved = self.sqmod._TICK_PAGE_SIZE
        if page is not None:
            self.sqmod._TICK_PAGE_SIZE = page
        self.page_now = page if page is not None else self.real_page
        try:
            return self._run_case(page, ops)
        finally:
            self.sqmod._TICK_PAGE_SIZE = saved

    def _run_case(self, page, ops):
        r = CaseResult()
        tmp = tempfile.mkdtemp(prefix="c21-", dir=self.tmproot)
        sides = [_Side(os.path.join(tmp, "default.sqlite"), False), _Side(os.path.join(tmp, "single.sqlite"), True)]
        info: dict[str, Any] = {"both_raised": 0, "steps": 0, "deleted_rows": False, "at": None, "gen_reads": None, "done": False, "gen_raised": []}

        async def main():
            last_ss = None  # last state-store API call that touched the database since the last reopen
            since_reopen = False
            script = [("open", ["reopen"])] + [("gen", op) for op in ops]
            script += [("epilogue", op) for op in self._epilogue(ops, False)] + [("epilogue", ["reopen"])]
            script += [("epilogue_reopened", op) for op in self._epilogue(ops, True)]
            for idx, (phase, op) in enumerate(script):
                if phase == "epilogue" and info["gen_reads"] is None:
                    info["gen_reads"] = len(sides[0].reads)
                res = []
                for sd in sides:
                    info["at"] = (phase, op[0], "single_connection" if sd.single else "per_call_connections")
                    res.append(await self._step(sd, op))
                (a, _ea), (b, eb) = res
                info["steps"] += 1
                this_ss = _ss_name(op)
                bad = [dict(v, op=op[0], phase=phase, page=self.page_now) for sd in sides for v in sd.model_viol]
                if bad:
                    # the store contradicts its own acknowledged appends (reported before the differential: it names the faulty side)
                    r.v("tick_history_wrong", **bad[0])
                    return
                if canon(a) != canon(b):
                    closed = eb is not None and type(eb).__name__ == "ProgrammingError" and "closed database" in str(eb)
                    if closed:
                        r.v(
                            "shared_connection_closed",
                            closed_by=last_ss or this_ss or "?",
                            failing_op=op[0],
                            phase=phase,
                        )
                    elif a[0] == "raise" or b[0] == "raise":
                        r.v(
                            "exception_mismatch",
                            op=op[0],
                            phase=phase,
                            default=a[1] if a[0] == "raise" else "returned",
                            single=b[1] if b[0] == "raise" else "returned",
                            single_msg=str(eb)[:80] if eb is not None else None,
                        )
                    else:
                        r.v(
                            "result_mismatch",
                            op=op[0],
                            phase=phase,
                            after_reopen=since_reopen,
                            default=canon(a)[:160],
                            single=canon(b)[:160],
                        )
                    return  # the two histories have diverged; later steps would only repeat it
                if phase == "gen":
                    info["gen_raised"].append(a[0] == "raise")  # entry i belongs to ops[i]
                if a[0] == "raise":
                    info["both_raised"] += 1
                    if op[0] in TICK_OPS and not (len(op) > 3 and op[3] is not None):
                        # append_tick / get_ticks / stream_ticks with valid arguments are total in the reference model
                        r.v("tick_op_raised", op=op[0], phase=phase, exception=a[1], page=self.page_now)
                        return
                elif op[0] == "del" and a[1]:
                    info["deleted_rows"] = True
                if op[0] == "reopen":
                    last_ss = None
                    since_reopen = idx > 0
                elif this_ss is not None:
                    last_ss = this_ss
            info["done"] = True

        try:
            quiescent = _run_virtual_with_threads(main)
            if quiescent and not info["done"] and not r.violations:
                # nothing was left that could wake the operation up: it would have hung its caller forever
                phase, kind, which = info["at"]
                r.v("operation_blocked", op=kind, phase=phase, store=which, page=self.page_now)
        finally:
            for sd in sides:
                conn = getattr(sd.store, "_persistent_conn", None) if sd.store is not None else None
                if conn is not None:
                    try:
                        conn.close()
                    except Exception:  # noqa: BLE001
                        pass
                sd.store = None
                sd.ss = {}
            shutil.rmtree(tmp, ignore_errors=True)

        # non-triviality and generator-health classes (functions of the case only)
        first_ss = None
        for i, op in enumerate(ops):
            if _ss_name(op) is not None:
                first_ss = i
                break
        followed = first_ss is not None and (first_ss < len(ops) - 1 or (ops[first_ss][0] == "edit" and len(ops[first_ss][3]) > 0))
        r.nontrivial = bool(followed)
        kinds = {op[0] for op in ops}
        if followed:
            r.classes.append("state_op_then_other_op")
        if first_ss is not None and any(op[0] not in SS_OPS and op[0] not in ("ssn", "reopen") for op in ops[first_ss + 1 :]):
            r.classes.append("state_op_then_workflow_store_op")
        if "reopen" in kinds:
            r.classes.append("reopen")
        if any(op[0] == "edit" and op[3] for op in ops):
            r.classes.append("edit_with_nested_ops")
        if any(op[0] == "edit" and op[4] for op in ops):
            r.classes.append("edit_body_raises")
        if any(op[0] == "ssn" and op[2] and op[2][0] == "copy" for op in ops):
            r.classes.append("seed_copy")
        if any(op[0] == "ssn" and op[2] and op[2][0] == "mem" for op in ops):
            r.classes.append("seed_in_memory")
        if any(len(op) > 1 and op[1] in TYPED_RUNS and op[0] in SS_OPS for op in ops):
            r.classes.append("typed_state")
        if info["deleted_rows"]:
            r.classes.append("delete_removed_rows")
        if info["both_raised"]:
            r.classes.append("some_op_raised_in_both")
        # rejected state writes and what the sequence does right after one (observed: the write raised in both stores)
        raised = info["gen_raised"]
        rejected_at = [i for i, op in enumerate(ops) if i < len(raised) and raised[i] and op[0] in ("sst", "set", "edit")]
        if rejected_at:
            r.classes.append("rejected_state_write")
        for i in rejected_at:
            if ops[i][0] != "sst":
                continue
            r.classes.append("rejected_set_state_unserialisable_value" if ops[i][2] == "unser" else "rejected_set_state_incompatible_type")
            j = i + 1
            while j < len(ops) and (ops[j][0] in READ_OPS or (ops[j][0] == "stk" and (len(ops[j]) < 4 or ops[j][3] is None))):
                j += 1
            if j < len(ops) and ops[j][0] in ("sst", "clr"):
                r.classes.append("rejected_set_state_then_only_reads_then_set_state_or_clear")
                if j == i + 1:
                    r.classes.append("rejected_set_state_directly_followed_by_set_state_or_clear")
                r.classes.append("rejected_set_state_then_%s" % ("set_state" if ops[j][0] == "sst" else "clear"))
                if ops[j][1] != ops[i][1]:
                    r.classes.append("rejected_set_state_then_write_through_another_runs_state_store")
        r.classes = list(dict.fromkeys(r.classes))
        # tick replay: how often the new shapes (several pages per replay, abandoned streams, operations during a stream) are reached
        reads = sides[0].reads
        n_gen = len(reads) if info["gen_reads"] is None else info["gen_reads"]
        gen_reads, epi_reads = reads[:n_gen], reads[n_gen:]
        if page is not None:
            r.classes.append("small_tick_page")
        if any(op[0] == "tks" for op in _flat(ops)):
            r.classes.append("tick_burst")
        if any(rd[2] >= 2 for rd in gen_reads):
            r.classes.append("stream_ticks_multi_page_generated_op")
        if any(rd[2] >= 3 for rd in reads):
            r.classes.append("stream_ticks_three_or_more_pages")
        if any(rd[2] >= 2 for rd in epi_reads):
            r.classes.append("stream_ticks_multi_page_epilogue")
        if page is None and any(rd[2] >= 2 for rd in reads):
            r.classes.append("stream_ticks_multi_page_real_page_size")
        if any(not rd[3] and rd[1] > 0 and rd[1] % self.page_now == 0 for rd in reads):
            r.classes.append("history_exact_multiple_of_page")
        if any(rd[3] and rd[1] < rd[0] for rd in reads):
            r.classes.append("stream_abandoned_early")
        if any(rd[4] for rd in reads):
            r.classes.append("op_during_stream")
        if any(rd[5] for rd in reads):
            r.classes.append("tick_appended_to_run_during_its_stream")
        if any(rd[1] > rd[0] for rd in reads):
            r.classes.append("stream_saw_tick_appended_during_it")
        return r


def _split(case) -> tuple[int | None, list]:
    """(page size or None = the repository's, operations).  A bare operation list (replay files written before the
    page size became part of the case) means the repository's page size."""
    if isinstance(case, dict):
        return case.get("page"), case["ops"]
    return None, case


def _flat(ops) -> list:
    """All operations of a case including those nested in edit_state blocks and executed by stream consumers."""
    flat = []
    for op in ops:
        flat.append(op)
        if op[0] == "edit":
            flat.extend(_flat(op[3]))
        elif op[0] == "stk" and len(op) > 3 and op[3] is not None:
            flat.extend(_flat([op[3][1]]))
    return flat


class _ThreadTolerantVLoop(boot.VLoop):
    """boot.VLoop declares quiescence as soon as nothing is scheduled on the loop; a worker thread started by the code
    under test (asyncio.to_thread / run_in_executor) is invisible to it.  While such a job is outstanding this loop
    waits in real time for the thread's completion callback (it arrives through the loop's self-pipe)."""

    def __init__(self) -> None:
        super().__init__()
        self.jobs = 0
        sel = self._selector
        vselect = sel.select
        real_select = type(sel).select

        def select(timeout=None):
            try:
                return vselect(timeout)
            except boot.Quiescent:
                if self.jobs <= 0:
                    raise
                return real_select(sel, 5.0)

        sel.select = select  # type: ignore[method-assign]

    def run_in_executor(self, executor, func, *args):
        fut = super().run_in_executor(executor, func, *args)
        self.jobs += 1

        def done(_f) -> None:
            self.jobs -= 1

        fut.add_done_callback(done)
        return fut


def _run_virtual_with_threads(coro_fn) -> bool:
    """boot.run_virtual on a _ThreadTolerantVLoop with a private executor.  Returns `quiescent` (the loop would have
    blocked forever before the coroutine finished).  Nothing - tasks, worker threads - outlives the call."""
    boot.VClock.reset()
    boot.VClock.enabled = True
    loop = _ThreadTolerantVLoop()
    executor = ThreadPoolExecutor(max_workers=2, thread_name_prefix="c21-worker")
    loop.set_default_executor(executor)
    asyncio.set_event_loop(loop)
    quiescent = False
    error: BaseException | None = None
    main = loop.create_task(coro_fn())
    try:
        try:
            loop.run_until_complete(main)
        except boot.Quiescent:
            quiescent = True
        except BaseException as e:  # noqa: BLE001
            error = e
    finally:
        try:
            for _ in range(8):
                pending = [t for t in asyncio.all_tasks(loop) if not t.done()]
                if not pending:
                    break
                for t in pending:
                    t.cancel()
                try:
                    loop.run_until_complete(asyncio.gather(*pending, return_exceptions=True))
                except BaseException:  # noqa: BLE001
                    pass
            try:
                loop.run_until_complete(loop.shutdown_asyncgens())
            except BaseException:  # noqa: BLE001
                pass
        finally:
            executor.shutdown(wait=True)
            asyncio.set_event_loop(None)
            loop.close()
            boot.VClock.enabled = False
    if error is not None:
        raise error
    return quiescent


def _ss_name(op) -> str | None:
    if op[0] in SS_OPS:
        return SS_NAME[op[0]]
    if op[0] == "ssn" and op[2] is not None:
        if op[2][0] == "copy":
            return "seed_copy" if op[2][1] else None  # a copy from the run itself does not touch the database
        return "seed_in_memory"
    return None


def _dump(v: Any) -> Any:
    if isinstance(v, BaseModel):
        return [type(v).__name__, v.model_dump(mode="json")]
    return v


def _jsonable(x: Any) -> Any:
    if isinstance(x, (list, tuple)):
        return [_jsonable(i) for i in x]
    if isinstance(x, dict):
        return {k: _jsonable(v) for k, v in x.items()}
    return x


PROP = C21
