"""C21 — the single-connection SQLite store behaves like the per-call-connection store (differential operation sequences)."""

from __future__ import annotations

import os
import shutil
import tempfile
from datetime import datetime, timedelta, timezone
from typing import Any

from hypothesis import strategies as st
from pydantic import BaseModel

from .. import boot
from ..runner import CaseResult, Prop, canon


# Typed state models (module level so JsonSerializer can re-import them by qualified name).
class C21Base(BaseModel):
    count: int = 0
    label: str = "d"


class C21Ext(C21Base):
    extra: str = "x"
    bag: dict = {}


class Boom(Exception):
    """Raised by generated user code inside an edit_state() block."""


HIDS = ["h0", "h1", "h2", "h3"]
WFS = ["w0", "w1"]
DICT_RUNS = ["r0", "r1"]
TYPED_RUNS = ["t0", "t1"]
RUNS = DICT_RUNS + TYPED_RUNS
STATUSES = ["running", "completed", "failed", "cancelled"]
DICT_PATHS = ["a", "b", "a.x", "a.y", "b.0", "n.m.k", "count", ""]
TYPED_PATHS = ["count", "label", "extra", "bag.k", "bag.k.j", "nope", "count.x", ""]
DICT_KEYS = ["a", "b", "n"]
TYPED_KEYS = ["count", "label", "extra", "bag"]
UNSER = "@@unserialisable"
T0 = datetime(2024, 1, 1, tzinfo=timezone.utc)

# state-store operations in the sense of the non-triviality rule (they touch the database)
SS_OPS = {"get", "set", "gst", "sst", "edit", "clr"}
SS_NAME = {"get": "get", "set": "set", "gst": "get_state", "sst": "set_state", "edit": "edit_state", "clr": "clear"}


def _other(run: str) -> str:
    pool = DICT_RUNS if run in DICT_RUNS else TYPED_RUNS
    return pool[1 - pool.index(run)]


class _Side:
    """One store under test plus the state-store objects created from it."""

    def __init__(self, path: str, single: bool) -> None:
        self.path = path
        self.single = single
        self.store: Any = None
        self.ss: dict[str, Any] = {}


class C21(Prop):
    id = "C21"
    rule = (
        "case = a generated sequence of 1-14 operations over SqliteWorkflowStore: handler update (upsert) / query / delete / "
        "update_handler_status, append_event / query_events, append_tick / get_ticks / stream_ticks, get_legacy_ctx, and state-store "
        "operations on stores obtained from create_state_store(run_id[, state_type, serialized_state, serializer]) for two DictState runs "
        "and two typed-model runs: get / set / get_state / set_state (same type, parent type, wrong type) / clear / edit_state (generated "
        "mutations, up to two nested store operations inside the block, optionally user code that raises), creation seeded from an "
        "in-memory payload or from another run's sqlite reference, and 'reopen' (end of process: the persistent connection is closed, a "
        "new store object is opened on the same file). The sequence is applied step by step to two stores on separate temp files, one "
        "opened with single_connection=True exactly as AgentCore does, one with the default per-call connections; after the generated "
        "operations a read-only epilogue reads back all handlers and the events / ticks of every run the case appended to (the store must still "
        "work after use), then both stores are reopened and the same is read back again together with the state of every run the case used "
        "a state store for (everything written must have been committed). Oracle: differential - at every step both stores return equal normalised results (handlers as "
        "model_dump(mode='json') sorted by handler_id; events/ticks without the SQLite CURRENT_TIMESTAMP, which must parse to a datetime; "
        "states as type name + model_dump) or raise the same exception class. Non-trivial = at least one state-store operation that "
        "touches the database (get/set/get_state/set_state/edit_state/clear or a seeded creation) is followed by another generated "
        "operation (after it in the sequence, or nested inside its edit_state block)."
    )
    assumptions = [
        "both stores live on plain temp-file paths (no URI-special characters); the single-connection store uses sqlite's unix-none VFS as in production",
        "operations are applied sequentially from one task, as the property states sequences (no concurrent writers)",
        "datetime.now() inside abstract_workflow_store (update_handler_status) reads the harness's virtual clock, so both stores stamp the same instant; "
        "SQLite CURRENT_TIMESTAMP columns are real wall-clock values and are dropped after a type check",
        "'reopen' emulates a process restart by closing the persistent connection (uncommitted work is rolled back, as at process exit) and constructing a new store on the same file",
        "query() results are compared as sets keyed by handler_id (SQL without ORDER BY promises no order)",
    ]
    budgets = {"quick": 600, "thorough": 800}
    wall = {"quick": 45.0, "thorough": 300.0}

    # ------------------------------------------------------------------ setup

    def setup(self):
        boot.seed_llama_agents()
        from llama_agents.client.protocol.serializable_events import EventEnvelopeWithMetadata
        from llama_agents.server._store import abstract_workflow_store as aws
        from llama_agents.server._store.sqlite.sqlite_workflow_store import SqliteWorkflowStore
        from workflows.context.serializers import JsonSerializer
        from workflows.context.state_store import DictState, create_in_memory_payload
        from workflows.events import StopEvent

        boot.patch_datetime(aws)
        self.Store = SqliteWorkflowStore
        self.HandlerQuery = aws.HandlerQuery
        self.PersistentHandler = aws.PersistentHandler
        self.Envelope = EventEnvelopeWithMetadata
        self.JsonSerializer = JsonSerializer
        self.DictState = DictState
        self.payload = create_in_memory_payload
        self.StopEvent = StopEvent
        self.tmproot = "/dev/shm" if os.path.isdir("/dev/shm") and os.access("/dev/shm", os.W_OK) else None

    # ------------------------------------------------------------------ generator

    def strategy(self, tier):
        text = st.sampled_from(["", "x", "err: boom", "é\"'", "a b"])
        leaf = st.one_of(
            st.none(),
            st.booleans(),
            st.integers(-3, 3),
            st.sampled_from([2**40, 0.5, -1.25, 1e10]),
            text,
        )
        jv = st.recursive(
            leaf,
            lambda ch: st.one_of(st.lists(ch, max_size=3), st.dictionaries(st.sampled_from(["a", "b", "k", "x"]), ch, max_size=3)),
            max_leaves=5,
        )
        jdict = st.dictionaries(st.sampled_from(["a", "b", "n", "x"]), jv, max_size=3)
        opt = lambda s: st.one_of(st.none(), s)  # noqa: E731
        hid = st.sampled_from(HIDS)
        run = st.sampled_from(RUNS)
        run_evt = st.sampled_from(["r0", "r0", "r1", "t0"])
        status = st.sampled_from(STATUSES)
        minutes = st.integers(0, 5000)

        upd = st.tuples(st.just("upd"), hid, st.sampled_from(WFS), status, opt(run), opt(text), opt(jv), st.lists(opt(minutes), min_size=4, max_size=4))
        flt = st.fixed_dictionaries(
            {},
            optional={
                "handler_id_in": st.lists(hid, max_size=3),
                "run_id_in": st.lists(run, max_size=3),
                "workflow_name_in": st.lists(st.sampled_from(WFS), max_size=2),
                "status_in": st.lists(status, max_size=2),
                "is_idle": st.booleans(),
            },
        )
        qry = st.tuples(st.just("qry"), flt)
        # deletes that usually select something (an empty filter deletes nothing by design)
        dflt = st.one_of(
            flt,
            st.fixed_dictionaries({"handler_id_in": st.lists(hid, min_size=1, max_size=3)}),
            st.fixed_dictionaries({"status_in": st.lists(status, min_size=1, max_size=2)}),
            st.fixed_dictionaries({"is_idle": st.booleans()}),
        )
        dele = st.tuples(st.just("del"), dflt)
        uhs = st.tuples(st.just("uhs"), run, opt(status), opt(jv), opt(text), st.one_of(st.just("unset"), st.none(), minutes))
        evt = st.tuples(st.just("evt"), run_evt, st.sampled_from(["Ev", "StopEvent", "WorkflowIdleEvent"]), jdict)
        qev = st.tuples(st.just("qev"), run_evt, opt(st.integers(-1, 4)), opt(st.integers(0, 3)))
        tick = st.tuples(st.just("tick"), run_evt, jdict)
        gtk = st.tuples(st.sampled_from(["gtk", "stk"]), run_evt)
        lctx = st.tuples(st.just("lctx"), run)

        ints = st.integers(-2, 9)
        typed_ok = {"count": ints, "label": text, "extra": text, "bag": st.dictionaries(st.sampled_from(["k", "j"]), jv, max_size=2)}

        def paths(r):
            pool = DICT_PATHS if r in DICT_RUNS else TYPED_PATHS
            return st.sampled_from(pool + pool[:-1] + pool[:-1])  # the empty path (always an error) stays rare

        def value_for(r, key):
            # mostly values the run's state model accepts; sometimes anything; rarely something unserialisable
            good = typed_ok.get(key, jv) if r in TYPED_RUNS else jv
            return st.integers(0, 29).flatmap(lambda i: st.just(UNSER) if i == 0 else (jv if i < 4 else good))

        get = run.flatmap(lambda r: st.tuples(st.just("get"), st.just(r), paths(r), st.booleans(), jv))
        sset = run.flatmap(lambda r: paths(r).flatmap(lambda pth: st.tuples(st.just("set"), st.just(r), st.just(pth), value_for(r, pth))))
        gst = st.tuples(st.just("gst"), run)
        sst = st.tuples(st.just("sst"), run, st.sampled_from(["same", "same", "same", "parent", "wrong"]), jdict, st.integers(-2, 9), text)
        clr = st.tuples(st.just("clr"), run)
        seed = st.one_of(
            st.none(),
            st.tuples(st.just("copy"), st.booleans()),
            st.tuples(st.just("mem"), jdict, st.integers(-2, 9), text),
        )
        ssn = st.tuples(st.just("ssn"), run, seed)

        def mutation(r):
            return st.sampled_from(DICT_KEYS if r in DICT_RUNS else TYPED_KEYS).flatmap(lambda key: st.tuples(st.just(key), value_for(r, key)))

        nested = st.one_of(upd, qry, dele, uhs, evt, qev, tick, gtk, get, gst)
        edit = run.flatmap(
            lambda r: st.tuples(
                st.just("edit"),
                st.just(r),
                st.lists(mutation(r), max_size=3),
                st.lists(nested, max_size=2),
                st.sampled_from([False, False, False, True]),
            )
        )
        reopen = st.tuples(st.just("reopen"))
        op = st.one_of(upd, upd, upd, qry, dele, dele, uhs, evt, qev, tick, gtk, lctx, get, get, sset, sset, gst, gst, sst, sst, clr, clr, ssn, ssn, edit, edit, reopen, reopen)
        # a short prefix of handler upserts makes later queries / deletes / status updates hit existing rows
        return st.tuples(st.lists(upd, max_size=2), st.lists(op, min_size=1, max_size=12)).map(lambda t: _jsonable(list(t[0]) + list(t[1])))

    # ------------------------------------------------------------------ applying one operation to one side

    def _dt(self, m):
        return None if m is None else T0 + timedelta(minutes=m, microseconds=m % 7)

    def _val(self, v):
        return object() if v == UNSER else v

    def _query(self, f):
        return self.HandlerQuery(**f)

    def _state_store(self, side: _Side, run: str):
        ss = side.ss.get(run)
        if ss is None:
            ss = side.store.create_state_store(run, None if run in DICT_RUNS else C21Ext)
            side.ss[run] = ss
        return ss

    def _typed(self, count, label):
        return C21Ext(count=count, label=label or "d", extra="e" + (label or ""))

    async def _apply(self, side: _Side, op: list) -> Any:
        k = op[0]
        s = side.store
        if k == "upd":
            _, hid, wf, status, run, error, result, ts = op
            h = self.PersistentHandler(
                handler_id=hid,
                workflow_name=wf,
                status=status,
                run_id=run,
                error=error,
                result=None if result is None else self.StopEvent(result=result),
                started_at=self._dt(ts[0]),
                updated_at=self._dt(ts[1]),
                completed_at=self._dt(ts[2]),
                idle_since=self._dt(ts[3]),
            )
            return await s.update(h)
        if k == "qry":
            hs = await s.query(self._query(op[1]))
            return sorted((h.model_dump(mode="json") for h in hs), key=lambda d: d["handler_id"])
        if k == "del":
            return await s.delete(self._query(op[1]))
        if k == "uhs":
            _, run, status, result, error, idle = op
            kw: dict[str, Any] = {}
            if idle != "unset":
                kw["idle_since"] = self._dt(idle)
            return await s.update_handler_status(
                run, status=status, result=None if result is None else self.StopEvent(result=result), error=error, **kw
            )
        if k == "evt":
            _, run, typ, value = op
            env = self.Envelope(value=value, qualified_name="genmod." + typ, type=typ, types=["Event"] if typ == "Ev" else [typ, "Event"])
            return await s.append_event(run, env)
        if k == "qev":
            evs = await s.query_events(op[1], after_sequence=op[2] if len(op) > 2 else None, limit=op[3] if len(op) > 3 else None)
            return [[e.run_id, e.sequence, isinstance(e.timestamp, datetime), e.event.model_dump(mode="json")] for e in evs]
        if k == "tick":
            return await s.append_tick(op[1], op[2])
        if k == "gtk":
            ts = await s.get_ticks(op[1])
            return [[t.run_id, t.sequence, isinstance(t.timestamp, datetime), t.tick_data] for t in ts]
        if k == "stk":
            out = []
            async for t in s.stream_ticks(op[1]):
                out.append([t.run_id, t.sequence, isinstance(t.timestamp, datetime), t.tick_data])
            return out
        if k == "lctx":
            return s.get_legacy_ctx(op[1])
        if k == "ssn":
            _, run, seed = op
            st_type = None if run in DICT_RUNS else C21Ext
            ser = self.JsonSerializer()
            if seed is None:
                ss = s.create_state_store(run, st_type)
            elif seed[0] == "copy":
                src = _other(run) if seed[1] else run
                ss = s.create_state_store(run, st_type, {"store_type": "sqlite", "run_id": src}, ser)
            else:
                _, data, count, label = seed
                model = self.DictState(**data) if run in DICT_RUNS else self._typed(count, label)
                ss = s.create_state_store(run, st_type, self.payload(model, ser).model_dump(), ser)
            side.ss[run] = ss
            return None
        if k == "get":
            _, run, path, has_default, default = op
            ss = self._state_store(side, run)
            v = await (ss.get(path, default) if has_default else ss.get(path))
            return _dump(v)
        if k == "set":
            return await self._state_store(side, op[1]).set(op[2], self._val(op[3]))
        if k == "gst":
            return _dump(await self._state_store(side, op[1]).get_state())
        if k == "sst":
            _, run, kind, data, count, label = op
            if run in DICT_RUNS:
                model = C21Base(count=count) if kind == "wrong" else self.DictState(**data)
            else:
                model = {"same": self._typed(count, label), "parent": C21Base(count=count, label=label), "wrong": self.DictState(**data)}[kind]
            return await self._state_store(side, run).set_state(model)
        if k == "clr":
            return await self._state_store(side, op[1]).clear()
        if k == "edit":
            _, run, muts, nested, do_raise = op
            inner = []
            async with self._state_store(side, run).edit_state() as state:
                for key, val in muts:
                    if run in DICT_RUNS:
                        state[key] = self._val(val)
                    else:
                        setattr(state, key, self._val(val))
                for nop in nested:
                    inner.append(await self._apply(side, nop))
                if do_raise:
                    raise Boom()
            return inner
        if k == "reopen":
            if side.store is not None and getattr(side.store, "_persistent_conn", None) is not None:
                try:
                    side.store._persistent_conn.close()
                except Exception:  # noqa: BLE001
                    pass
            side.ss = {}
            side.store = self.Store(side.path, single_connection=side.single)
            return None
        raise AssertionError(f"unknown op {k}")

    async def _step(self, side: _Side, op: list):
        try:
            return ["ok", await self._apply(side, op)], None
        except Exception as e:  # noqa: BLE001
            return ["raise", type(e).__name__], e

    # ------------------------------------------------------------------ the case

    @staticmethod
    def _epilogue(ops, reopened: bool) -> list:
        """Read back what the case wrote: all handlers, the ticks / events of every run it appended to and,
        after the final reopen only, the state of every run it used a state store for.

        Before the reopen the sweep is read-only (it must not commit on the store's behalf: get_state()
        inserts a default row for a run without one).
        """
        flat = []
        for op in ops:
            flat.append(op)
            if op[0] == "edit":
                flat.extend(op[3])
        out = [["qry", {}]]
        for r in RUNS:
            if any(op[0] == "tick" and op[1] == r for op in flat):
                out.append(["gtk", r])
            if any(op[0] == "evt" and op[1] == r for op in flat):
                out.append(["qev", r])
            if reopened and any((op[0] in SS_OPS or op[0] == "ssn") and op[1] == r for op in flat):
                out.append(["gst", r])
        return out

    def run_case(self, case):
        r = CaseResult()
        ops = case
        tmp = tempfile.mkdtemp(prefix="c21-", dir=self.tmproot)
        sides = [_Side(os.path.join(tmp, "default.sqlite"), False), _Side(os.path.join(tmp, "single.sqlite"), True)]
        info = {"both_raised": 0, "steps": 0, "deleted_rows": False}

        async def main():
            last_ss = None  # last state-store API call that touched the database since the last reopen
            since_reopen = False
            script = [("open", ["reopen"])] + [("gen", op) for op in ops]
            script += [("epilogue", op) for op in self._epilogue(ops, False)] + [("epilogue", ["reopen"])]
            script += [("epilogue_reopened", op) for op in self._epilogue(ops, True)]
            for idx, (phase, op) in enumerate(script):
                (a, _ea), (b, eb) = [await self._step(sd, op) for sd in sides]
                info["steps"] += 1
                this_ss = _ss_name(op)
                if canon(a) != canon(b):
                    closed = eb is not None and type(eb).__name__ == "ProgrammingError" and "closed database" in str(eb)
                    if closed:
                        r.v(
                            "shared_connection_closed",
                            closed_by=last_ss or this_ss or "?",
                            failing_op=op[0],
                            phase=phase,
                        )
                    elif a[0] == "raise" or b[0] == "raise":
                        r.v(
                            "exception_mismatch",
                            op=op[0],
                            phase=phase,
                            default=a[1] if a[0] == "raise" else "returned",
                            single=b[1] if b[0] == "raise" else "returned",
                            single_msg=str(eb)[:80] if eb is not None else None,
                        )
                    else:
                        r.v(
                            "result_mismatch",
                            op=op[0],
                            phase=phase,
                            after_reopen=since_reopen,
                            default=canon(a)[:160],
                            single=canon(b)[:160],
                        )
                    return  # the two histories have diverged; later steps would only repeat it
                if a[0] == "raise":
                    info["both_raised"] += 1
                elif op[0] == "del" and a[1]:
                    info["deleted_rows"] = True
                if op[0] == "reopen":
                    last_ss = None
                    since_reopen = idx > 0
                elif this_ss is not None:
                    last_ss = this_ss

        try:
            boot.run_virtual(main)
        finally:
            for sd in sides:
                conn = getattr(sd.store, "_persistent_conn", None) if sd.store is not None else None
                if conn is not None:
                    try:
                        conn.close()
                    except Exception:  # noqa: BLE001
                        pass
                sd.store = None
                sd.ss = {}
            shutil.rmtree(tmp, ignore_errors=True)

        # non-triviality and generator-health classes (functions of the case only)
        first_ss = None
        for i, op in enumerate(ops):
            if _ss_name(op) is not None:
                first_ss = i
                break
        followed = first_ss is not None and (first_ss < len(ops) - 1 or (ops[first_ss][0] == "edit" and len(ops[first_ss][3]) > 0))
        r.nontrivial = bool(followed)
        kinds = {op[0] for op in ops}
        if followed:
            r.classes.append("state_op_then_other_op")
        if first_ss is not None and any(op[0] not in SS_OPS and op[0] not in ("ssn", "reopen") for op in ops[first_ss + 1 :]):
            r.classes.append("state_op_then_workflow_store_op")
        if "reopen" in kinds:
            r.classes.append("reopen")
        if any(op[0] == "edit" and op[3] for op in ops):
            r.classes.append("edit_with_nested_ops")
        if any(op[0] == "edit" and op[4] for op in ops):
            r.classes.append("edit_body_raises")
        if any(op[0] == "ssn" and op[2] and op[2][0] == "copy" for op in ops):
            r.classes.append("seed_copy")
        if any(op[0] == "ssn" and op[2] and op[2][0] == "mem" for op in ops):
            r.classes.append("seed_in_memory")
        if any(len(op) > 1 and op[1] in TYPED_RUNS and op[0] in SS_OPS for op in ops):
            r.classes.append("typed_state")
        if info["deleted_rows"]:
            r.classes.append("delete_removed_rows")
        if info["both_raised"]:
            r.classes.append("some_op_raised_in_both")
        return r


def _ss_name(op) -> str | None:
    if op[0] in SS_OPS:
        return SS_NAME[op[0]]
    if op[0] == "ssn" and op[2] is not None:
        if op[2][0] == "copy":
            return "seed_copy" if op[2][1] else None  # a copy from the run itself does not touch the database
        return "seed_in_memory"
    return None


def _dump(v: Any) -> Any:
    if isinstance(v, BaseModel):
        return [type(v).__name__, v.model_dump(mode="json")]
    return v


def _jsonable(x: Any) -> Any:
    if isinstance(x, (list, tuple)):
        return [_jsonable(i) for i in x]
    if isinstance(x, dict):
        return {k: _jsonable(v) for k, v in x.items()}
    return x


PROP = C21
