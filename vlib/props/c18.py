"""C18 — events and ticks survive serialization unchanged (round trips, pure inputs)."""

from __future__ import annotations

import json
from datetime import datetime, timezone

from hypothesis import strategies as st

from ..runner import CaseResult, Prop

_key = st.text(alphabet=st.sampled_from(list("abcxyz_AB09é ")), min_size=1, max_size=6).filter(
    lambda k: k not in ("result", "_data", "_result") and not k.startswith("_") and not k.startswith("model_")
)
_json = st.recursive(
    st.one_of(st.none(), st.booleans(), st.integers(-(2**40), 2**40), st.floats(allow_nan=False, allow_infinity=False, width=32), st.text(max_size=8)),
    lambda ch: st.one_of(st.lists(ch, max_size=3), st.dictionaries(st.text(max_size=4), ch, max_size=3)),
    max_leaves=8,
)
_dyn = st.dictionaries(_key, _json, max_size=4)


def _inner(depth=2):
    base = st.fixed_dictionaries({"x": st.integers(-5, 5), "tags": st.lists(st.text(max_size=3), max_size=2), "deep": st.none()})
    if depth == 0:
        return base
    return st.fixed_dictionaries({"x": st.integers(-5, 5), "tags": st.lists(st.text(max_size=3), max_size=2), "deep": st.one_of(st.none(), _inner(depth - 1))})


_typed = st.fixed_dictionaries(
    {
        "i": st.integers(-(2**40), 2**40),
        "s": st.text(max_size=10),
        "f": st.floats(allow_nan=False, allow_infinity=False),
        "b": st.booleans(),
        "opt": st.one_of(st.none(), st.integers(0, 9)),
        "items": st.lists(st.text(max_size=3), max_size=3),
        "mapping": st.dictionaries(st.text(max_size=3), st.integers(0, 9), max_size=3),
        "nested": _inner(),
        "when": st.integers(0, 2_000_000_000),
        "color": st.sampled_from(["red", "green"]),
    }
)

_event = st.one_of(
    st.fixed_dictionaries({"cls": st.just("TypedEv"), "typed": _typed, "dyn": st.just({})}),
    st.fixed_dictionaries({"cls": st.just("TypedEv"), "typed": _typed, "dyn": st.just({}),
                           "in_place": st.lists(st.sampled_from(["items", "mapping", "nested", "s", "opt"]), min_size=1, max_size=3, unique=True)}),
    st.fixed_dictionaries({"cls": st.sampled_from(["PlainEv", "Event", "StartEvent"]), "typed": st.just({}), "dyn": _dyn}),
    st.fixed_dictionaries({"cls": st.just("MyStart"), "typed": st.fixed_dictionaries({"topic": st.text(max_size=6)}), "dyn": _dyn}),
    st.fixed_dictionaries({"cls": st.just("StopEvent"), "typed": st.just({}), "dyn": _dyn, "result": _json}),
    st.fixed_dictionaries({"cls": st.just("TypedStop"), "typed": st.fixed_dictionaries({"code": st.integers(0, 99), "note": st.text(max_size=5)}), "dyn": _dyn, "result": _json}),
    st.fixed_dictionaries({"cls": st.just("AskEv"), "typed": st.fixed_dictionaries({"prompt": st.text(max_size=6)}), "dyn": _dyn}),
    st.fixed_dictionaries({"cls": st.just("AnswerEv"), "typed": st.fixed_dictionaries({"answer": st.text(max_size=6)}), "dyn": _dyn}),
    # typed fields with aliases (camelCase on the wire)
    st.fixed_dictionaries({"cls": st.just("AliasEv"), "typed": st.fixed_dictionaries({"step_label": st.text(max_size=6), "percent_done": st.integers(0, 100)}), "dyn": _dyn}),
    st.fixed_dictionaries({"cls": st.just("AliasStop"), "typed": st.fixed_dictionaries({"total_count": st.integers(0, 99)}), "dyn": _dyn, "result": _json}),
    st.fixed_dictionaries({"cls": st.just("NestedAliasEv"), "typed": st.fixed_dictionaries({"inner": st.fixed_dictionaries({"item_count": st.integers(0, 9)})}), "dyn": st.just({})}),
    st.fixed_dictionaries({"cls": st.just("StrictNestedAliasEv"), "typed": st.fixed_dictionaries({"inner": st.fixed_dictionaries({"item_count": st.integers(0, 9)})}), "dyn": st.just({})}),
)
_exc = st.fixed_dictionaries({"type": st.sampled_from(["ValueError", "RuntimeError", "KeyError", "TimeoutError", "HarnessError", "Exception", "ZeroDivisionError", "DecoratedError", "NoSectionError"]), "msg": st.text(max_size=12)})


class C18(Prop):
    id = "C18"
    rule = (
        "cases = event instances from a pool of classes (typed fields incl. nested/recursive models, lists, dicts, optionals, datetimes, "
        "enums; Start/Stop/InputRequired/HumanResponse subclasses; StopEvent base and subclass with results) with generated JSON dynamic "
        "fields and results; failure events and ticks carrying exceptions of builtin and harness types; every tick kind wrapping those "
        "events. Each goes through JsonSerializer, the client envelopes (qualified name and registry paths, via JSON text) and the "
        "persisted tick format (WorkflowTickAdapter via JSON text). Non-trivial = nested model, non-empty dynamic fields, or non-None result."
    )
    assumptions = [
        "dynamic-field names are valid for the API: not colliding with declared/private names ('result', '_data', leading underscore, 'model_' prefix)",
        "payload values are JSON values (finite floats); exceptions are classes constructible from a single message (the documented (type, message) format)",
        "AddWaiter.requirements are documented as not serialised and are excluded from the comparison",
    ]
    budgets = {"quick": 2500, "thorough": 25000}
    wall = {"quick": 70.0, "thorough": 900.0}

    def setup(self):
        from .. import serevents
        from workflows.context.serializers import JsonSerializer
        from workflows.runtime.types import results, ticks
        from .. import boot

        boot.seed_llama_agents()
        from llama_agents.client.protocol import serializable_events as se
        import workflows.events as wev

        self.se, self.ser, self.res, self.ticks, self.pool, self.wev = se, JsonSerializer(), results, ticks, serevents, wev

    def strategy(self, tier):
        tick = st.one_of(
            st.fixed_dictionaries({"t": st.just("add"), "ev": _event, "step": st.one_of(st.none(), st.just("s1")), "attempts": st.one_of(st.none(), st.integers(0, 5)),
                                   "exc": st.one_of(st.none(), _exc), "rc": st.dictionaries(st.sampled_from(["h1", "h2"]), st.integers(0, 3), max_size=2)}),
            st.fixed_dictionaries({"t": st.just("publish"), "ev": _event}),
            st.fixed_dictionaries({"t": st.just("step_result"), "ev": _event, "results": st.lists(st.one_of(
                st.fixed_dictionaries({"r": st.just("result"), "ev": st.one_of(st.none(), _event)}),
                st.fixed_dictionaries({"r": st.just("failed"), "exc": _exc}),
                st.fixed_dictionaries({"r": st.just("add_collected"), "ev": _event}),
                st.fixed_dictionaries({"r": st.just("delete_collected")}),
                st.fixed_dictionaries({"r": st.just("add_waiter"), "ev": st.one_of(st.none(), _event), "timeout": st.one_of(st.none(), st.floats(0, 100))}),
                st.fixed_dictionaries({"r": st.just("delete_waiter")}),
            ), max_size=3)}),
            st.fixed_dictionaries({"t": st.sampled_from(["cancel", "idle_check", "idle_release", "timeout", "waiter_timeout"])}),
        )
        return st.one_of(
            st.fixed_dictionaries({"k": st.just("event"), "ev": _event}),
            st.fixed_dictionaries({"k": st.just("event"), "ev": _event}),
            st.fixed_dictionaries({"k": st.just("failure"), "exc": _exc, "inner": _event, "which": st.sampled_from(["workflow", "step"])}),
            st.fixed_dictionaries({"k": st.just("tick"), "tick": tick}),
        )

    # ---- builders
    def mk_event(self, spec):
        cls = self.pool.EVENTS[spec["cls"]]
        typed = dict(spec["typed"])
        if spec["cls"] == "TypedEv":
            typed["nested"] = self.pool.Inner.model_validate(typed["nested"])
            typed["when"] = datetime.fromtimestamp(typed["when"], tz=timezone.utc)
            typed["color"] = self.pool.Color(typed["color"])
        if spec["cls"] == "NestedAliasEv":
            typed["inner"] = self.pool.AliasInner(item_count=typed["inner"]["item_count"])
        if spec["cls"] == "StrictNestedAliasEv":
            typed["inner"] = self.pool.StrictAliasInner(itemCount=typed["inner"]["item_count"])
        later = {k: typed.pop(k) for k in spec.get("in_place", []) if k in typed}
        kw = {**typed, **spec["dyn"]}
        if "result" in spec:
            ev = cls(result=spec["result"], **kw)
        else:
            ev = cls(**kw)
        # fields left at their defaults by the constructor and filled in afterwards, as step code does
        for k, v in later.items():
            if k == "items":
                ev.items.extend(v)
            elif k == "mapping":
                ev.mapping.update(v)
            elif k == "nested":
                ev.nested.x, ev.nested.tags, ev.nested.deep = v.x, v.tags, v.deep
            else:
                setattr(ev, k, v)
        return ev

    def mk_exc(self, spec):
        return self.pool.EXCS[spec["type"]](spec["msg"])

    def same_event(self, a, b, r: CaseResult, where: str):
        if type(a) is not type(b):
            r.v("event_class_changed", where=where, was=type(a).__name__, now=type(b).__name__)
            return
        da = {k: getattr(a, k) for k in type(a).model_fields}
        db = {k: getattr(b, k) for k in type(b).model_fields}
        if da != db:
            bad = [k for k in da if da[k] != db.get(k)]
            r.v("typed_fields_changed", where=where, cls=type(a).__name__, fields=bad[:3],
                nested_model_alias_without_populate_by_name=type(a).__name__ == "StrictNestedAliasEv" and bad == ["inner"])
        if dict(a._data) != dict(b._data):
            r.v("dynamic_fields_changed", where=where, cls=type(a).__name__)
        if isinstance(a, self.wev.StopEvent) and a.result != b.result:
            r.v("result_changed", where=where, cls=type(a).__name__)

    def same_exc(self, a, b, r, where):
        if type(a) is not type(b) or str(a) != str(b):
            r.v("exception_changed", where=where, was=f"{type(a).__name__}:{a}"[:40], now=f"{type(b).__name__}:{b}"[:40], exc_type=type(a).__name__)

    def roundtrip_event(self, e, r: CaseResult):
        # 1. JsonSerializer
        try:
            back = self.ser.deserialize(self.ser.serialize(e))
            self.same_event(e, back, r, "json_serializer")
        except Exception as ex:  # noqa: BLE001
            r.v("roundtrip_raised", where="json_serializer", cls=type(e).__name__, err=type(ex).__name__)
        # 2. envelopes, through JSON text
        try:
            env = self.se.EventEnvelopeWithMetadata.from_event(e)
            env2 = self.se.EventEnvelopeWithMetadata.model_validate(json.loads(env.model_dump_json()))
            self.same_event(e, env2.load_event(), r, "envelope_qualified_name")
            self.same_event(e, env2.load_event(registry=[type(e)]), r, "envelope_registry")
            if env2.type != type(e).__name__:
                r.v("envelope_type_name", got=env2.type)
            w = self.se.EventEnvelope.from_event(e)
            back = self.se.EventEnvelope.parse(json.loads(w.model_dump_json()), registry={type(e).__name__: type(e)})
            self.same_event(e, back, r, "write_envelope")
        except Exception as ex:  # noqa: BLE001
            r.v("roundtrip_raised", where="envelope", cls=type(e).__name__, err=type(ex).__name__)

    def run_case(self, case):
        r = CaseResult()
        r.classes.append(case["k"])
        T, R = self.ticks, self.res
        if case["k"] == "event":
            e = self.mk_event(case["ev"])
            self.roundtrip_event(e, r)
            r.nontrivial = bool(case["ev"]["dyn"]) or case["ev"].get("result") is not None or (case["ev"]["cls"] == "TypedEv" and case["ev"]["typed"]["nested"]["deep"] is not None)
            r.classes.append(case["ev"]["cls"])
        elif case["k"] == "failure":
            exc = self.mk_exc(case["exc"])
            if case["which"] == "workflow":
                e = self.wev.WorkflowFailedEvent(step_name="s", exception=exc, attempts=2, elapsed_seconds=1.5)
            else:
                e = self.wev.StepFailedEvent(step_name="s", input_event=self.mk_event(case["inner"]), exception=exc, attempts=3, elapsed_seconds=0.25, failed_at=datetime(2024, 1, 2, tzinfo=timezone.utc))
            try:
                back = self.ser.deserialize(self.ser.serialize(e))
                if type(back) is not type(e):
                    r.v("event_class_changed", where="failure_event", was=type(e).__name__, now=type(back).__name__)
                else:
                    self.same_exc(e.exception, back.exception, r, "failure_event")
                    if back.attempts != e.attempts or back.elapsed_seconds != e.elapsed_seconds or back.step_name != e.step_name:
                        r.v("typed_fields_changed", where="failure_event", cls=type(e).__name__, fields=["attempts/elapsed"])
                    if case["which"] == "step":
                        self.same_event(e.input_event, back.input_event, r, "step_failed.input_event")
                        if back.failed_at != e.failed_at:
                            r.v("typed_fields_changed", where="failure_event", cls="StepFailedEvent", fields=["failed_at"])
            except Exception as ex:  # noqa: BLE001
                r.v("roundtrip_raised", where="failure_event", cls=type(e).__name__, err=type(ex).__name__)
            r.nontrivial = True
            r.classes.append("exc_" + case["exc"]["type"])
        else:
            t = self.mk_tick(case["tick"])
            try:
                dumped = self.ticks.WorkflowTickAdapter.dump_python(t, mode="json")
                back = self.ticks.WorkflowTickAdapter.validate_python(json.loads(json.dumps(dumped)))
            except Exception as ex:  # noqa: BLE001
                r.v("roundtrip_raised", where="tick", cls=type(t).__name__, err=type(ex).__name__)
                return r
            self.same_tick(t, back, r)
            r.nontrivial = case["tick"]["t"] in ("add", "publish", "step_result")
            r.classes.append("tick_" + case["tick"]["t"])
        return r

    def mk_tick(self, s):
        T, R = self.ticks, self.res
        k = s["t"]
        if k == "add":
            exc = self.mk_exc(s["exc"]) if s["exc"] else None
            return T.TickAddEvent(event=self.mk_event(s["ev"]), step_name=s["step"], attempts=s["attempts"], first_attempt_at=12.5 if s["attempts"] else None,
                                  last_exception=exc, last_failed_at=13.0 if exc else None, recovery_counts=s["rc"])
        if k == "publish":
            return T.TickPublishEvent(event=self.mk_event(s["ev"]))
        if k == "step_result":
            rs = []
            for x in s["results"]:
                if x["r"] == "result":
                    rs.append(R.StepWorkerResult(result=self.mk_event(x["ev"]) if x["ev"] else None))
                elif x["r"] == "failed":
                    rs.append(R.StepWorkerFailed(exception=self.mk_exc(x["exc"]), failed_at=99.5))
                elif x["r"] == "add_collected":
                    rs.append(R.AddCollectedEvent(event_id="buf", event=self.mk_event(x["ev"])))
                elif x["r"] == "delete_collected":
                    rs.append(R.DeleteCollectedEvent(event_id="buf"))
                elif x["r"] == "add_waiter":
                    rs.append(R.AddWaiter(waiter_id="w", waiter_event=self.mk_event(x["ev"]) if x["ev"] else None, requirements={}, timeout=x["timeout"], event_type=self.pool.AnswerEv))
                else:
                    rs.append(R.DeleteWaiter(waiter_id="w"))
            return T.TickStepResult(step_name="s1", worker_id=2, event=self.mk_event(s["ev"]), result=rs)
        return {"cancel": T.TickCancelRun, "idle_check": T.TickIdleCheck, "idle_release": T.TickIdleRelease}.get(k, None)() if k in ("cancel", "idle_check", "idle_release") else (
            T.TickTimeout(timeout=3.5) if k == "timeout" else T.TickWaiterTimeout(step_name="s1", waiter_id="w"))

    def same_tick(self, a, b, r):
        if type(a) is not type(b):
            r.v("tick_class_changed", was=type(a).__name__, now=type(b).__name__)
            return
        n = type(a).__name__
        if n == "TickAddEvent":
            self.same_event(a.event, b.event, r, "tick.add.event")
            for f in ("step_name", "attempts", "first_attempt_at", "last_failed_at", "recovery_counts"):
                if getattr(a, f) != getattr(b, f):
                    r.v("tick_field_changed", tick=n, field=f)
            if (a.last_exception is None) != (b.last_exception is None):
                r.v("tick_field_changed", tick=n, field="last_exception")
            elif a.last_exception is not None:
                self.same_exc(a.last_exception, b.last_exception, r, "tick.add.last_exception")
        elif n == "TickPublishEvent":
            self.same_event(a.event, b.event, r, "tick.publish.event")
        elif n == "TickStepResult":
            self.same_event(a.event, b.event, r, "tick.step_result.event")
            if (a.step_name, a.worker_id, len(a.result)) != (b.step_name, b.worker_id, len(b.result)):
                r.v("tick_field_changed", tick=n, field="step/worker/len")
                return
            for x, y in zip(a.result, b.result):
                if type(x) is not type(y):
                    r.v("result_class_changed", was=type(x).__name__, now=type(y).__name__)
                    continue
                m = type(x).__name__
                if m == "StepWorkerResult":
                    if (x.result is None) != (y.result is None):
                        r.v("tick_field_changed", tick=n, field="result")
                    elif x.result is not None:
                        self.same_event(x.result, y.result, r, "tick.step_result.result")
                elif m == "StepWorkerFailed":
                    self.same_exc(x.exception, y.exception, r, "tick.step_result.failed")
                    if x.failed_at != y.failed_at:
                        r.v("tick_field_changed", tick=n, field="failed_at")
                elif m == "AddCollectedEvent":
                    self.same_event(x.event, y.event, r, "tick.add_collected")
                    if x.event_id != y.event_id:
                        r.v("tick_field_changed", tick=n, field="event_id")
                elif m.startswith("AddWaiter"):
                    if (x.waiter_id, x.timeout, x.event_type) != (y.waiter_id, y.timeout, y.event_type):
                        r.v("tick_field_changed", tick=n, field="waiter")
                    if (x.waiter_event is None) != (y.waiter_event is None):
                        r.v("tick_field_changed", tick=n, field="waiter_event")
                    elif x.waiter_event is not None:
                        self.same_event(x.waiter_event, y.waiter_event, r, "tick.add_waiter.waiter_event")
                elif x != y:
                    r.v("tick_field_changed", tick=n, field=m)
        elif a != b:
            r.v("tick_field_changed", tick=n, field="*")


PROP = C18
