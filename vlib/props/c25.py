"""C25 — KeyedLock gives per-key mutual exclusion and cleans up (model-based operation sequences)."""

from __future__ import annotations

import asyncio

from hypothesis import strategies as st

from .. import boot
from ..runner import CaseResult, Prop


class C25(Prop):
    id = "C25"
    rule = (
        "cases = operation sequences over one KeyedLock: acquire(key in a,b,c) spawns a task that enters the critical section and waits "
        "to be released; release(task); cancel(task) while it is queued or while it holds; yield (let the loop run 1-3 iterations); "
        "leave(task, mask, how): the task is released (how=rel) or cancelled (how=cancel) and, when it has left its critical section, "
        "cancels in the same task step (no await in between) the waiters of its key selected by the bit mask over the FIFO queue "
        "(15 = all of them, bit 0 = the waiter that was just woken by the hand-off and has not run yet); rel1(task, mask): release, let the "
        "loop run exactly one iteration, then the driver (a task ahead of the woken waiter in the ready queue) cancels the waiters selected "
        "by mask if the key has no holder, and no settling follows, so the next operation also lands in the hand-off window between the "
        "holder's exit and the woken waiter's first step. "
        "A reference model (holder + FIFO queue per key) is compared after every settled operation, and after every settled operation "
        "every key all of whose holders and waiters are gone (finished or cancelled) must have no entry in the lock's internal tables; "
        "at the end everything is released and, after all tasks have finished, the tables must be empty. "
        "Non-trivial = a queued waiter was cancelled while the key was held, or a waiter was cancelled in the hand-off window."
    )
    assumptions = [
        "single event loop; cancellation is delivered with Task.cancel() at the task's current await",
        "a task's exit from `async with lock(key)` does not suspend (the main lock is never contended across an await), so code placed "
        "right after the block runs before the woken waiter's task is stepped",
    ]
    budgets = {"quick": 1500, "thorough": 10000}
    wall = {"quick": 60.0, "thorough": 600.0}

    def setup(self):
        boot.seed_llama_agents()
        from llama_agents.server._keyed_lock import KeyedLock

        self.KL = KeyedLock

    def strategy(self, tier):
        op = st.one_of(
            st.tuples(st.just("acq"), st.sampled_from(["a", "a", "b", "c"])),
            st.tuples(st.just("acq"), st.sampled_from(["a", "a", "b", "c"])),
            st.tuples(st.just("rel"), st.integers(0, 30)),
            st.tuples(st.just("cancel"), st.integers(0, 30)),
            st.tuples(st.just("yield"), st.integers(1, 3)),
            st.tuples(
                st.just("leave"),
                st.integers(0, 30),
                st.one_of(st.just(15), st.integers(0, 15)),
                st.sampled_from(["rel", "rel", "cancel"]),
            ),
            st.tuples(st.just("rel1"), st.integers(0, 30), st.sampled_from([0, 0, 1, 15]) | st.integers(0, 15)),
            st.tuples(st.just("acq"), st.sampled_from(["a", "a", "b", "c"])),
        )
        return st.lists(op.map(list), min_size=1, max_size=30)

    def run_case(self, case):
        r = CaseResult()
        KL = self.KL
        stats = {
            "cancel_queued_while_held": False,
            "max_queue": 0,
            "handoff_cancel": False,  # some waiter cancelled by the leaving holder, in the holder's own step
            "handoff_cancel_woken": False,  # ... including the waiter the hand-off had just woken
            "handoff_cancel_all": False,  # ... every remaining waiter: a cancelled, already-woken waiter is the last reference
            "handoff_cancel_woken_next_enters": False,  # woken one cancelled, a later waiter left alone
            "leaver_was_cancelled": False,  # the leaving holder that cancels waiters was itself cancelled
            "driver_cancel_in_handoff": False,  # driver cancelled a waiter between holder exit and the woken waiter's step
            "driver_cancel_all_in_handoff": False,  # ... every remaining waiter of the key
            "midrun_key_idle": False,  # a key became idle (all its tasks gone) before the end: mid-run table inspection applied
        }

        async def main():
            lock = KL()
            tasks = []  # dicts: key, task, release(event), state, post, cancel_req, entered
            inside = {}  # key -> list of task ids currently inside

            def cancel_task(t):
                t["cancel_req"] = True
                t["task"].cancel()

            def queued(key):
                # FIFO queue of the key = creation order of the tasks still waiting (every acquirer passes the main lock
                # without suspending, so it parks on the per-key lock in creation order)
                return [t for t in tasks if t["key"] == key and t["state"] == "new" and not t["task"].done() and not t["cancel_req"]]

            def post_cancel(me, key, mask):
                # runs in the leaving holder's task right after its `async with` block: the per-key lock is released and the
                # first waiter woken, but no other task has been stepped since
                q = queued(key)
                if not q:
                    return
                hit = [bool((mask >> (n % 4)) & 1) for n in range(len(q))]
                for t, h in zip(q, hit):
                    if h:
                        cancel_task(t)
                if any(hit):
                    stats["handoff_cancel"] = True
                    if me["cancel_req"]:
                        stats["leaver_was_cancelled"] = True
                if hit[0]:
                    stats["handoff_cancel_woken"] = True
                    if all(hit):
                        stats["handoff_cancel_all"] = True
                    else:
                        stats["handoff_cancel_woken_next_enters"] = True

            async def worker(i, key, rel):
                me = tasks[i]
                try:
                    async with lock(key):
                        me["entered"] = True
                        inside.setdefault(key, []).append(i)
                        if len(inside[key]) > 1:
                            r.v("two_holders_for_one_key", key=key)
                        me["state"] = "in"
                        try:
                            await rel.wait()
                        finally:
                            inside[key].remove(i)
                finally:
                    if me["entered"]:
                        me["state"] = "left"
                        if me["post"] is not None:
                            post_cancel(me, key, me["post"])
                me["state"] = "done"

            async def settle():
                for _ in range(12):
                    await asyncio.sleep(0)

            def tables_check(where, final=False):
                # "once all holders and waiters are gone (including cancelled ones) no lock state remains", per key
                for key in ("a", "b", "c"):
                    used = [t for t in tasks if t["key"] == key]
                    if not used or any(not t["task"].done() for t in used):
                        continue
                    if not final:
                        stats["midrun_key_idle"] = True
                    if key in lock._locks or key in getattr(lock, "_refs", {}):
                        r.v(
                            "lock_state_left_behind",
                            where=where,
                            key=key,
                            locks=sorted(lock._locks),
                            refs=dict(getattr(lock, "_refs", {})),
                        )

            def model_check(where):
                for key in ("a", "b", "c"):
                    live = [t for t in tasks if t["key"] == key and not t["task"].done()]
                    holders = [t for t in live if t["state"] == "in"]
                    waiting = [t for t in live if t["state"] == "new"]
                    stats["max_queue"] = max(stats["max_queue"], len(waiting))
                    if len(holders) > 1:
                        r.v("two_holders_for_one_key", key=key)
                    if not holders and waiting:
                        r.v("waiter_not_admitted", key=key, where=where, waiting=len(waiting))
                tables_check(where)

            def do_cancel(t):
                if t["task"].done():
                    return
                held = any(o["state"] == "in" and o["key"] == t["key"] and not o["task"].done() for o in tasks)
                if t["state"] == "new" and not t["cancel_req"]:
                    if held:
                        stats["cancel_queued_while_held"] = True
                    else:
                        # only reachable right after rel1: the holder has left, the woken waiter has not been stepped yet
                        stats["driver_cancel_in_handoff"] = True
                cancel_task(t)

            for op in case:
                if op[0] == "acq":
                    rel = asyncio.Event()
                    d = {"key": op[1], "release": rel, "state": "new", "post": None, "cancel_req": False, "entered": False}
                    tasks.append(d)
                    d["task"] = asyncio.create_task(worker(len(tasks) - 1, op[1], rel))
                elif op[0] == "rel" and tasks:
                    tasks[op[1] % len(tasks)]["release"].set()
                elif op[0] == "cancel" and tasks:
                    do_cancel(tasks[op[1] % len(tasks)])
                elif op[0] == "leave" and tasks:
                    t = tasks[op[1] % len(tasks)]
                    if not t["task"].done():
                        t["post"] = op[2]
                        if op[3] == "cancel":
                            do_cancel(t)
                        else:
                            t["release"].set()
                elif op[0] == "rel1" and tasks:
                    tasks[op[1] % len(tasks)]["release"].set()
                    await asyncio.sleep(0)  # exactly one loop iteration: the holder leaves, the woken waiter is not stepped yet
                    k = tasks[op[1] % len(tasks)]["key"]
                    if op[2] and not any(o["state"] == "in" and o["key"] == k and not o["task"].done() for o in tasks):
                        q = queued(k)
                        for n, t in enumerate(q):
                            if (op[2] >> (n % 4)) & 1:
                                do_cancel(t)
                        if q and not queued(k):
                            stats["driver_cancel_all_in_handoff"] = True
                    continue
                elif op[0] == "yield":
                    for _ in range(op[1]):
                        await asyncio.sleep(0)
                    continue
                await settle()
                model_check(op[0])
            # drain: release everyone; every uncancelled waiter must get in and finish
            for t in tasks:
                t["release"].set()
            await settle()
            for _ in range(len(tasks) + 2):
                await settle()
            for i, t in enumerate(tasks):
                if not t["task"].done():
                    r.v("waiter_never_entered", key=t["key"])
                    t["task"].cancel()
            await asyncio.gather(*[t["task"] for t in tasks], return_exceptions=True)
            # everything has settled: every task (holder, waiter, cancelled or not) is finished
            await settle()
            tables_check("end", final=True)
            if lock._locks or getattr(lock, "_refs", {}):
                r.v("lock_state_left_behind", where="end", locks=sorted(lock._locks), refs=dict(getattr(lock, "_refs", {})))

        boot.run_virtual(main)
        r.nontrivial = stats["cancel_queued_while_held"] or stats["handoff_cancel"] or stats["driver_cancel_in_handoff"]
        if stats["max_queue"] >= 2:
            r.classes.append("queue_ge_2")
        for k in (
            "cancel_queued_while_held",
            "handoff_cancel",
            "handoff_cancel_woken",
            "handoff_cancel_all",
            "handoff_cancel_woken_next_enters",
            "leaver_was_cancelled",
            "driver_cancel_in_handoff",
            "driver_cancel_all_in_handoff",
            "midrun_key_idle",
        ):
            if stats[k]:
                r.classes.append(k)
        return r


PROP = C25
