"""C25 — KeyedLock gives per-key mutual exclusion and cleans up (model-based operation sequences)."""

from __future__ import annotations

import asyncio

from hypothesis import strategies as st

from .. import boot
from ..runner import CaseResult, Prop


class C25(Prop):
    id = "C25"
    rule = (
        "cases = operation sequences over one KeyedLock: acquire(key in a,b,c) spawns a task that enters the critical section and waits "
        "to be released; release(task); cancel(task) while it is queued or while it holds; yield (let the loop run 1-3 iterations). "
        "A reference model (holder + FIFO queue per key) is compared after every operation; at the end everything is released and the "
        "lock's internal tables must be empty. Non-trivial = a queued waiter was cancelled while the key was held."
    )
    assumptions = ["single event loop; cancellation is delivered with Task.cancel() at the task's current await"]
    budgets = {"quick": 1500, "thorough": 10000}
    wall = {"quick": 60.0, "thorough": 600.0}

    def setup(self):
        boot.seed_llama_agents()
        from llama_agents.server._keyed_lock import KeyedLock

        self.KL = KeyedLock

    def strategy(self, tier):
        op = st.one_of(
            st.tuples(st.just("acq"), st.sampled_from(["a", "a", "b", "c"])),
            st.tuples(st.just("acq"), st.sampled_from(["a", "a", "b", "c"])),
            st.tuples(st.just("rel"), st.integers(0, 30)),
            st.tuples(st.just("cancel"), st.integers(0, 30)),
            st.tuples(st.just("yield"), st.integers(1, 3)),
        )
        return st.lists(op.map(list), min_size=1, max_size=30)

    def run_case(self, case):
        r = CaseResult()
        KL = self.KL
        stats = {"cancel_queued_while_held": False, "max_queue": 0}

        async def main():
            lock = KL()
            tasks = []  # dicts: key, task, release(event), state
            inside = {}  # key -> list of task ids currently inside

            async def worker(i, key, rel):
                async with lock(key):
                    inside.setdefault(key, []).append(i)
                    if len(inside[key]) > 1:
                        r.v("two_holders_for_one_key", key=key)
                    tasks[i]["state"] = "in"
                    try:
                        await rel.wait()
                    finally:
                        inside[key].remove(i)
                tasks[i]["state"] = "done"

            async def settle():
                for _ in range(12):
                    await asyncio.sleep(0)

            def model_check(where):
                for key in ("a", "b", "c"):
                    live = [t for t in tasks if t["key"] == key and not t["task"].done()]
                    holders = [t for t in live if t["state"] == "in"]
                    waiting = [t for t in live if t["state"] == "new"]
                    stats["max_queue"] = max(stats["max_queue"], len(waiting))
                    if len(holders) > 1:
                        r.v("two_holders_for_one_key", key=key)
                    if not holders and waiting:
                        r.v("waiter_not_admitted", key=key, where=where, waiting=len(waiting))

            for op in case:
                if op[0] == "acq":
                    rel = asyncio.Event()
                    d = {"key": op[1], "release": rel, "state": "new"}
                    tasks.append(d)
                    d["task"] = asyncio.create_task(worker(len(tasks) - 1, op[1], rel))
                elif op[0] == "rel" and tasks:
                    tasks[op[1] % len(tasks)]["release"].set()
                elif op[0] == "cancel" and tasks:
                    t = tasks[op[1] % len(tasks)]
                    if not t["task"].done():
                        if t["state"] == "new" and any(o["state"] == "in" and o["key"] == t["key"] and not o["task"].done() for o in tasks):
                            stats["cancel_queued_while_held"] = True
                        t["task"].cancel()
                elif op[0] == "yield":
                    for _ in range(op[1]):
                        await asyncio.sleep(0)
                    continue
                await settle()
                model_check(op[0])
            # drain: release everyone; every uncancelled waiter must get in and finish
            for t in tasks:
                t["release"].set()
            await settle()
            for _ in range(len(tasks) + 2):
                await settle()
            for i, t in enumerate(tasks):
                if not t["task"].done():
                    r.v("waiter_never_entered", key=t["key"])
                    t["task"].cancel()
            await asyncio.gather(*[t["task"] for t in tasks], return_exceptions=True)
            if lock._locks or lock._refs:
                r.v("lock_state_left_behind", locks=sorted(lock._locks), refs=dict(lock._refs))

        boot.run_virtual(main)
        r.nontrivial = stats["cancel_queued_while_held"]
        if stats["max_queue"] >= 2:
            r.classes.append("queue_ge_2")
        if stats["cancel_queued_while_held"]:
            r.classes.append("cancel_queued_while_held")
        return r


PROP = C25
