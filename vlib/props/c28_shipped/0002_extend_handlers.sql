-- migration: 2

-- Add new columns for extended handler persistence
ALTER TABLE handlers ADD COLUMN run_id TEXT;
ALTER TABLE handlers ADD COLUMN error TEXT;
ALTER TABLE handlers ADD COLUMN result TEXT;
ALTER TABLE handlers ADD COLUMN started_at TEXT;
ALTER TABLE handlers ADD COLUMN updated_at TEXT;
ALTER TABLE handlers ADD COLUMN completed_at TEXT;
