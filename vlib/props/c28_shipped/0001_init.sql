-- migration: 1

-- Initial table creation matching the original minimal schema
CREATE TABLE IF NOT EXISTS handlers (
    handler_id TEXT PRIMARY KEY,
    workflow_name TEXT,
    status TEXT,
    ctx TEXT
);
