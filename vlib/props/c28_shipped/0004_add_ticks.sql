-- migration: 4

CREATE TABLE IF NOT EXISTS ticks (
    id INTEGER PRIMARY KEY AUTOINCREMENT,
    run_id TEXT NOT NULL,
    sequence INTEGER NOT NULL,
    timestamp TEXT NOT NULL,
    tick_data TEXT NOT NULL
);

CREATE INDEX IF NOT EXISTS idx_ticks_run_id ON ticks (run_id);
CREATE INDEX IF NOT EXISTS idx_ticks_run_id_sequence ON ticks (run_id, sequence);

CREATE TABLE IF NOT EXISTS workflow_state (
    run_id TEXT PRIMARY KEY,
    state_json TEXT NOT NULL DEFAULT '{}',
    state_type TEXT NOT NULL DEFAULT 'DictState',
    state_module TEXT NOT NULL DEFAULT 'workflows.context.state_store',
    created_at TEXT NOT NULL,
    updated_at TEXT NOT NULL
);

CREATE TABLE IF NOT EXISTS events (
    id INTEGER PRIMARY KEY AUTOINCREMENT,
    run_id TEXT NOT NULL,
    sequence INTEGER NOT NULL,
    timestamp TEXT NOT NULL,
    event_json TEXT NOT NULL
);

CREATE INDEX IF NOT EXISTS idx_events_run_id_sequence ON events (run_id, sequence);

CREATE INDEX IF NOT EXISTS idx_handlers_run_id ON handlers (run_id);
