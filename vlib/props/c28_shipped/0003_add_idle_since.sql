-- migration: 3

-- Add idle_since column for tracking when a workflow became idle
ALTER TABLE handlers ADD COLUMN idle_since TEXT;
