"""C37 — llamactl never activates a profile the user did not pick in that environment.

Operation sequences (environment add/switch/delete, profile create/select/update/rename/delete, new CLI
process) are executed through the real EnvService / AuthService / ConfigManager against a private
LLAMACTL_CONFIG_DIR; a reference model of the user's picks is checked after every operation.
"""

from __future__ import annotations

import asyncio
import os
import shutil
import sqlite3
import tempfile

from hypothesis import strategies as st

from .. import boot
from ..runner import CaseResult, HarnessError, Prop

# Never-added URL (index 3): lets `switch` / `delete` hit the "unknown environment" paths.
_EXTRA_URLS = ["http://a.local", "http://b.local", "http://nowhere.local"]
# api keys given to `llamactl auth token`; the profile name is derived from the key by the repository
# code (None -> "default", otherwise the redacted key), so equal keys give equal names in every environment.
_KEYS = [None, "tokAAAAAAAAAAAA1", "tokBBBBBBBBBBBB2"]
# (user_id, email) pairs for the device-login path; the profile name is the e-mail.  u1 appears with two
# e-mails (re-login after an e-mail change updates the existing profile), ann@ appears for two users
# (name clash -> rejected).
_USERS = [["u1", "ann@x.io"], ["u2", "bob@x.io"], ["u1", "bob@x.io"], ["u3", "ann@x.io"]]
_PROJECTS = ["p1", "p2", " "]


class C37(Prop):
    id = "C37"
    rule = (
        "case = sequence of 2-30 llamactl configuration operations run through the real EnvService/AuthService/ConfigManager on a "
        "fresh temp LLAMACTL_CONFIG_DIR: add_env(one of 3 urls incl. the built-in default, requires_auth) = "
        "EnvService.create_or_update_environment; switch(typed url of 4 incl. a never-added one, or an entry of the real environment "
        "listing; followed by nothing | select_any_profile | env-row rewrite + select_any_profile, as `auth env switch` does); "
        "del_env(typed url of 4, the current environment, or a listing entry - so also the built-in default); token(api key of 3 incl. "
        "none, project) = create_profile_from_token (the name is derived from the key, so the same names recur in every environment); "
        "oidc(user of 4) = create_or_update_profile_from_oidc (only where requires_auth); select / logout by index into the current "
        "environment's real profile listing or by name resolved with get_profile in the current environment (the CLI's precondition); "
        "project / rekey / refresh = set_project / update_profile / refresh_to_db of the active profile; update(environment = current "
        "or an entry of the real listing of the other environments, profile = index into that environment's real profile listing or the "
        "one named like the profile active here, value) = AuthService(cm, that environment).update_profile with a new api key and "
        "project, name kept; rename(environment = one of the OTHER environments only, profile as for update, new name = one of the "
        "recurring derived names, a fresh name, a name in use in the current environment's listing, or the name active here) = the same "
        "update_profile call with the name changed (refused by the (name, api_url) key when taken there); restart = new ConfigManager "
        "over the same directory. Every other profile operation uses EnvService.current_auth_service() as the CLI commands do. Sequences come "
        "from eight families (free; environment-op + profile-ops blocks; mostly environment operations; several environments then two or three deletions in a row; populate several environments with shared keys then churn; "
        "default-env profile + added env + delete it while current; device-login, leave, return, re-login; environments populated with "
        "different subsets of the keys, return to one, pick, then update/rename profiles of the other environments among the names in use). Oracle (reference model: "
        "known environments = seeded default + added - deleted, current environment, ids of profiles picked = created, selected or "
        "auto-selected, per environment and since the environment last became current), after every operation: (1) the current "
        "environment is a known environment or the built-in default; (2) AuthService.get_current_profile() is None, or belongs to the "
        "current environment and was picked while that environment was current, i.e. since it last became current (the code itself "
        "discards the pick on every environment change made by switch/add); (3) an update or rename of a profile of another environment "
        "is not a selection or creation in the current environment, so no profile becomes active through it: afterwards the active "
        "profile is None or the same profile as before (violation kind active_profile_changed_by_update_in_other_environment). "
        "Non-trivial = at some operation the current environment "
        "changed (switch, add, or deletion of the current environment) while a profile was active and the newly current environment "
        "holds a profile of the same name, or a profile of another environment was renamed away from the name active here to a name "
        "that another profile of the current environment holds."
    )
    assumptions = [
        "operations are issued at service level in the order the CLI commands issue them (commands/auth.py, commands/env.py); click argument parsing, prompts and output are not executed",
        "network steps are left out: probe_environment/auto_update_env are replaced by their persisted effect (create_or_update_environment with generated requires_auth); api_key_id is never set, so AuthService.delete_profile makes no HTTP call",
        "PyJWT, truststore and cryptography.hazmat...rsa are import-only stand-ins under /verif/shims (needed only to import llama_agents.cli.auth.client); no token is decoded",
        "one CLI process at a time: no two operations interleave on the same config directory; `restart` models a new process (fresh ConfigManager, migrations re-run)",
        "no repository caller renames a profile through update_profile (auth_service.py / commands/auth.py only change tokens, api keys and device_oidc); name-changing updates are generated only for profiles of non-current environments, where the statement is unambiguous (another environment's profile operations must not change which profile is active in the current one); name-preserving updates are generated for profiles of any environment",
        "'picked while that environment was current' is read as 'since that environment last became current' - the reading under which the repository's own clear-on-switch mechanism is the thing being checked; under the weaker reading 'at any earlier time' the separate violation kind active_profile_never_picked_in_env applies",
    ]
    budgets = {"quick": 1800, "thorough": 1800}
    wall = {"quick": 55.0, "thorough": 420.0}

    # ------------------------------------------------------------------ setup

    def setup(self):
        boot.seed_llama_agents()
        from llama_agents.cli.config import _config, auth_service, env_service, schema

        self.cfgmod = _config
        self.envmod = env_service
        self.authmod = auth_service
        self.schema = schema
        self.DEFAULT = schema.DEFAULT_ENVIRONMENT.api_url
        self.URLS = [self.DEFAULT] + _EXTRA_URLS
        self.NAMES = ["default"] + [auth_service._auto_profile_name_from_token(k) for k in _KEYS[1:]] + ["ann@x.io", "bob@x.io"]
        self.RENAMES = self.NAMES + ["renamed-1"]  # new names for `rename`: the recurring names and one that nothing else produces
        self.tmpbase = "/dev/shm" if os.path.isdir("/dev/shm") and os.access("/dev/shm", os.W_OK) else None

    # ------------------------------------------------------------------ generator

    def strategy(self, tier):
        i3 = st.integers(0, 2)
        i4 = st.integers(0, 3)
        url3 = st.sampled_from([0, 0, 1, 1, 1, 2, 2])
        url4 = st.sampled_from([0, 1, 1, 2, 2, 3, 5, 6, 7])  # switch target: typed url or listing entry
        urld = st.sampled_from([0, 1, 2, 3, 4, 4, 4, 5, 6])  # delete target: typed url, the current environment, or listing entry
        sel_idx = st.tuples(st.just("idx"), st.integers(0, 5))
        sel = st.one_of(sel_idx, sel_idx, sel_idx, st.tuples(st.just("name"), st.integers(0, 4)))
        token = st.tuples(st.just("token"), st.sampled_from([0, 0, 0, 1, 1, 2]), st.sampled_from([0, 0, 0, 1, 1, 2]))
        # update = ConfigManager.update_profile that keeps the name (new api key + project): environment (0 = the current one, 1..3 =
        # an entry of the real listing of the OTHER environments), profile (0..3 = index into that environment's real profile
        # listing, 4 = the profile there that is named like the profile active here), value.
        # rename = update_profile that changes the name, for profiles of NON-current environments only (1..3): environment, profile
        # (as above), new name (0..5: the recurring derived names + a fresh one; 6..8: a name in use in the current environment's
        # real listing; 9: the name of the profile active here)
        which = st.sampled_from([0, 1, 2, 3, 4, 4])
        update = st.tuples(st.just("update"), st.sampled_from([0, 0, 1, 1, 2, 3]), which, st.integers(0, 9))
        rename = st.tuples(st.just("rename"), st.sampled_from([1, 1, 2, 3]), which, st.sampled_from([0, 1, 1, 2, 3, 4, 5, 5, 6, 7, 8, 9]))
        env_op = st.one_of(
            st.tuples(st.just("add_env"), url3, st.booleans()),
            st.tuples(st.just("switch"), url4, i3),
            st.tuples(st.just("del_env"), urld),
        )
        profile_op = st.one_of(
            token,
            token,
            token,
            token,
            st.tuples(st.just("oidc"), i4),
            sel.map(lambda s: ("select",) + s),
            sel.map(lambda s: ("select",) + s),
            sel.map(lambda s: ("logout",) + s),
            st.tuples(st.just("project"), i3),
            st.tuples(st.just("rekey"), st.integers(0, 9)),
            st.tuples(st.just("refresh"), st.integers(0, 9)),
            st.just(("restart",)),
            update,
            rename,
            rename,
        )
        # free sequences: any operation anywhere
        free = st.lists(st.one_of(env_op, profile_op, profile_op), min_size=3, max_size=24)
        # block sequences: an environment operation followed by a few profile operations, repeated - puts profiles (with the
        # recurring derived names) into several environments before the next environment change
        block = st.tuples(env_op, st.lists(profile_op, min_size=0, max_size=3)).map(lambda t: [t[0]] + t[1])
        blocks = st.tuples(st.lists(profile_op, min_size=0, max_size=3), st.lists(block, min_size=2, max_size=7)).map(
            lambda t: (t[0] + [o for b in t[1] for o in b])[:30]
        )
        # populated sequences: first put profiles for a few keys into one to three environments (add_env makes the environment
        # current, token creates there), then churn: environment operations interleaved with picks
        populate = st.tuples(
            st.lists(st.sampled_from([0, 1, 2]), min_size=1, max_size=2, unique=True),  # keys shared by the populated environments
            st.permutations([0, 1, 2]),
            st.integers(2, 3),
            st.lists(st.booleans(), min_size=6, max_size=6),
        ).map(
            lambda t: [
                o
                for j, e in enumerate(t[1][: t[2]])
                for o in [("add_env", e, t[3][j])] + [("token", k, 0) for i, k in enumerate(t[0]) if i == 0 or t[3][3 + j]]
            ]
        )
        select = sel.map(lambda s: ("select",) + s)
        churn = st.lists(st.one_of(env_op, env_op, env_op, select, select, token, profile_op, rename), min_size=2, max_size=14)
        populated = st.tuples(populate, churn).map(lambda t: t[0] + t[1])
        # fallback sequences aim at the "reset environment on delete" mechanism: profiles in the default environment, the same (or
        # another) key in an added environment, then that environment is deleted while current, then churn
        noise = st.lists(profile_op, min_size=0, max_size=2)
        keypair = st.sampled_from([(0, 0), (0, 0), (1, 1), (1, 1), (2, 2), (0, 1), (1, 0), (1, 2)])
        fallback = st.tuples(keypair, noise, st.sampled_from([1, 2]), st.booleans(), noise, st.sampled_from([4, 4, 4, 5, 6]), churn).map(
            lambda t: [("token", t[0][0], 0)] + t[1] + [("add_env", t[2], t[3]), ("token", t[0][1], 0)] + t[4] + [("del_env", t[5])] + t[6]
        )
        # relogin sequences: device-login profiles in an environment that requires auth, leave and come back, log in again
        oidc = st.tuples(st.just("oidc"), i4)
        away = st.one_of(st.tuples(st.just("add_env"), st.sampled_from([1, 2]), st.booleans()), st.tuples(st.just("switch"), url4, i3))
        relogin = st.tuples(st.lists(oidc, min_size=1, max_size=3), noise, away, noise, st.tuples(st.just("switch"), st.just(0), i3), noise, oidc, churn).map(
            lambda t: t[0] + t[1] + [t[2]] + t[3] + [t[4]] + t[5] + [t[6]] + t[7]
        )
        # renaming sequences aim at profile updates that change the name: two or three environments, each given profiles for its own
        # non-empty subset of the keys (so a name is held by several environments but not by all), come back to one of them, pick
        # there, then update / rename profiles of the other environments among the names in use, then churn
        subset = st.lists(st.sampled_from([0, 1, 2]), min_size=1, max_size=3, unique=True)
        populate_uneven = st.tuples(st.permutations([0, 1, 2]), st.lists(st.tuples(st.booleans(), subset), min_size=2, max_size=3)).map(
            lambda t: [o for e, (auth, ks) in zip(t[0], t[1]) for o in [("add_env", e, auth)] + [("token", k, 0) for k in ks]]
        )
        back = st.tuples(st.just("switch"), st.sampled_from([0, 1, 2, 5, 6, 7]), st.sampled_from([0, 0, 1]))
        rename_in_use = st.tuples(st.just("rename"), st.sampled_from([1, 1, 2, 3]), st.sampled_from([0, 1, 2, 4, 4, 4]), st.sampled_from([1, 5, 6, 6, 6, 7, 7, 8, 9]))
        renaming = st.tuples(
            populate_uneven,
            back,
            st.lists(st.one_of(select, select, token), min_size=1, max_size=2),
            st.lists(st.one_of(rename_in_use, rename_in_use, rename_in_use, rename, update, select), min_size=2, max_size=6),
            churn,
        ).map(lambda t: (t[0] + [t[1]] + t[2] + t[3] + t[4])[:30])
        # environment-heavy sequences: mostly add/switch/delete of environments (the order of deletions matters), few profiles
        envheavy = st.lists(st.one_of(env_op, env_op, env_op, env_op, token, select), min_size=3, max_size=12)
        # teardown sequences: several environments set up (with or without profiles), some switching, then two or three deletions
        # in a row (non-current and current ones in either order), then churn
        sw = st.tuples(st.just("switch"), url4, i3)
        dele = st.tuples(st.just("del_env"), urld)
        teardown = st.tuples(st.one_of(populate, populate_uneven), st.lists(st.one_of(sw, sw, select), min_size=0, max_size=2), st.lists(dele, min_size=2, max_size=3), churn).map(
            lambda t: (t[0] + t[1] + t[2] + t[3])[:30]
        )
        return st.one_of(free, blocks, envheavy, teardown, populated, populated, fallback, relogin, relogin, renaming, renaming, renaming).map(lambda ops: [list(o) for o in ops])

    # ------------------------------------------------------------------ one case

    def run_case(self, case):
        r = CaseResult()
        tmp = tempfile.mkdtemp(prefix="c37-", dir=self.tmpbase)
        old_dir = os.environ.get("LLAMACTL_CONFIG_DIR")
        os.environ["LLAMACTL_CONFIG_DIR"] = tmp
        cm = self.cfgmod.config_manager
        cm.cache_clear()
        loop = asyncio.new_event_loop()
        try:
            self._run(case, r, tmp, loop)
        finally:
            loop.close()
            cm.cache_clear()
            if old_dir is None:
                os.environ.pop("LLAMACTL_CONFIG_DIR", None)
            else:
                os.environ["LLAMACTL_CONFIG_DIR"] = old_dir
            shutil.rmtree(tmp, ignore_errors=True)
        r.classes = sorted(set(r.classes))
        return r

    def _oidc(self, user, token="at-1"):
        return self.schema.DeviceOIDC(
            device_name="dev",
            user_id=user[0],
            email=user[1],
            client_id="cli",
            discovery_url="http://idp.local/.well-known/openid-configuration",
            device_access_token=token,
            device_refresh_token="rt",
            device_id_token="idt",
        )

    def _run(self, case, r, tmp, loop):
        svc = self.envmod.service  # the module-level EnvService the CLI commands use
        cm = self.cfgmod.config_manager
        Environment = self.schema.Environment
        DEFAULT = self.DEFAULT
        if os.path.realpath(str(svc.config_manager().db_path)).startswith(os.path.realpath(tmp)) is False:
            raise HarnessError("ConfigManager is not using the per-case LLAMACTL_CONFIG_DIR")

        # ---- reference model
        known = {DEFAULT}  # environments the user has (seeded default + added - deleted)
        tenure_env = svc.get_current_environment().api_url
        picked = set()  # profile ids picked since tenure_env became current
        ever = {}  # env url -> profile ids ever picked while that env was current
        reported = set()
        was_unknown = False
        labels = r.classes
        nontrivial = False
        rename_shape = False

        def observe():
            a = svc.current_auth_service()
            return a.env.api_url, a.get_current_profile()

        def resolve_url(code):
            # 0..3: a fixed url typed by the user (3 was never added); 4: the current environment;
            # 5..7: an entry of the real environment listing (what the interactive chooser offers)
            if code <= 3:
                return self.URLS[code]
            if code == 4:
                return svc.get_current_environment().api_url
            envs = svc.list_environments()
            return envs[(code - 5) % len(envs)].api_url

        if tenure_env != DEFAULT:
            r.v("current_env_unknown", after_op="init", current=tenure_env)
        prev_env, prev_active = observe()
        if prev_active is not None:
            r.v("active_profile_not_picked_since_env_became_current", after_op="init")

        for step, op in enumerate(case):
            kind = op[0]
            picks = []  # (env url the pick was made in, profile id)
            deleted_env = None
            updated_other_env = False  # the operation only updated a profile row of an environment that is not current
            try:
                if kind == "add_env":
                    url = self.URLS[op[1]]  # add: fixed urls only (0..2)
                    svc.create_or_update_environment(Environment(api_url=url, requires_auth=bool(op[2]), min_llamactl_version=None))
                    known.add(url)
                elif kind == "switch":
                    url = resolve_url(op[1])
                    try:
                        env = svc.switch_environment(url)
                    except ValueError:
                        labels.append("switch_unknown_rejected")
                    else:
                        if url not in known:
                            labels.append("switch_to_unlisted_env_accepted")
                        if op[2] == 2:  # auto_update_env found changed server facts: row rewritten
                            svc.config_manager().create_or_update_environment(url, not env.requires_auth, env.min_llamactl_version)
                        if op[2] >= 1:  # auto_update_env succeeded: the command auto-picks a profile
                            a = svc.current_auth_service()
                            ps = a.list_profiles()
                            a.select_any_profile()
                            if ps:  # "best effort to select a profile within the environment": any listed one counts as picked
                                picks.extend((a.env.api_url, q.id) for q in ps)
                                labels.append("select_any_picked")
                elif kind == "del_env":
                    url = resolve_url(op[1])
                    deleted_env = url
                    ok = svc.delete_environment(url)
                    known.discard(url)
                    if ok and url == prev_env:
                        labels.append("deleted_current_env")
                        if prev_active is not None:
                            labels.append("deleted_current_env_with_active_profile")
                    if ok and url == DEFAULT:
                        labels.append("deleted_default_env")
                elif kind == "token":
                    a = svc.current_auth_service()
                    try:
                        p = a.create_profile_from_token(_PROJECTS[op[2]], _KEYS[op[1]])
                        picks.append((a.env.api_url, p.id))
                    except ValueError:
                        labels.append("create_rejected")
                elif kind == "oidc":
                    a = svc.current_auth_service()
                    if not a.env.requires_auth:  # `auth login` refuses environments without authentication
                        labels.append("oidc_skipped_no_auth_env")
                    else:
                        user = _USERS[op[1]]
                        existed = a.config_manager.get_profile_by_device_user_id(a.env.api_url, user[0]) is not None
                        try:
                            p = a.create_or_update_profile_from_oidc("p1", self._oidc(user))
                            picks.append((a.env.api_url, p.id))
                            labels.append("oidc_relogin_existing" if existed else "oidc_created")
                        except ValueError:
                            labels.append("create_rejected")
                elif kind in ("select", "logout"):
                    a = svc.current_auth_service()
                    if op[1] == "idx":  # interactive: choose from the listing of the current environment
                        ps = a.list_profiles()
                        target = ps[op[2] % len(ps)] if ps else None
                    else:  # by name: the command resolves it in the current environment and ignores unknown names
                        target = a.get_profile(self.NAMES[op[2]])
                    if target is None:
                        labels.append(kind + "_nothing_listed")
                    elif kind == "select":
                        a.set_current_profile(target.name)
                        picks.append((a.env.api_url, target.id))
                    else:
                        if prev_active is not None and prev_active.id == target.id:
                            labels.append("logout_active")
                        loop.run_until_complete(a.delete_profile(target.name))
                elif kind == "project":
                    a = svc.current_auth_service()
                    p = a.get_current_profile()
                    if p is not None:
                        a.set_project(p.name, _PROJECTS[op[1] % 2])
                elif kind == "rekey":
                    a = svc.current_auth_service()
                    p = a.get_current_profile()
                    if p is not None:
                        p.api_key = "rekeyed-%d" % op[1]
                        a.update_profile(p)
                elif kind in ("update", "rename"):
                    # ConfigManager.update_profile on a profile row of the current (update only) or of another environment, through an
                    # AuthService bound to that environment.  update keeps the name (new api key + project, as the token
                    # provisioning / refresh callers do); rename changes it and is generated for NON-current environments only.
                    cur_env = svc.get_current_environment()
                    if kind == "update" and op[1] == 0:
                        env = cur_env
                    else:
                        others = [e for e in svc.list_environments() if e.api_url != cur_env.api_url]
                        others = [e for e in others if svc.config_manager().list_profiles(e.api_url)] or others
                        env = others[(op[1] - 1) % len(others)] if others else None
                    ps = self.authmod.AuthService(svc.config_manager(), env).list_profiles() if env is not None else []
                    if not ps:
                        labels.append(kind + "_nothing_listed")
                    else:
                        a = self.authmod.AuthService(svc.config_manager(), env)
                        other = env.api_url != cur_env.api_url
                        target = ps[op[2] % len(ps)]
                        if op[2] == 4 and prev_active is not None:  # the profile there that is named like the one active here
                            target = a.get_profile(prev_active.name) or target
                        if kind == "update":
                            target.api_key = "updated-%d" % op[3]
                            target.project_id = _PROJECTS[op[3] % 2]
                            labels.append("update_keep_name:" + ("other_env" if other else "current_env"))
                            if other and prev_active is not None and prev_active.name == target.name:
                                labels.append("update_keep_name_other_env_same_name_active_here")
                        else:
                            if not other:
                                raise HarnessError("rename resolved to the current environment")
                            old_name = target.name
                            if op[3] <= 5:
                                new_name = self.RENAMES[op[3]]
                            elif op[3] <= 8:  # a name in use here, preferably one the update can succeed with (free in the target's environment)
                                here = svc.current_auth_service().list_profiles()
                                taken = {q.name for q in ps}
                                cand = [q.name for q in here if q.name not in taken] or [q.name for q in here]
                                new_name = cand[(op[3] - 6) % len(cand)] if cand else self.RENAMES[5]
                            else:  # the name of the profile active here
                                new_name = prev_active.name if prev_active is not None else self.RENAMES[5]
                            if new_name == old_name:
                                labels.append("rename_same_name")
                            elif a.get_profile(new_name) is not None:
                                labels.append("rename_name_taken_there")
                            else:
                                labels.append("rename:other_env")
                                if prev_active is not None and prev_active.name == new_name:
                                    labels.append("rename_other_env_to_name_active_here")
                                if prev_active is not None and prev_active.name == old_name:
                                    labels.append("rename_other_env_old_name_active_here")
                                    if svc.current_auth_service().get_profile(new_name) is not None:
                                        rename_shape = True
                                        labels.append("rename_other_env_old_name_active_here_new_name_listed_here")
                            target.name = new_name
                        updated_other_env = other
                        try:
                            a.update_profile(target)
                        except sqlite3.IntegrityError:  # (name, api_url) is the primary key: the update is refused as a whole
                            labels.append("rename_rejected")
                elif kind == "refresh":
                    a = svc.current_auth_service()
                    p = a.get_current_profile()
                    if p is not None and p.device_oidc is not None:
                        a.refresh_to_db(p.id, self._oidc([p.device_oidc.user_id, p.device_oidc.email], token="at-%d" % op[1]))
                        labels.append("oidc_refreshed")
                elif kind == "restart":
                    cm.cache_clear()
                else:
                    raise HarnessError(f"unknown op {op!r}")
            except HarnessError:
                raise
            except Exception as e:  # noqa: BLE001 - an operation failing is not itself a C37 violation
                labels.append("op_raised:%s:%s" % (kind, type(e).__name__))

            # ---- observe, update the model, check the invariant
            cur, active = observe()
            if cur != tenure_env:
                tenure_env = cur
                picked = set()
            for env_url, pid in picks:
                ever.setdefault(env_url, set()).add(pid)
                if env_url == cur:
                    picked.add(pid)

            if cur != prev_env and prev_active is not None:
                labels.append("env_changed_with_active_profile")
                if svc.current_auth_service().get_profile(prev_active.name) is not None:
                    nontrivial = True
                    labels.append("env_changed_same_name_there:" + kind)

            unknown = cur not in known and cur != DEFAULT
            if unknown and (not was_unknown or cur != prev_env):
                r.v(
                    "current_env_unknown",
                    after_op=kind,
                    current_was_deleted=(deleted_env == cur),
                    current_never_added=(cur == self.URLS[3]),
                )
            was_unknown = unknown
            # the invariant is evaluated where the active profile (or the environment) changes: later operations that merely
            # leave an already-reported wrong activation in place are consequences, not further violations
            activated = active is not None and (prev_active is None or prev_active.id != active.id or cur != prev_env)
            if active is not None:
                labels.append("profile_active")
            if activated:
                attrs = dict(
                    after_op=kind,
                    env_is_default=(cur == DEFAULT),
                    env_changed_by_op=(cur != prev_env),
                    deleted_env_was_current=(deleted_env is not None and deleted_env == prev_env),
                    same_name_as_previous_active=(prev_active is not None and prev_active.name == active.name and prev_active.id != active.id),
                )
                vk = None
                if active.api_url != cur:
                    vk = "active_profile_of_other_environment"
                elif active.id not in ever.get(cur, ()):
                    vk = "active_profile_never_picked_in_env"
                elif active.id not in picked:
                    vk = "active_profile_not_picked_since_env_became_current"
                key = (vk, kind, attrs["deleted_env_was_current"])
                if vk is not None and key not in reported:
                    reported.add(key)
                    r.v(vk, **attrs)
            # (3) an update of another environment's profile is not a pick here: no profile becomes active through it (becoming
            # None is allowed by the property and is only counted)
            if updated_other_env and cur == prev_env:
                before = prev_active.id if prev_active is not None else None
                after = active.id if active is not None else None
                if before is not None and after is None:
                    labels.append("other_env_update_deactivated_profile_here")
                if after is not None and after != before and ("changed_by_other_env_update", kind) not in reported:
                    reported.add(("changed_by_other_env_update", kind))
                    r.v(
                        "active_profile_changed_by_update_in_other_environment",
                        after_op=kind,
                        was_active=(before is not None),
                        now_active_picked_since_env_became_current=(after in picked),
                    )
            prev_env, prev_active = cur, active

        r.nontrivial = nontrivial or rename_shape


PROP = C37
