"""Shared base for engine properties run on generated programs."""

from __future__ import annotations

import json

from .. import genwf
from ..runner import CaseResult, Prop


class EngineProp(Prop):
    budgets = {"quick": 800, "thorough": 4000}
    wall = {"quick": 70.0, "thorough": 900.0}
    gen_kwargs: dict = {}
    probe = True
    add_fin = True

    def setup(self):
        genwf.M()

    def strategy(self, tier):
        return genwf.program_strategy(**self.gen_kwargs)

    def prepare(self, case: dict) -> dict:
        spec = json.loads(json.dumps(case))
        if self.add_fin and not any(e[1] == "send" and e[2] == "Fin" for e in spec.get("ext", [])):
            spec["ext"].append([genwf.fin_time(spec), "send", "Fin", None, {}])
        return spec

    def run_spec(self, spec: dict, **kw):
        return genwf.run_case_program(spec, probe=self.probe, **kw)

    liveness = False  # does the property's statement cover "never finishes"?
    expect_result = False  # programs are built so that the run must end with a result

    def run_case(self, case):
        from ..boot import Runaway

        spec = self.prepare(case)
        r = CaseResult()
        try:
            rec = self.run_spec(spec)
        except Runaway as e:
            if self.liveness:
                r.v("runaway", detail=str(e)[:80])
                r.nontrivial = True
                return r
            raise RuntimeError(f"inconclusive: {e}") from None
        if self.expect_result and rec.outcome["kind"] != "result":
            r.v("unexpected_outcome", outcome=rec.outcome["kind"], exc=type(rec.outcome.get("exc")).__name__)
        self.oracle(spec, rec, r)
        r.sample = {"spec": case, "invocations": len(rec.inv), "ticks": len(rec.ticks), "outcome": rec.outcome["kind"]}
        return r

    def oracle(self, spec, rec, r: CaseResult) -> None:
        raise NotImplementedError


def step_state_events(rec):
    """[(index, t, StepStateChanged)] from the exposed stream."""
    return [(i, t, e) for i, (t, e) in enumerate(rec.stream) if type(e).__name__ == "StepStateChanged"]
