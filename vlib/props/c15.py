"""C15 — the server's handler record always reflects the run outcome (outcomes x transient store write failures)."""

from __future__ import annotations

import asyncio
import json
import typing

from hypothesis import strategies as st

from .. import boot, genwf, srv
from ..boot import Runaway, VClock
from ..runner import CaseResult, Prop

ENDS = ["ok", "ok", "fail", "fail_retry", "nonevent", "policy_raises", "timeout", "cancel", "cancel", "fail_while_sibling_runs", "stop_while_sibling_runs"]


class C15(Prop):
    id = "C15"
    rule = (
        "cases = a small workflow run through the real WorkflowServer service layer whose end is generated: StopEvent, step failure "
        "without/with exhausted retries, a step returning a non-event, a retry policy object that raises (engine-side failure), workflow "
        "timeout, cancel_handler at a generated instant (before, during, after the work), failure or StopEvent while a sibling worker "
        "is still running; optionally a second run under the same handler id after the first ended; a generated pattern of transient "
        "store write failures (at most as many consecutive failures as the configured retry backoff tolerates) on update_handler_status, "
        "update and append_event. Oracle: at the virtual horizon the stored handler is terminal: completed with the run's result, failed "
        "with a non-empty error, or cancelled, matching how the run ended; the sequence of stored statuses of one run never goes from a "
        "terminal status back to running. Non-trivial = an outcome other than plain success, or at least one injected write failure."
    )
    assumptions = [
        "transient = at most len(persistence_backoff)=2 consecutive failures of one store method; permanent store outages are outside the statement",
        "the run's actual outcome is read from the inner runtime's result task; the handler row is read from the real store",
        "a cancel that arrives at the very instant the run ends may legitimately lose: the stored status must then match the run's own outcome",
    ]
    budgets = {"quick": 800, "thorough": 6000}
    wall = {"quick": 60.0, "thorough": 900.0}

    def setup(self):
        srv.M()

    def strategy(self, tier):
        plan = st.lists(st.sampled_from([0, 0, 0, 0, 1]), max_size=8).map(self._cap_consecutive)
        return st.fixed_dictionaries(
            {
                "end": st.sampled_from(ENDS),
                "d1": st.sampled_from([0, 0, 1, 2]),
                "d2": st.sampled_from([0, 0, 1, 3]),
                "sibling": st.sampled_from([2, 4]),
                "cancel_at": st.sampled_from([0, 0.5, 1, 1.5, 2.5, 4.5]),
                "timeout": st.sampled_from([0.5, 1.5, 2.5]),
                "again": st.sampled_from([None, None, "ok", "fail"]),
                "store": st.sampled_from(["memory", "memory", "sqlite"]),
                "fail_status": plan,
                "fail_update": st.one_of(plan, plan, st.just([1]), st.just([1, 1])),  # incl. "the very first record write fails"
                "fail_event": plan,
                "ties": st.lists(st.integers(0, 7), max_size=4),
                # the message of the exception a failing step raises: ordinary, EMPTY (raise RuntimeError() / a bare assert / an inner
                # asyncio timeout), or several lines
                "msg": st.sampled_from(["step b failed", "step b failed", "", "first line\nsecond line"]),
                # an extra external event (one no step accepts) sent through the service at a generated instant, typically the very
                # instant the run ends; its delivery runs in a fire-and-forget task and may land after the terminal write
                "extra": st.sampled_from([None, None, ["end", 0], ["end", 0], ["end", -0.5], ["at", 0], ["at", 1], ["at", 2.5], ["in_write", 0.125], ["in_write", 0.125]]),
                # ("in_write": the store's writes take a quarter of a virtual second, and the extra event is sent in the middle of the
                # run's terminal status write: accepted while the handler still reads 'running', delivered after the write landed)
                # a store with real I/O suspends inside its calls: generated numbers of event-loop yields before each store call
                "yields": st.sampled_from([[], [], [1], [0, 2], [2, 0, 1], [1, 3], [3, 1, 0, 2], [5, 0]]),
                # the pause before a failed store write is retried: none (fast), half a virtual second (a run can end meanwhile), or three
                # seconds (two retries then outlast the 5 s a cancellation waits for the run before it kills its task)
                "backoff": st.sampled_from([0.0, 0.0, 0.5, 0.5, 3.0]),
            }
        )

    @staticmethod
    def _cap_consecutive(xs):
        out, run = [], 0
        for x in xs:
            run = run + 1 if x else 0
            out.append(1 if x and run <= 2 else 0)
            if out[-1] == 0:
                run = 0
        return out

    def _factory(self, case, end, log):
        m = genwf.M()
        ge, step, Context, Workflow, rp = m["ge"], m["step"], m["Context"], m["Workflow"], m["rp"]

        class RaisingPolicy:
            def next(self, elapsed_time, attempts, error):  # noqa: ARG002
                raise RuntimeError("retry policy exploded")

        async def a(self, ctx, ev):
            if case["d1"]:
                await asyncio.sleep(case["d1"])
            if end in ("fail_while_sibling_runs", "stop_while_sibling_runs"):
                ctx.send_event(ge.E1(role="slow"))
                ctx.send_event(ge.E1(role="ender"))
                return None
            return ge.E1(role="only")

        async def b(self, ctx, ev):
            role = ev.get("role")
            if role == "slow":
                await asyncio.sleep(case["sibling"])
                return None
            if case["d2"]:
                await asyncio.sleep(case["d2"])
            if end in ("fail", "fail_retry", "policy_raises", "fail_while_sibling_runs"):
                raise ge.GenError(case.get("msg", "step b failed")) if case.get("msg", "x") else ge.GenError()
            if end == "nonevent":
                return 12345
            if end in ("timeout", "cancel"):
                await asyncio.sleep(50)
            return ge.GStop(result={"end": end, "n": log["n"]})

        def ann(fn, name, ev_t, ret_t):
            fn.__name__ = name
            fn.__qualname__ = f"C15Wf.{name}"
            fn.__annotations__ = {"ctx": Context, "ev": ev_t, "return": ret_t}
            return fn

        N = type(None)
        U = typing.Union
        pol = None
        if end == "fail_retry":
            pol = rp.retry_policy(wait=rp.wait_fixed(0), stop=rp.stop_after_attempt(2))
        elif end == "policy_raises":
            pol = RaisingPolicy()
        members = {
            "a": step(ann(a, "a", ge.GStart, U[ge.E1, N])),
            "b": step(num_workers=2, retry_policy=pol)(ann(b, "b", ge.E1, U[ge.GStop, N])),
        }
        cls = type("C15Wf", (Workflow,), members)
        return lambda: cls(timeout=case["timeout"] if end == "timeout" else None)

    def run_case(self, case):
        case = json.loads(json.dumps(case))
        r = CaseResult()
        ge = genwf.M()["ge"]
        m = srv.M()
        log = {"n": 0}
        obs: dict = {"runs": []}

        async def main():
            genwf.CUR = genwf.Rec({"ties": case["ties"], "ext": []})
            tmp = srv.tmp_root() if case["store"] == "sqlite" else None
            try:
                real = srv.make_store(case["store"], tmp)
                in_write = bool(case.get("extra")) and case["extra"][0] == "in_write"
                proxy = srv.StoreProxy(real, fail_plan={"update_handler_status": case["fail_status"], "update": case["fail_update"], "append_event": case["fail_event"]}, yields=case.get("yields") or None,
                                       latency={"read": 0.0, "write": 0.25} if in_write else 0.0)
                ends = [case["end"]] + ([case["again"]] if case["again"] else [])
                for n, end in enumerate(ends):
                    log["n"] = n
                    life = await srv.start_life(proxy, self._factory(case, end, log), backoff=(case.get("backoff", 0.0), case.get("backoff", 0.0)))
                    info = {"end": end, "start_error": None}
                    obs["runs"].append(info)
                    try:
                        hd = await life.server._service.start_workflow(life.wf, "h1", start_event=ge.GStart())
                    except Exception as e:  # noqa: BLE001
                        info["start_error"] = repr(e)[:160]
                        await srv.kill_life(life)
                        continue
                    info["run_id"] = hd.run_id
                    info["t0"] = VClock.t
                    inner = None
                    t0 = VClock.t
                    extra = case.get("extra")
                    if extra and n == 0 and extra[0] == "in_write":

                        def on_write(run_id, kw, life=life, info=info, delay=extra[1]):
                            if kw.get("status") in ("completed", "failed", "cancelled") and "extra_task" not in info and not info.get("extra_armed"):
                                info["extra_armed"] = True

                                async def send_in_write():
                                    await asyncio.sleep(delay)
                                    try:
                                        await life.server._service.send_event("h1", ge.E5(extra=True))
                                        info["extra_sent_at"] = VClock.t - t0
                                        info["extra_in_terminal_write"] = True
                                    except Exception as e:  # noqa: BLE001
                                        info["extra_rejected"] = repr(e)[:100]

                                info["extra_task"] = asyncio.create_task(send_in_write())

                        proxy.on_status_write_start = on_write
                    elif extra and n == 0:
                        nominal_end = case["d1"] + case["d2"]
                        at = max(0.0, nominal_end + extra[1]) if extra[0] == "end" else extra[1]

                        async def send_extra(at=at, life=life, info=info):
                            await asyncio.sleep(at)
                            try:
                                await life.server._service.send_event("h1", ge.E5(extra=True))
                                info["extra_sent_at"] = VClock.t - t0
                            except Exception as e:  # noqa: BLE001  (handler already terminal: rejected, fine)
                                info["extra_rejected"] = repr(e)[:100]

                        info["extra_task"] = asyncio.create_task(send_extra())
                    if end == "cancel":
                        await asyncio.sleep(case["cancel_at"])
                        info["cancel_at"] = VClock.t - t0
                        try:
                            info["cancel_ret"] = await life.server._service.cancel_handler("h1")
                        except Exception as e:  # noqa: BLE001
                            info["cancel_error"] = repr(e)[:160]
                    # wait for the inner run's task (the truth about how the run ended)
                    try:
                        inner = life.server._runtime._decorated._decorated._decorated  # Server -> IdleRelease -> Persistence -> SimRuntime
                        q = inner._queues.get(hd.run_id)
                    except Exception:  # noqa: BLE001
                        q = None
                    if q is not None:
                        await asyncio.wait({q.complete}, timeout=120)
                        tsk = q.complete
                        if not tsk.done():
                            info["truth"] = "unfinished"
                        elif tsk.cancelled():
                            info["truth"] = "task_cancelled"
                        else:
                            exc = tsk.exception()
                            info["truth"] = "result" if exc is None else type(exc).__name__
                            info["truth_result"] = getattr(tsk.result(), "result", None) if exc is None else None
                        info["ended_at"] = VClock.t - t0
                    else:
                        info["truth"] = "no_queues"
                    await asyncio.sleep(30)  # well beyond the write backoffs
                    xt = info.pop("extra_task", None)
                    if xt is not None:
                        await asyncio.wait({xt}, timeout=5)
                        if not xt.done():
                            xt.cancel()
                    row = await srv.handler_row(real, "h1")
                    info["row"] = {"status": row.status if row else None, "result": srv.result_of(row), "error": row.error if row else None, "run_id": row.run_id if row else None}
                    await srv.kill_life(life)
                obs["status_writes"] = list(proxy.status_writes)
                obs["write_spans"] = [dict(x) for x in proxy.__dict__.get("write_spans", [])]
                obs["injected"] = proxy.injected
            finally:
                srv.cleanup_tmp(tmp)
                genwf.CUR = None

        try:
            boot.run_virtual(main)
        except Runaway as e:
            r.v("runaway", detail=str(e)[:80])
            return r

        inj = obs.get("injected", 0)
        for n, info in enumerate(obs["runs"]):
            end = info["end"]
            attrs = dict(end=end, injected_write_failures=inj > 0, second_run=n > 0, store=case["store"])
            # WorkflowHandler.cancel_run() waits 5 s for the run and then cancels its task; the task is the control loop, and the
            # 'cancelled' status write and the event-log writes (with their latency and retry pauses) run inside it.  The signature of
            # that root cause: a user cancel, the run's task cancelled exactly 5 s after the cancel call, and at that very instant a
            # store write of the graceful shutdown was still in flight or waiting out its retry pause (a loop that simply hangs after a
            # cancel is also killed after 5 s, but with no store write under way)
            grace_cut = False
            if end == "cancel" and info.get("truth") == "task_cancelled" and info.get("ended_at") is not None and info.get("cancel_at") is not None \
                    and abs(info["ended_at"] - info["cancel_at"] - 5.0) < 0.01:
                T = info.get("t0", 0.0) + info["ended_at"]
                bo = case.get("backoff") or 0.0
                for sp in obs.get("write_spans", []):
                    if sp["t0"] <= T + 1e-9 and sp["t1"] is not None and sp["t1"] >= T - 1e-9 and sp["t1"] > sp["t0"]:
                        grace_cut = True  # in flight (a slow write)
                    if sp["ok"] is False and sp["t1"] is not None and sp["t1"] - 1e-9 <= T <= sp["t1"] + bo + 1e-9 and bo > 0:
                        grace_cut = True  # waiting out the pause before its retry
            if info.get("start_error"):
                # the initial handler row could not be written within the backoff budget: the run was never started; nothing to reflect
                r.classes.append("start_rejected")
                continue
            truth = info.get("truth")
            row = info.get("row") or {}
            status = row.get("status")
            if truth in ("unfinished", "no_queues"):
                r.v("run_did_not_end", truth=truth, **attrs)
                continue
            if status == "running" or status is None:
                r.v("handler_still_running_after_run_ended", truth=truth, status_write_retry_cut_by_cancel_grace=grace_cut, **attrs)
                if grace_cut:
                    r.classes.append("cancel_grace_expired_during_write_retry")
                continue
            want = {"result": "completed", "WorkflowCancelledByUser": "cancelled"}.get(truth, "failed")
            if truth == "task_cancelled":
                want = "cancelled"
            if status != want:
                r.v("stored_status_does_not_match_outcome", stored=status, truth=truth, **attrs)
            elif status == "completed" and srv.canon(row.get("result")) != srv.canon(info.get("truth_result")):
                r.v("stored_result_differs", **attrs)
            elif status == "failed" and not row.get("error"):
                r.v("failed_without_error", empty_exception_message=case.get("msg") == "", **attrs)
            if row.get("run_id") != info.get("run_id"):
                r.v("handler_row_points_to_other_run", **attrs)
        # monotonicity of the stored status per run
        seen_terminal: dict = {}
        for t, run_id, status in obs.get("status_writes", []):
            if status in ("completed", "failed", "cancelled"):
                seen_terminal[run_id] = status
            elif status == "running" and run_id in seen_terminal:
                r.v("terminal_status_reverted_to_running", was=seen_terminal[run_id], injected_write_failures=inj > 0)
        r.classes.append("end_" + case["end"])
        if inj:
            r.classes.append("injected_write_failure")
        if case["again"]:
            r.classes.append("second_run_same_handler")
        if case.get("msg") == "" and case["end"] in ("fail", "fail_retry", "policy_raises", "fail_while_sibling_runs"):
            r.classes.append("failure_with_empty_message")
        if case.get("backoff") and inj:
            r.classes.append("write_retried_after_a_pause")
        if (case.get("backoff") or 0) >= 3 and inj:
            r.classes.append("write_retried_after_a_long_pause")
        if any(i.get("extra_in_terminal_write") for i in obs["runs"]):
            r.classes.append("extra_event_accepted_during_terminal_write")
        if any("extra_sent_at" in i for i in obs["runs"]):
            r.classes.append("extra_event_accepted")
            if any("extra_sent_at" in i and i.get("ended_at") is not None and abs(i["extra_sent_at"] - i["ended_at"]) < 1e-6 for i in obs["runs"]):
                r.classes.append("extra_event_at_end_instant" + ("_suspending_store" if case.get("yields") else ""))
        r.nontrivial = case["end"] != "ok" or inj > 0
        r.sample = {"case": case, "runs": [{k: v for k, v in i.items() if k in ("end", "truth", "row", "ended_at", "cancel_at")} for i in obs["runs"]], "injected": inj}
        return r


PROP = C15
