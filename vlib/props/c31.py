"""C31 — timeout and cancellation stop the run cleanly and keep it resumable."""

from __future__ import annotations

import asyncio
import json

from hypothesis import strategies as st

from .. import boot, genwf
from ..boot import Runaway, VClock
from ..runner import CaseResult, Prop

EPS = 1e-5  # epoch-based float arithmetic in the engine (1.7e9 + t) has ~2.4e-7 s resolution


class C31(Prop):
    id = "C31"
    rule = (
        "cases = generated workflow programs (fan-out, num_workers 1..4, retries with delays, waiters, collectors, steps that may return "
        "a StopEvent or a non-event) with a workflow timeout T from {0.5..21} (half-integers, so that it falls strictly inside step bodies) and/or a cancel_run at a generated virtual instant (during a "
        "step, during a retry back-off, while idle, at the instant of a completion). Oracle: a run whose result task finished strictly "
        "before T is never timed out; a run still unfinished strictly after T has failed with WorkflowTimeoutError, exactly one "
        "WorkflowTimedOutEvent(timeout=T) was published at virtual time T and its active_steps contain every step strictly in flight at T "
        "and only steps in flight or starting/finishing exactly at T; cancel_run on a live run ends it with WorkflowCancelledByUser after "
        "a WorkflowCancelledEvent, no step body is entered at a later virtual time, ctx.to_dict() then succeeds, survives JSON, and a "
        "fresh workflow instance resumed from it runs to a result once the harness sends the finishing event (optionally the resumed run is cancelled in turn at a generated instant, serialized and resumed once more; or the instance it is resumed on has a run timeout of 0.75/2.25 s and the finishing event is held back: a resumed run that does not end by itself publishes exactly one WorkflowTimedOutEvent that long after the resume), re-entering every "
        "invocation that was queued or running. Non-trivial = the timeout or the cancel arrived while at least one step body was in flight "
        "or a retry back-off was pending."
    )
    assumptions = [
        "virtual time starts at 0 when the run starts, so the timeout is due at exactly T",
        "events at exactly the instant T (or the cancel instant) may legitimately go either way; only strict inequalities are asserted",
        "after a cancel the harness resumes with Context.from_dict on a fresh instance and ends the run with its finishing event",
    ]
    budgets = {"quick": 1500, "thorough": 8000}
    wall = {"quick": 60.0, "thorough": 900.0}

    def setup(self):
        genwf.M()

    def strategy(self, tier):
        base = genwf.program_strategy(retries=True, waits=True, collect=True, stop_mode="any", nonevent=True, cancel=False, timeouts=False)

        @st.composite
        def case(draw):
            spec = draw(base)
            for stp in spec["steps"]:
                if draw(st.integers(0, 3)) == 0:
                    stp["cancel_delay"] = draw(st.sampled_from([0.1, 0.3, 0.4]))
            mode = draw(st.sampled_from(["timeout", "timeout", "cancel", "cancel", "both", "rel_timeout", "rel_timeout", "rel_cancel"]))
            if mode.startswith("rel_"):
                # the instant is placed relative to an instant of the program's own undisturbed run (a step exit / StopEvent return),
                # found by a dry run inside run_case: pick-th such instant + offset
                spec["rel"] = {"what": mode[4:], "pick": draw(st.integers(0, 30)), "off": draw(st.sampled_from([-0.25, 0.0, 0.05, 0.25, 0.25, 0.35])), "prefer_stop": draw(st.booleans())}
            if mode in ("timeout", "both"):
                spec["timeout"] = draw(st.sampled_from([0.5, 1, 1.25, 1.5, 2, 2.25, 2.5, 3, 3.25, 3.5, 4.25, 4.5, 5, 5.25, 6.5, 8, 8.25, 10.5, 13, 21]))
            if mode in ("cancel", "both"):
                spec["ext"].append([draw(st.sampled_from([0, 0.5, 1, 1.5, 2, 2.5, 3, 3.5, 4.5, 5, 6.5, 8, 11.5, 15])), "cancel"])
            if mode in ("cancel", "both", "rel_cancel"):
                # the resumed run may be cancelled in turn (this many seconds after the resume), serialized and resumed once more
                spec["cancel2"] = draw(st.sampled_from([None, None, None, 0.25, 0.5, 1, 2, 3.5]))
                # the workflow instance the run is resumed on has a run timeout of its own (off the grid of every other instant); the
                # harness then holds its finishing event back, so a resumed run that does not end by itself must end by that timeout
                # (derived from values already drawn instead of a draw of its own, so that the stream of generated programs is the one
                # the stored sensitivity results were obtained on)
                k = (spec["rel"]["pick"] if "rel" in spec else int(round(2 * spec["ext"][-1][0]))) + len(spec["steps"])
                spec["resume_timeout"] = [None, None, None, 0.75, 2.25][k % 5] if spec["cancel2"] is None else None
            return spec

        return case()

    def run_case(self, case):
        spec = json.loads(json.dumps(case))
        spec["ext"].append([genwf.fin_time(spec), "send", "Fin", None, {}])
        r = CaseResult()
        rel = spec.pop("rel", None)
        if rel is not None:
            dry = json.loads(json.dumps(spec))
            try:
                drec = genwf.run_case_program(dry, probe=False)
            except Runaway as e:
                raise RuntimeError(f"inconclusive dry run: {e}") from None
            stops = sorted({i["t_out"] for i in drec.inv if i.get("out_type") == "GStop" and i["exit"] == "returned" and i["step"] != "fin"})
            exits = sorted({i["t_out"] for i in drec.inv if i["t_out"] is not None and i["step"] != "fin"})
            cand = stops if (rel["prefer_stop"] and stops) else exits
            if cand:
                at = max(0.05, cand[rel["pick"] % len(cand)] + rel["off"])
                if rel["what"] == "timeout":
                    spec["timeout"] = at
                else:
                    spec["ext"].append([at, "cancel"])
                r.classes.append("relative_" + rel["what"])
        rec = genwf.Rec(spec)
        life2: dict = {}

        async def main():
            await genwf.run_program(spec, rec, probe=True)
            if rec.outcome["kind"] != "cancelled":
                return
            # ---- resume after the cancellation
            m = genwf.M()
            try:
                d = rec.handler.ctx.to_dict()
            except Exception as e:  # noqa: BLE001
                life2["to_dict_error"] = repr(e)[:160]
                return
            try:
                d = json.loads(json.dumps(d))
            except Exception as e:  # noqa: BLE001
                life2["json_error"] = repr(e)[:160]
                return
            life2["snapshot"] = d
            life2["stream_mark"] = len(rec.stream)
            rec.segment += 1
            n_inv0 = len(rec.inv)
            spec2 = dict(spec, timeout=None)
            settle = genwf.fin_time(spec)

            T2 = spec.get("resume_timeout")

            async def resume_life(snapshot, info, cancel_after=None):
                try:
                    wf = genwf.build_workflow(dict(spec2, timeout=T2) if (T2 and info is life2) else spec2, runtime=genwf.make_runtime())
                    ctx2 = m["Context"].from_dict(wf, snapshot)
                    handler = wf.run(ctx=ctx2)
                except Exception as e:  # noqa: BLE001
                    info["resume_error"] = repr(e)[:160]
                    return None
                rec.handler = handler
                consumer = asyncio.create_task(genwf.consume_stream(rec, handler))
                info["t0"] = VClock.t
                if cancel_after is not None:
                    await asyncio.wait({handler._result_task}, timeout=cancel_after)
                    if not handler._result_task.done():
                        info["cancel2_at"] = VClock.t
                        await handler.cancel_run(timeout=1e9)
                else:
                    if T2 and info is life2:
                        await asyncio.wait({handler._result_task}, timeout=T2 + 0.5)
                        if handler._result_task.done():
                            info["ended_at"] = VClock.t
                        else:
                            info["timeout_missed"] = True
                    await asyncio.wait({handler._result_task}, timeout=settle)
                    if not handler._result_task.done():
                        try:
                            handler.ctx.send_event(rec.mk("Fin", "ext"))
                        except Exception as e:  # noqa: BLE001
                            info["fin_rejected"] = repr(e)[:120]
                        await asyncio.wait({handler._result_task}, timeout=settle)
                info["outcome"] = genwf.classify_outcome(rec, handler)
                await asyncio.wait({consumer}, timeout=5.0)
                if not consumer.done():
                    consumer.cancel()
                if not handler._result_task.done():
                    try:
                        handler._external_adapter.abort()
                    except Exception:  # noqa: BLE001
                        pass
                await asyncio.gather(consumer, handler._result_task, return_exceptions=True)
                return handler

            h2 = await resume_life(d, life2, cancel_after=spec.get("cancel2"))
            life2["inv"] = rec.inv[n_inv0:]
            if h2 is None or "cancel2_at" not in life2:
                if h2 is not None and spec.get("cancel2") is not None and life2["outcome"]["kind"] == "unfinished":
                    pass
                return
            if life2["outcome"]["kind"] != "cancelled":
                return
            # ---- the resumed run was cancelled in turn: serialize and resume once more
            life3: dict = {}
            life2["life3"] = life3
            try:
                d3 = json.loads(json.dumps(h2.ctx.to_dict()))
            except Exception as e:  # noqa: BLE001
                life3["to_dict_error"] = repr(e)[:160]
                return
            rec.segment += 1
            await resume_life(d3, life3)

        try:
            boot.run_virtual(main)
        except Runaway as e:
            raise RuntimeError(f"inconclusive: {e}") from None
        finally:
            genwf.CUR = None

        T = spec.get("timeout")
        cancels = [n["cancel_at"] for n in rec.notes if "cancel_at" in n]
        tc = cancels[0] if cancels else None
        kind = rec.outcome["kind"]
        t_res = rec.t_result
        inv0 = [i for i in rec.inv if i["seg"] == 0]
        stream0 = rec.stream[: getattr(rec, "_unused", len(rec.stream))]

        def in_flight_at(t, strict=True):
            out = set()
            for i in inv0:
                t_out = i["t_out"] if i["t_out"] is not None else float("inf")
                if i["exit"] in ("cancelled", "aborted") and t_out >= t - EPS:
                    t_out = float("inf")  # the body was still running when the run was torn down at t
                if strict and i["t_in"] < t < t_out:
                    out.add(i["step"])
                if not strict and i["t_in"] <= t <= t_out:
                    out.add(i["step"])
            return out

        def backoff_at(t):
            # a retry is pending at t: some invocation raised before t and its retry entered after t
            for i in inv0:
                if i["exit"] == "raised" and i["t_out"] is not None and i["t_out"] < t:
                    later = [j for j in inv0 if j["step"] == i["step"] and j["uid"] == i["uid"] and j["attempt"] == i["attempt"] + 1]
                    if (later and later[0]["t_in"] > t) or (not later and self._retry_wait(spec, i["step"]) and i["t_out"] + self._retry_wait(spec, i["step"]) > t):
                        return True
            return False

        mark = life2.get("stream_mark", len(rec.stream))
        timed = [(t, e) for t, e in rec.stream[:mark] if type(e).__name__ == "WorkflowTimedOutEvent"]  # the first life's own stream
        timed2 = [(t, e) for t, e in rec.stream[mark:] if type(e).__name__ == "WorkflowTimedOutEvent"]  # the resumed run's
        cancelled_ev = [(t, e) for t, e in rec.stream[:mark] if type(e).__name__ == "WorkflowCancelledEvent"]
        cancelled_ev2 = [(t, e) for t, e in rec.stream[mark:] if type(e).__name__ == "WorkflowCancelledEvent"]
        # ------------------------------------------------------------ timeout clauses
        first_end = min([x for x in (T, tc) if x is not None], default=None)
        stops = [i["t_out"] for i in inv0 if i.get("out_type") == "GStop" and i["exit"] == "returned"]
        t_stop = min(stops) if stops else None
        if kind == "timeout" and T is not None and t_stop is not None and t_stop < T - EPS and (tc is None or tc > t_stop):
            r.v("timed_out_although_stop_event_was_returned_before_deadline", stop_at=t_stop, timeout=T)
        if kind == "timeout":
            if T is None:
                r.v("timeout_without_timeout_configured")
            else:
                if t_res is not None and t_res < T - EPS:
                    r.v("timed_out_before_deadline", at=t_res, timeout=T)
                if len(timed) != 1:
                    r.v("timed_out_event_count", n=len(timed))
                else:
                    t_ev, ev = timed[0]
                    if abs(t_ev - T) > EPS:
                        r.v("timed_out_event_at_wrong_time", at=t_ev, timeout=T)
                    if ev.timeout != T:
                        r.v("timed_out_event_wrong_timeout_field", got=ev.timeout, timeout=T)
                    must = in_flight_at(T, strict=True)
                    may = in_flight_at(T, strict=False)
                    act = set(ev.active_steps)
                    if not must <= act:
                        r.v("active_steps_missing_running_step", missing=sorted(must - act))
                    if not act <= may:
                        r.v("active_steps_names_idle_step", extra=sorted(act - may))
                if "timed out" not in str(rec.outcome["exc"]).lower():
                    r.v("timeout_error_message", msg=str(rec.outcome["exc"])[:80])
        else:
            if timed:
                r.v("timed_out_event_without_timeout_outcome", outcome=kind)
            if T is not None and (tc is None or tc > T + EPS):
                # nothing else could end it: was it still unfinished strictly after T?
                # worker teardown after the terminal cause may take up to the engine's 0.5 s grace
                if t_res is None or (t_res > T + 0.5 + EPS) or (t_res > T + EPS and not any(s_.get("cancel_delay") for s_ in spec["steps"])):
                    r.v("unfinished_after_timeout_but_not_timed_out", outcome=kind, finished_at=t_res, timeout=T)
        # ------------------------------------------------------------ cancel clauses
        live_at_cancel = tc is not None and (t_res is None or t_res > tc - EPS) and (T is None or T > tc + EPS or kind == "cancelled")
        if kind == "cancelled":
            if tc is None:
                r.v("cancelled_without_cancel")
            if len(cancelled_ev) != 1:
                r.v("cancelled_event_count", n=len(cancelled_ev))
            late = [i for i in inv0 if tc is not None and i["t_in"] > tc + EPS]
            if late:
                r.v("step_entered_after_cancel", step=late[0]["step"], at=late[0]["t_in"], cancel_at=tc)
            if "to_dict_error" in life2:
                r.v("to_dict_failed_after_cancel", error=life2["to_dict_error"])
            elif "json_error" in life2:
                r.v("snapshot_not_json_after_cancel", error=life2["json_error"])
            elif "resume_error" in life2:
                r.v("resume_failed_after_cancel", error=life2["resume_error"])
            else:
                o2 = life2.get("outcome", {"kind": "missing"})
                pend_backoff = backoff_at(tc) if tc is not None else False
                if "cancel2_at" in life2:
                    # the resumed run was cancelled again: same obligations for that cancel
                    r.classes.append("resumed_run_cancelled_again")
                    life3 = life2.get("life3")
                    failing = self._may_fail(spec)
                    if o2["kind"] != "cancelled":
                        if not (o2["kind"] in ("result", "failed")):  # the run may legitimately have ended at the cancel instant
                            r.v("cancel_ignored", outcome=o2["kind"], second_cancel=True)
                    elif len(cancelled_ev2) != 1:
                        r.v("cancelled_event_count", n=len(cancelled_ev2), second_cancel=True)
                    elif "to_dict_error" in life3:
                        r.v("to_dict_failed_after_cancel", error=life3["to_dict_error"], second_cancel=True)
                    elif "resume_error" in life3:
                        r.v("resume_failed_after_cancel", error=life3["resume_error"], second_cancel=True)
                    else:
                        o3 = life3.get("outcome", {"kind": "missing"})
                        if o3["kind"] != "result" and not (o3["kind"] == "failed" and failing):
                            r.v("resumed_after_cancel_did_not_complete", outcome=o3["kind"], exc=repr(o3.get("exc"))[:100], second_cancel=True)
                        elif o3["kind"] == "result":
                            r.classes.append("resumed_twice_to_result")
                elif spec.get("resume_timeout") and life2.get("timeout_missed"):
                    r.v("resumed_run_not_timed_out", wf_timeout=spec["resume_timeout"], outcome_after_finishing_event=o2["kind"])
                elif spec.get("resume_timeout") and o2["kind"] == "timeout":
                    r.classes.append("resumed_run_ended_by_its_timeout")
                    if len(timed2) != 1:
                        r.v("timed_out_event_count", n=len(timed2), resumed_run=True)
                    elif abs(timed2[0][0] - life2["t0"] - spec["resume_timeout"]) > 1e-4:
                        # (the instant of the WorkflowTimedOutEvent, as for the first life: the task itself ends after the teardown)
                        r.v("resumed_run_timed_out_at_wrong_instant", wf_timeout=spec["resume_timeout"], after=round(timed2[0][0] - life2["t0"], 4))
                elif o2["kind"] != "result":
                    failing = self._may_fail(spec)
                    if not (o2["kind"] == "failed" and failing):
                        r.v("resumed_after_cancel_did_not_complete", outcome=o2["kind"], exc=repr(o2.get("exc"))[:100], retry_backoff_pending=pend_backoff)
                # resuming continues the run; it does not start it over
                # (a re-delivery of the ORIGINAL start event - pending waiter, retry, in-flight start step - is legitimate;
                #  a start event the harness never created means the workflow was started over with a fresh StartEvent)
                start_uids = {e["uid"] for e in rec.emits.values() if e["via"] == "start"}
                again = [i for i in life2.get("inv", []) if i["type"] == "GStart" and i["uid"] not in start_uids]
                if again:
                    r.v("run_restarted_from_start_event_after_resume")
                # every invocation queued or running at the cancel is entered again
                snap = life2.get("snapshot", {})
                want = set()
                for name, w in snap.get("workers", {}).items():
                    for raw in w.get("in_progress", []):
                        want.add((name, self._uid(raw)))
                    for q in w.get("queue", []):
                        want.add((name, self._uid(q.get("event"))))
                # ground truth from the body log: bodies that were torn down by the cancel itself
                for i in inv0:
                    if i["exit"] == "cancelled" and tc is not None and i["t_out"] is not None and i["t_out"] >= tc - EPS:
                        want.add((i["step"], i["uid"]))
                got = {(i["step"], i["uid"]) for i in life2.get("inv", [])}
                missing = sorted(x for x in want if x[1] is not None and x not in got)
                if missing and o2["kind"] == "result":
                    stopped_early = any(i.get("out_type") == "GStop" and i["step"] != "fin" for i in life2.get("inv", []))
                    if not stopped_early:
                        r.v("pending_invocation_not_reentered_after_resume", n=len(missing))
        else:
            if cancelled_ev:
                r.v("cancelled_event_without_cancelled_outcome", outcome=kind)
            slow = any(s_.get("cancel_delay") for s_ in spec["steps"])
            grace = 0.5 if slow else 0.0  # teardown after a terminal cause at or before the cancel instant may still be running
            if live_at_cancel and tc is not None and (t_res is None or t_res > tc + grace + EPS) and (T is None or T > tc + EPS):
                r.v("cancel_ignored", outcome=kind, cancel_at=tc, finished_at=t_res)
        # ------------------------------------------------------------ classes
        hit_t = first_end
        busy = False
        if kind == "timeout" and T is not None:
            busy = bool(in_flight_at(T)) or backoff_at(T)
            r.classes.append("timeout_while_busy" if busy else "timeout_while_idle")
        if kind == "cancelled" and tc is not None:
            busy = bool(in_flight_at(tc)) or backoff_at(tc)
            r.classes.append("cancel_while_busy" if busy else "cancel_while_idle")
            if backoff_at(tc):
                r.classes.append("cancel_during_backoff")
            if life2.get("outcome", {}).get("kind") == "result":
                r.classes.append("resumed_to_result")
        r.classes.append("outcome_" + kind)
        _ = (hit_t, stream0)
        r.nontrivial = busy
        r.sample = {"spec": case, "outcome": kind, "timeout": T, "cancel_at": tc, "finished_at": t_res}
        return r

    @staticmethod
    def _uid(raw):
        try:
            return json.loads(raw)["value"]["_data"].get("uid")
        except Exception:  # noqa: BLE001
            return None

    @staticmethod
    def _retry_wait(spec, step):
        for s in spec["steps"]:
            if s["name"] == step:
                return (s.get("retry") or {}).get("w", 0)
        return 0

    @staticmethod
    def _may_fail(spec):
        """Can the program legitimately fail on its own (non-event return or exhausted retries)?"""
        for s in spec["steps"]:
            for acts in s["acts"].values():
                for a in acts:
                    if a[0] == "ret" and a[1] == "nonevent":
                        return True
                    if a[0] == "fail":
                        n = (s.get("retry") or {}).get("n", 1)
                        if a[1] is None or a[1] >= n:
                            return True
                    if a[0] == "wait" and a[6] == "raise":
                        return True
        return False


PROP = C31
