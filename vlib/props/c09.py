"""C09 — collect_events returns each full set once, ordered, without losing or double-counting events."""

from __future__ import annotations

import asyncio
import json
import typing

from hypothesis import strategies as st

from .. import genwf
from ..boot import Runaway, VClock
from ..runner import CaseResult, Prop

TYPES = ["E1", "E2", "E3"]


class C09(Prop):
    id = "C09"
    rule = (
        "cases = a collecting step (num_workers 1..4, expected list of 2-4 types with repeats, default or named buffer, optional "
        "yields before and virtual work after the collect_events call, optional fail-once-then-retry after a completed collection, optional suspension in ctx.wait_for_event after a completed collection -- answered later by the harness or left to its timeout -- so that the step is replayed from the top) fed "
        "by producer invocations whose virtual durations fix the arrival order (many equal, so several collecting invocations overlap); in one case of three the collected events of a type are equal-valued (no distinguishing field; the harness tracks object identity). "
        "Mode 'exact': R rounds, round j+1 is emitted only after round j's list was returned, each round is exactly the expected "
        "multiset (no type ever in surplus): every clause incl. completeness (exactly R lists, every arrived event in exactly one). "
        "Mode 'stream': free-running arrivals (several multisets, optionally surplus members): well-formedness, membership and "
        "at-most-one-list-per-event, and -- with one worker, where the documented buffering can be replayed exactly in delivery order -- at least as many lists as that replay completes (a surplus event must not keep a complete set from being returned). Non-trivial = the stale-snapshot re-run path ran (an event entered the collecting step twice "
        "within one attempt) or two collecting invocations overlapped in virtual time."
    )
    assumptions = [
        "arrival orders are generated as virtual producer durations + tie-break choices on the deterministic virtual-time loop",
        "completeness (nothing lost) is asserted only for exact-fit rounds: a type that is in surplus w.r.t. the expected list is dropped by design and the statement does not promise to keep it",
        "a retry of the same input event that returns the same list is the same collection, not a second one",
    ]
    budgets = {"quick": 1500, "thorough": 8000}
    wall = {"quick": 60.0, "thorough": 900.0}

    def setup(self):
        genwf.M()

    def strategy(self, tier):
        @st.composite
        def case(draw):
            k = draw(st.integers(2, 4))
            expected = draw(st.lists(st.sampled_from(TYPES), min_size=k, max_size=k))
            mode = draw(st.sampled_from(["exact", "exact", "stream"]))
            delays = st.sampled_from([0, 0, 0, 1, 1, 2, 3])
            rounds = []
            if mode == "exact":
                for _ in range(draw(st.integers(1, 3))):
                    perm = draw(st.permutations(expected))
                    rounds.append([[t, draw(delays)] for t in perm])
            else:
                m = draw(st.integers(1, 3))
                pool = list(expected) * m
                if draw(st.booleans()):
                    pool += draw(st.lists(st.sampled_from(sorted(set(expected))), min_size=1, max_size=3))
                perm = draw(st.permutations(pool))
                rounds.append([[t, draw(st.sampled_from([0, 0, 1, 1, 2, 3, 4, 5]))] for t in perm])
            return {
                "mode": mode,
                "expected": expected,
                "buffer": draw(st.sampled_from([None, None, "buf"])),
                "workers": draw(st.integers(1, 4)),
                "rounds": rounds,
                "pre_yields": draw(st.sampled_from([0, 0, 0, 1, 2])),
                "post": draw(st.sampled_from([0, 0, 0, 1, 2])),
                "fail_once": mode == "exact" and draw(st.integers(0, 4)) == 0,
                # after its list was returned the same invocation suspends in ctx.wait_for_event (an approval): answered by the harness
                # d seconds later, or left to its timeout; the step is then replayed from the top and must see the same list again
                "wait_after": draw(st.sampled_from([None, None, None, ["reply", 0.5], ["reply", 2], ["timeout", 1], ["timeout", 3]])) if mode == "exact" else None,
                # while its set is incomplete the collecting step returns a progress event (handled by a sink step) instead of None
                "ack_incomplete": draw(st.sampled_from([False, False, True])),
                "equal_payloads": draw(st.integers(0, 2)) == 0,
                "retry_wait": draw(st.sampled_from([0, 0, 1, 2])),
                "ties": draw(st.lists(st.integers(0, 7), max_size=10)),
            }

        return case()

    # ------------------------------------------------------------------ workflow
    def _factory(self, case, rec, log):
        m = genwf.M()
        ge, step, Context, Workflow, rp = m["ge"], m["step"], m["Context"], m["Workflow"], m["rp"]
        expected = [ge.POOL[t] for t in case["expected"]]
        accepted = tuple(ge.POOL[t] for t in sorted(set(case["expected"])))
        rounds = case["rounds"]

        keep: list = []
        ident: dict = {}
        log["ident"] = ident

        def uid_of(e):
            u = e.get("uid", None)
            return u if u is not None else ident.get(id(e))

        def emit_round(ctx, j):
            for idx, (t, d) in enumerate(rounds[j]):
                ctx.send_event(rec.mk("E0", "send", kind=t, delay=d, round=j, idx=idx))

        async def start(self, ctx, ev):
            emit_round(ctx, 0)
            return None

        async def prod(self, ctx, ev):
            if ev.get("delay"):
                await asyncio.sleep(ev.get("delay"))
            if case.get("equal_payloads"):
                # equal-valued events: no distinguishing field at all; identity is tracked out of band by the harness
                e = ge.POOL[ev.get("kind")](round=ev.get("round") if case["mode"] == "exact" else 0)
                keep.append(e)
                ident[id(e)] = -len(keep)
            else:
                e = rec.mk(ev.get("kind"), "ret", round=ev.get("round"))
            log["arrivals"].append({"uid": uid_of(e), "type": ev.get("kind"), "round": ev.get("round"), "t": VClock.t})
            return e

        async def col(self, ctx, ev):
            ri = ctx.retry_info()
            inv = {"uid": uid_of(ev), "type": type(ev).__name__, "attempt": ri.retry_number, "t_in": VClock.t, "s_in": rec.nseq(), "t_out": None, "got": "unset"}
            log["col"].append(inv)
            try:
                for _ in range(case["pre_yields"]):
                    await asyncio.sleep(0)
                got = ctx.collect_events(ev, expected, case["buffer"])
                if got is None:
                    inv["got"] = None
                    if case.get("ack_incomplete"):
                        return ge.E5(progress=True)
                    return None
                inv["got"] = [(type(e).__name__, uid_of(e)) for e in got]
                wa = case.get("wait_after")
                if wa:
                    wid = f"approve-{uid_of(ev)}"
                    if not any(w["wid"] == wid for w in log["waiting"]):
                        log["waiting"].append({"wid": wid, "t": VClock.t, "answered": False})
                    try:
                        await ctx.wait_for_event(ge.Reply, waiter_id=wid, requirements={"wid": wid}, timeout=wa[1] if wa[0] == "timeout" else None)
                        inv["approved"] = "reply"
                    except asyncio.TimeoutError:
                        inv["approved"] = "timeout"
                if case["post"]:
                    await asyncio.sleep(case["post"])
                if case["fail_once"] and ri.retry_number == 0:
                    raise ge.GenError("after-collect")
                inv["returned"] = True
                return rec.mk("E4", "ret", round=ev.get("round"))
            except BaseException as e:  # noqa: BLE001
                inv["exc"] = type(e).__name__
                raise
            finally:
                inv["t_out"], inv["s_out"] = VClock.t, rec.nseq()

        async def nxt(self, ctx, ev):
            j = ev.get("round")
            if case["mode"] == "exact" and j is not None and j + 1 < len(rounds):
                emit_round(ctx, j + 1)
            return None

        async def fin(self, ctx, ev):
            return rec.mk("GStop", "ret", result="done")

        async def sink(self, ctx, ev):
            return None

        def ann(fn, name, ev_t, ret_t):
            fn.__name__ = name
            fn.__qualname__ = f"C09Wf.{name}"
            fn.__annotations__ = {"ctx": Context, "ev": ev_t, "return": ret_t}
            return fn

        N = type(None)
        U = typing.Union
        members = {
            "start": step(ann(start, "start", ge.GStart, U[ge.E0, N])),
            "prod": step(num_workers=8)(ann(prod, "prod", ge.E0, U[accepted + (N,)])),
            "col": step(
                num_workers=case["workers"],
                retry_policy=rp.retry_policy(wait=rp.wait_fixed(case["retry_wait"]), stop=rp.stop_after_attempt(2)) if case["fail_once"] else None,
            )(ann(col, "col", U[accepted] if len(accepted) > 1 else accepted[0], U[ge.E4, ge.E5, N] if case.get("ack_incomplete") else U[ge.E4, N])),
            **({"sink": step(num_workers=4)(ann(sink, "sink", ge.E5, N))} if case.get("ack_incomplete") else {}),
            "nxt": step(ann(nxt, "nxt", ge.E4, U[ge.E0, ge.GStop, N])),
            "fin": step(ann(fin, "fin", ge.Fin, ge.GStop)),
        }
        cls = type("C09Wf", (Workflow,), members)

        def factory(spec, runtime):
            return cls(timeout=None, runtime=runtime)

        return factory

    # ------------------------------------------------------------------ run + oracle
    def run_case(self, case):
        case = json.loads(json.dumps(case))
        r = CaseResult()
        log = {"arrivals": [], "col": [], "waiting": []}
        wa = case.get("wait_after")
        tot = sum(d for rd in case["rounds"] for _, d in rd) + (case["post"] + case["retry_wait"] + 1 + (wa[1] + 1 if wa else 0)) * (sum(len(rd) for rd in case["rounds"]) + 2)
        fin_at = 20.0 + 3 * tot
        spec = {"steps": [], "ext": [[fin_at, "send", "Fin", None, {}]], "ties": case["ties"], "timeout": None}
        rec = genwf.Rec(spec)

        async def approver():
            # the human: answers every approval request wa[1] seconds after it was first made
            ge = genwf.M()["ge"]
            while True:
                await asyncio.sleep(0.25)
                for w in log["waiting"]:
                    if not w["answered"] and VClock.t >= w["t"] + wa[1] - 1e-9 and getattr(rec, "handler", None) is not None:
                        w["answered"] = True
                        try:
                            rec.handler.ctx.send_event(ge.Reply(wid=w["wid"]))
                        except Exception:  # noqa: BLE001  (run already over)
                            pass

        async def main():
            ap = asyncio.create_task(approver()) if wa and wa[0] == "reply" else None
            try:
                return await genwf.run_program(spec, rec, wf_factory=self._factory(case, rec, log), horizon=fin_at * 4 + 100, probe=False)
            finally:
                if ap is not None:
                    ap.cancel()
                    await asyncio.gather(ap, return_exceptions=True)

        try:
            from .. import boot

            boot.run_virtual(main)
        except Runaway as e:
            r.v("runaway", detail=str(e)[:80])
            return r
        finally:
            genwf.CUR = None

        if rec.outcome["kind"] != "result":
            r.v("unexpected_outcome", outcome=rec.outcome["kind"], exc=repr(rec.outcome.get("exc"))[:120])
        expected = case["expected"]
        delivered_at = {}
        for inv in log["col"]:
            delivered_at.setdefault(inv["uid"], inv["s_in"])
        # distinct completions: keyed by the completing input event; identical list on retry = same collection
        completions: dict = {}
        comp_inv: dict = {}
        for inv in log["col"]:
            got = inv["got"]
            if got is None or got == "unset":
                continue
            types = [t for t, _ in got]
            if types != expected:
                r.v("list_not_expected_shape", got=types, expected=expected)
            uids = [u for _, u in got]
            if len(set(uids)) != len(uids):
                r.v("event_twice_in_one_list", mode=case["mode"])
            if inv["uid"] not in uids:
                r.v("completing_event_not_in_list")
            for u in uids:
                if u not in delivered_at or delivered_at[u] > inv["s_out"]:
                    r.v("member_never_received", uid=u)
            key = inv["uid"]
            prev = completions.get(key)
            if prev is not None and prev != got:
                r.v("retry_returned_different_list", mode=case["mode"])
                key = (inv["uid"], inv["attempt"])
            completions[key] = got
            comp_inv.setdefault(key, inv)
        seen: dict = {}
        for key, got in completions.items():
            for _, u in got:
                if u in seen and seen[u] != key:
                    a, b = comp_inv[seen[u]], comp_inv[key]
                    # did the two completing invocations overlap (or touch at one virtual instant)?
                    overlapping = b["s_in"] < a["s_out"] or b["t_in"] <= a["t_out"]
                    r.v("event_in_two_lists", mode=case["mode"], overlapping_completions=overlapping, workers_gt1=case["workers"] > 1)
                seen[u] = key
        if case["mode"] == "stream" and case["workers"] == 1 and rec.outcome["kind"] == "result":
            # one worker = collector invocations strictly one after another, in delivery order: the documented buffering can be
            # replayed exactly (an event of a type whose quota in the current set is already filled is not kept).  Whatever is done
            # with such surplus events, at least the sets this replay completes must have been returned.
            from collections import Counter

            need = Counter(expected)
            buf: Counter = Counter()
            model_lists = 0
            seen_uids = set()
            for inv in log["col"]:
                if inv["uid"] in seen_uids:
                    continue
                seen_uids.add(inv["uid"])
                t = inv["type"]
                if buf[t] < need[t]:
                    buf[t] += 1
                    if buf == need:
                        model_lists += 1
                        buf = Counter()
            if len(completions) < model_lists:
                r.v("complete_set_never_returned", lists=len(completions), reference=model_lists, mode="stream", workers=1,
                    surplus_arrived=len(seen_uids) > model_lists * len(expected))
            if model_lists >= 1 and len(seen_uids) > model_lists * len(expected):
                r.classes.append("surplus_event_while_set_incomplete")
        if case["mode"] == "exact":
            R = len(case["rounds"])
            if len(completions) != R:
                r.v("wrong_number_of_lists", lists=len(completions), rounds=R, workers=case["workers"])
            arrived = {a["uid"] for a in log["arrivals"]}
            if len(arrived) != R * len(expected):
                r.v("producer_count_mismatch", arrived=len(arrived))
            lost = arrived - set(seen)
            if lost and len(completions) == R:
                r.v("arrived_event_in_no_list", n=len(lost))
            # a collection that was returned to the step is not taken back: the invocation that got it finishes with it
            delivered = {inv["uid"] for inv in log["col"] if inv.get("returned")}
            for key in completions:
                k0 = key[0] if isinstance(key, tuple) else key
                if k0 not in delivered:
                    r.v("collected_set_lost_before_step_finished", suspended_in_wait=bool(wa), mode=case["mode"])
                    break
        # classes / non-triviality
        per = {}
        for inv in log["col"]:
            per[(inv["uid"], inv["attempt"])] = per.get((inv["uid"], inv["attempt"]), 0) + 1
        rerun = any(v > 1 for v in per.values())
        ivs = sorted((inv["s_in"], inv["s_out"]) for inv in log["col"] if inv.get("s_out") is not None)
        overlap = any(ivs[i + 1][0] < ivs[i][1] for i in range(len(ivs) - 1))
        if rerun:
            r.classes.append("stale_snapshot_rerun")
        if overlap:
            r.classes.append("overlapping_collectors")
        r.classes.append("mode_" + case["mode"])
        if case["fail_once"]:
            r.classes.append("fail_once")
        if case.get("ack_incomplete"):
            r.classes.append("progress_event_while_incomplete")
        if wa and any(inv.get("approved") for inv in log["col"]):
            r.classes.append("suspended_after_collect_" + wa[0])
        if case.get("equal_payloads"):
            r.classes.append("equal_payloads")
        if len(completions) >= 2:
            r.classes.append("lists_ge_2")
        r.nontrivial = rerun or overlap
        r.sample = {"case": case, "lists": len(completions), "collector_invocations": len(log["col"])}
        return r

PROP = C09
