"""C23 — Workflow validation accepts exactly the well-formed graphs (differential vs a reference validator)."""

from __future__ import annotations

import typing

from hypothesis import strategies as st

from ..runner import CaseResult, Prop

EVENT_NAMES = ["GStart", "StartEvent", "GStop", "StopEvent", "E0", "E1", "E2", "E3", "Ask", "InputRequiredEvent", "Reply", "HumanResponseEvent"]


class C23(Prop):
    id = "C23"
    rule = (
        "cases = arbitrary step sets (1-6 steps) over an event pool with two StartEvent types, two StopEvent types, plain events, "
        "InputRequiredEvent/HumanResponseEvent and subclasses, plus @catch_error handlers with generated for_steps (incl. unknown, "
        "overlapping, handler-covers-handler) and budgets, per-step and workflow-level skip_graph_checks; half of the cases are "
        "perturbations of a valid chain so that accept and reject are both frequent. Non-trivial = rejected by exactly one rule of the "
        "reference, or accepted with a handler / HITL event / skip."
    )
    assumptions = [
        "reference validator written from the property statement and the validate() docstring (set-based connectivity, handler consistency, forward/reverse reachability with skip rules); only accept/reject and the HITL flag are compared, not messages",
    ]
    budgets = {"quick": 2500, "thorough": 20000}
    wall = {"quick": 70.0, "thorough": 900.0}

    def setup(self):
        from .. import genwf

        self.m = genwf.M()
        ge, wev = self.m["ge"], self.m["wev"]
        self.E = {
            "GStart": ge.GStart, "StartEvent": wev.StartEvent, "GStop": ge.GStop, "StopEvent": wev.StopEvent,
            "E0": ge.E0, "E1": ge.E1, "E2": ge.E2, "E3": ge.E3, "Ask": ge.Ask, "InputRequiredEvent": wev.InputRequiredEvent,
            "Reply": ge.Reply, "HumanResponseEvent": wev.HumanResponseEvent, "StepFailedEvent": wev.StepFailedEvent,
        }

    def strategy(self, tier):
        names = ["s0", "s1", "s2", "s3", "s4", "s5"]
        ev_in = st.sampled_from(["GStart", "GStart", "StartEvent", "E0", "E1", "E2", "E3", "Reply", "HumanResponseEvent", "GStop", "StopEvent", "Ask"])
        ev_out = st.sampled_from(["GStop", "GStop", "StopEvent", "E0", "E1", "E2", "E3", "Ask", "InputRequiredEvent", "Reply", "GStart"])
        skip = st.lists(st.sampled_from(["reachability", "dead_end"]), max_size=1)

        def step_spec(name):
            return st.one_of(
                st.fixed_dictionaries({"name": st.just(name), "role": st.just("step"), "accepts": st.lists(ev_in, min_size=1, max_size=2, unique=True),
                                       "returns": st.lists(ev_out, min_size=0, max_size=3, unique=True), "skip": skip}),
                st.fixed_dictionaries({"name": st.just(name), "role": st.just("step"), "accepts": st.lists(ev_in, min_size=1, max_size=2, unique=True),
                                       "returns": st.lists(ev_out, min_size=0, max_size=3, unique=True), "skip": skip}),
                st.fixed_dictionaries({"name": st.just(name), "role": st.just("catch_error"),
                                       "for_steps": st.one_of(st.none(), st.lists(st.sampled_from(names + ["ghost"]), min_size=0, max_size=2)),
                                       "max_recoveries": st.integers(1, 3), "returns": st.lists(ev_out, min_size=0, max_size=2, unique=True)}),
            )

        free = st.integers(1, 6).flatmap(lambda n: st.tuples(*[step_spec(names[i]) for i in range(n)]).map(list))

        @st.composite
        def perturbed(draw):
            k = draw(st.integers(0, 3))
            chain = ["GStart"] + [f"E{i}" for i in range(k)] + ["GStop"]
            steps = []
            for i in range(len(chain) - 1):
                steps.append({"name": names[i], "role": "step", "accepts": [chain[i]], "returns": [chain[i + 1]], "skip": []})
            # optional extras that keep it valid
            if draw(st.booleans()) and len(steps) < 6:
                steps.append({"name": names[len(steps)], "role": "catch_error", "for_steps": draw(st.one_of(st.none(), st.just([steps[0]["name"]]))),
                              "max_recoveries": draw(st.integers(1, 3)), "returns": ["GStop"]})
            if draw(st.booleans()) and len(steps) < 6:
                steps.append({"name": names[len(steps)], "role": "step", "accepts": [draw(st.sampled_from(["Reply", "HumanResponseEvent"]))],
                              "returns": [draw(st.sampled_from(["GStop", "Ask", "InputRequiredEvent"]))], "skip": []})
            hitl_steps = [x for x in steps if x["role"] == "step" and x["accepts"][0] in ("Reply", "HumanResponseEvent")]
            if hitl_steps and draw(st.booleans()) and len(steps) < 6:
                # the human-in-the-loop events are ALSO handled inside the workflow: an audit step consumes the request,
                # and/or an auto-answer path produces the response type
                h = hitl_steps[0]
                if h["returns"][0] in ("Ask", "InputRequiredEvent") and draw(st.booleans()):
                    steps.append({"name": names[len(steps)], "role": "step", "accepts": [h["returns"][0]], "returns": [draw(st.sampled_from(["GStop", "GStop", "E3"]))] if draw(st.booleans()) else [], "skip": []})
                if draw(st.booleans()) and h["accepts"][0] == "Reply":
                    steps[0]["returns"].append("Reply")
            if draw(st.integers(0, 3)) == 0 and len(steps) <= 4:
                # a branch that leads nowhere: producer -> E3 -> sink; valid only when the producer skips the dead_end check
                src = draw(st.sampled_from(steps[: max(1, len(chain) - 1)]))
                if src["role"] == "step" and "E3" not in chain:
                    src["returns"].append("E3")
                    src["skip"] = draw(st.sampled_from([[], ["dead_end"], ["reachability"]]))
                    steps.append({"name": names[len(steps)], "role": "step", "accepts": ["E3"], "returns": [], "skip": []})
            waive = st.sampled_from([[], ["dead_end"], ["reachability"]])
            if draw(st.integers(0, 3)) == 0 and len(steps) <= 4 and "E3" not in chain:
                # a reachable cycle that never reaches an output event: valid only if its step waives the dead_end check
                steps[0]["returns"].append("E3")
                steps.append({"name": names[len(steps)], "role": "step", "accepts": ["E3"], "returns": ["E3"], "skip": draw(waive)})
            elif draw(st.integers(0, 3)) == 0 and len(steps) <= 4 and "E2" not in chain:
                # an unreachable island that can reach the stop event: valid only if its step waives the reachability check
                steps.append({"name": names[len(steps)], "role": "step", "accepts": ["E2"], "returns": ["E2", "GStop"], "skip": draw(waive)})
            if draw(st.integers(0, 5)) == 0 and len(steps) <= 5:
                # an otherwise reachable step that also accepts a stop event type which is NOT the workflow's own stop class (the base
                # StopEvent while the workflow produces a subclass): consuming any StopEvent is invalid
                tgt_ = draw(st.sampled_from([x for x in steps if x["role"] == "step"]))
                tgt_["accepts"] = list(tgt_["accepts"]) + ["StopEvent"]
            if draw(st.integers(0, 3)) == 0 and len(steps) <= 4:
                # two scoped handlers, possibly claiming the same step
                tgt = steps[0]["name"]
                other = steps[min(1, len(steps) - 1)]["name"]
                steps.append({"name": names[len(steps)], "role": "catch_error", "for_steps": [tgt], "max_recoveries": 1, "returns": ["GStop"]})
                steps.append({"name": names[len(steps)], "role": "catch_error", "for_steps": [draw(st.sampled_from([tgt, other]))], "max_recoveries": 2, "returns": ["GStop"]})
            # perturbations
            for _ in range(draw(st.integers(0, 2))):
                s = draw(st.sampled_from(steps))
                op = draw(st.sampled_from(["add_ret", "drop_ret", "add_acc", "swap_acc", "skip", "for_steps"]))
                if op == "add_ret":
                    v = draw(ev_out)
                    if v not in s["returns"]:
                        s["returns"].append(v)
                elif op == "drop_ret" and s["returns"]:
                    s["returns"].pop(draw(st.integers(0, len(s["returns"]) - 1)))
                elif op == "add_acc" and s["role"] == "step" and len(s["accepts"]) < 2:
                    v = draw(ev_in)
                    if v not in s["accepts"]:
                        s["accepts"].append(v)
                elif op == "swap_acc" and s["role"] == "step":
                    s["accepts"] = [draw(ev_in)]
                elif op == "skip" and s["role"] == "step":
                    s["skip"] = [draw(st.sampled_from(["reachability", "dead_end"]))]
                elif op == "for_steps" and s["role"] == "catch_error":
                    s["for_steps"] = draw(st.one_of(st.none(), st.lists(st.sampled_from(names + ["ghost"]), max_size=2)))
            return steps

        return st.fixed_dictionaries(
            {
                "steps": st.one_of(free, perturbed(), perturbed()),
                "wf_skip": st.lists(st.sampled_from(["reachability", "terminal_event", "dead_end"]), max_size=2, unique=True),
            }
        )

    # ---- reference validator (independent of validate.py)
    def reference(self, steps, wf_skip):
        """Returns (ok: bool, rules_violated: list[str], hitl: bool)."""
        E = self.E
        wev = self.m["wev"]
        sub = issubclass
        acc = {s["name"]: ([E[a] for a in s["accepts"]] if s["role"] == "step" else [wev.StepFailedEvent]) for s in steps}
        ret = {s["name"]: [E[r] for r in s["returns"]] for s in steps}
        bad = []
        starts = {a for n in acc for a in acc[n] if sub(a, wev.StartEvent)}
        stops = {r for n in ret for r in ret[n] if sub(r, wev.StopEvent)}
        if len(starts) != 1:
            bad.append("one_start")
        if len(stops) != 1:
            bad.append("one_stop")
        if any(sub(a, wev.StopEvent) for n in acc for a in acc[n]):
            bad.append("consumes_stop")
        start_cls = next(iter(starts)) if len(starts) == 1 else None
        produced = {r for n in ret for r in ret[n]} | ({start_cls} if start_cls else set())
        consumed = {a for n in acc for a in acc[n]}
        boundary_in = (wev.InputRequiredEvent, wev.HumanResponseEvent, wev.StopEvent, wev.StepFailedEvent)
        boundary_out = (wev.InputRequiredEvent, wev.HumanResponseEvent, wev.StopEvent)
        if any(not sub(x, boundary_in) for x in consumed - produced):
            bad.append("consumed_not_produced")
        if any(not sub(x, boundary_out) for x in produced - consumed):
            bad.append("produced_not_consumed")
        # handlers
        handlers = [s for s in steps if s["role"] == "catch_error"]
        hnames = {h["name"] for h in handlers}
        allnames = {s["name"] for s in steps}
        if sum(1 for h in handlers if h["for_steps"] is None) > 1:
            bad.append("two_wildcards")
        claimed = {}
        for h in handlers:
            for t in h["for_steps"] or []:
                if t not in allnames:
                    bad.append("handler_unknown_step")
                elif t in hnames:
                    bad.append("handler_covers_handler")
                elif t in claimed:
                    bad.append("step_claimed_twice")
                else:
                    claimed[t] = h["name"]
        # graph
        if start_cls is not None:
            ev_types = consumed | {r for n in ret for r in ret[n]}
            fwd_seeds = [start_cls] + [e for e in ev_types if sub(e, wev.HumanResponseEvent)] + list(hnames)
            out_edges = {}
            for n in acc:
                for a in acc[n]:
                    out_edges.setdefault(a, set()).add(n)
                for r_ in ret[n]:
                    out_edges.setdefault(n, set()).add(r_)
            in_edges = {}
            for a, bs in out_edges.items():
                for b in bs:
                    in_edges.setdefault(b, set()).add(a)

            def reach(seeds, edges):
                seen, todo = set(), list(seeds)
                while todo:
                    x = todo.pop()
                    if x in seen:
                        continue
                    seen.add(x)
                    todo.extend(edges.get(x, ()))
                return seen

            fwd = reach(fwd_seeds, out_edges)
            rev = reach([e for e in ev_types if sub(e, (wev.StopEvent, wev.InputRequiredEvent))], in_edges)
            sk = {s["name"]: set(s.get("skip") or []) for s in steps}
            if "reachability" not in wf_skip:
                if any(n not in fwd for n in allnames if "reachability" not in sk[n]):
                    bad.append("unreachable_step")
            if "terminal_event" not in wf_skip:
                for e in ev_types:
                    if not any(e in acc[n] for n in acc) and not sub(e, (wev.StopEvent, wev.InputRequiredEvent)):
                        bad.append("dangling_event")
                        break
            if "dead_end" not in wf_skip:
                if any(ret[n] and n not in rev for n in allnames if "dead_end" not in sk[n]):
                    bad.append("dead_end")
        hitl = any(sub(x, wev.InputRequiredEvent) for x in produced) or any(sub(x, wev.HumanResponseEvent) for x in consumed)
        return (not bad), sorted(set(bad)), hitl

    def build(self, steps, wf_skip):
        m = self.m
        E = self.E
        members = {}
        for s in steps:
            async def body(self, ctx, ev):
                return None

            body.__name__ = s["name"]
            body.__qualname__ = f"V.{s['name']}"
            acc = [E[a] for a in s["accepts"]] if s["role"] == "step" else [m["wev"].StepFailedEvent]
            rets = tuple(E[r] for r in s["returns"]) + (type(None),)
            body.__annotations__ = {"ctx": m["Context"], "ev": typing.Union[tuple(acc)] if len(acc) > 1 else acc[0], "return": typing.Union[rets]}
            if s["role"] == "step":
                members[s["name"]] = m["step"](skip_graph_checks=list(s.get("skip") or []))(body)
            else:
                members[s["name"]] = m["catch_error"](for_steps=s["for_steps"], max_recoveries=s["max_recoveries"])(body)
        cls = type("V", (m["Workflow"],), members)
        return cls(timeout=None, skip_graph_checks=set(wf_skip) or None)

    def run_case(self, case):
        r = CaseResult()
        steps, wf_skip = case["steps"], case["wf_skip"]
        werr = self.m["werr"]
        want_ok, rules, want_hitl = self.reference(steps, wf_skip)
        got_ok, got_hitl, err = True, None, None
        try:
            wf = self.build(steps, wf_skip)
            got_hitl = wf.validate()
        except (werr.WorkflowValidationError, werr.WorkflowConfigurationError) as e:
            got_ok, err = False, str(e)[:80]
        if got_ok != want_ok:
            r.v("accept_reject_mismatch", code_accepts=got_ok, reference_rules=rules, code_error=err)
        elif got_ok and bool(got_hitl) != want_hitl:
            exact_only = any(s_ in ("InputRequiredEvent",) for s in steps for s_ in s["returns"]) or any(
                a == "HumanResponseEvent" for s in steps if s["role"] == "step" for a in s["accepts"]
            )
            r.v("hitl_flag", got=bool(got_hitl), want=want_hitl, base_class_present=exact_only)
        r.classes.append("accepted" if want_ok else "rejected")
        for x in rules:
            r.classes.append("rule_" + x)
        special = any(s["role"] == "catch_error" for s in steps) or want_hitl or wf_skip or any(s.get("skip") for s in steps)
        r.nontrivial = (not want_ok and len(rules) == 1) or (want_ok and bool(special))
        return r


PROP = C23
