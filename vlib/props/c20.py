"""C20 — concurrent state updates are never lost (generated schedules, serializability oracle)."""

from __future__ import annotations

import asyncio
import copy
import json
import os
import shutil
import tempfile

from hypothesis import strategies as st
from pydantic import BaseModel, Field

from .. import boot
from ..runner import CaseResult, Prop

# fixed, type-stable key space: "a","b","cnt" hold ints, "log" a list, "n" a dict of ints
INIT_VALUES = {"a": 1, "cnt": 5, "log": ["i"], "n": {"x": 7}}
STATE_KEYS = ["a", "cnt", "log", "n"]
PUT_KEYS = ["a", "b"]
BACKENDS = ["memory", "sqlite"]

# typed state with inheritance (model == "typed"): same key space, every key has a default that equals what the
# DictState operations assume for an absent key (0 / [] / {}), so the two models share one operation semantics
TYPED_DEFAULTS = {"a": 0, "b": 0, "cnt": 0, "log": [], "n": {}}
BASE_FIELDS = ("a", "log")  # fields of the parent type; b, cnt, n exist on the child type only
CHILD_ONLY = ("b", "cnt", "n")


class C20Base(BaseModel):
    """Parent state type (what an inherited base-workflow step passes to set_state)."""

    a: int = 0
    log: list[str] = Field(default_factory=list)


class C20Child(C20Base):
    """State type of the store; module-level so that JsonSerializer can re-import it by qualified name."""

    b: int = 0
    cnt: int = 0
    n: dict[str, int] = Field(default_factory=dict)


def canon(obj) -> str:
    return json.dumps(obj, sort_keys=True, separators=(",", ":"))


def uniq(ti: int, oi: int, mi: int = 0) -> int:
    """A value that names the operation that wrote it (so overwritten writes are visible)."""
    return 1000 * (ti + 1) + 10 * oi + mi


def set_value(path: str, ti: int, oi: int):
    """Value written by set(path, ...): type-stable per key ("log" stays a list)."""
    return [f"s{ti}.{oi}"] if path == "log" else uniq(ti, oi)


def whole_for(keys, ti, oi) -> dict:
    v = uniq(ti, oi)
    out = {}
    for k in sorted(set(keys)):
        if k in ("a", "cnt"):
            out[k] = v
        elif k == "log":
            out[k] = [f"s{ti}.{oi}"]
        elif k == "n":
            out[k] = {"x": v}
    return out


def parent_for(ti, oi) -> dict:
    """Field values of set_state(C20Base(...)): every parent field is given explicitly (and names its writer)."""
    return {"a": uniq(ti, oi), "log": [f"p{ti}.{oi}"]}


def typed_full(values: dict) -> dict:
    out = copy.deepcopy(TYPED_DEFAULTS)
    out.update(values)
    return out


def child_only_writer(op) -> bool:
    """Does this edit_state block write a field that exists only on the child type?"""
    return any((m[0] in ("incr", "put") and m[1] in CHILD_ONLY) for m in op.get("muts", []))


# ------------------------------------------------------------------ reference model (plain dicts)


def apply_block(state: dict, muts, ti, oi) -> dict:
    """edit_state as ONE atomic operation: everything written is a function of the state read.

    Never mutates `state` (nor anything nested in it): only top-level keys of a shallow copy are rebound.
    """
    snap = state
    new = dict(state)
    for mi, m in enumerate(muts):
        if m[0] == "incr":
            new[m[1]] = snap.get(m[1], 0) + 1
        elif m[0] == "append":
            new["log"] = list(snap.get("log", [])) + [f"e{ti}.{oi}.{mi}"]
        elif m[0] == "put":
            new[m[1]] = uniq(ti, oi, mi + 1)
    return new


def apply_op(state: dict, op, ti, oi, typed: bool = False) -> dict:
    """One operation applied atomically.  typed: the state always carries all five keys (model defaults)."""
    k = op["k"]
    if k == "set":
        new = dict(state)
        segs = op["path"].split(".")
        if len(segs) == 1:
            new[segs[0]] = set_value(op["path"], ti, oi)
        else:
            inner = dict(new.get(segs[0], {}))
            inner[segs[1]] = set_value(op["path"], ti, oi)
            new[segs[0]] = inner
        return new
    if k == "set_state":
        whole = whole_for(op.get("keys", []), ti, oi)
        return typed_full(whole) if typed else whole
    if k == "set_state_parent":
        # parent-type form: the parent's fields are merged onto the current state, child-only fields are kept
        new = dict(state)
        new.update(parent_for(ti, oi))
        return new
    return apply_block(state, op.get("muts", []), ti, oi)


def serial_results(init: dict, tasks, typed: bool = False, status=None) -> set[str]:
    """Final states of every interleaving that respects per-task order (forward DP over the position lattice).

    status[ti][oi] (optional): "done" = the call returned normally, the operation is part of every serial witness;
    "skip" = the call was cancelled and provably wrote nothing (did not happen: identity); "maybe" = the call was
    cancelled and the harness cannot tell whether it had obtained the lock (both outcomes accepted for that one operation).
    """
    lens = tuple(len(t) for t in tasks)
    start = tuple(0 for _ in tasks)
    layer = {start: {canon(init)}}
    for _ in range(sum(lens)):
        nxt: dict[tuple, set[str]] = {}
        for pos in sorted(layer):
            for s in sorted(layer[pos]):
                state = None
                for ti in range(len(tasks)):
                    if pos[ti] < lens[ti]:
                        oi = pos[ti]
                        npos = pos[:ti] + (oi + 1,) + pos[ti + 1 :]
                        stt = status[ti][oi] if status is not None else "done"
                        out = nxt.setdefault(npos, set())
                        if stt != "done":
                            out.add(s)
                            if stt == "skip":
                                continue
                        if state is None:
                            state = json.loads(s)
                        out.add(canon(apply_op(state, tasks[ti][oi], ti, oi, typed)))
        layer = nxt
    return layer.get(lens, {canon(init)})


class C20(Prop):
    id = "C20"
    rule = (
        "case = 2-4 concurrent tasks, each 1-3 operations on one state store of one run: set(path, v) with path in cnt,log,a,b,n.x,n.y; "
        "set_state(whole new state); edit_state{read early or late; 0-2 suspension points, each 1-4 x asyncio.sleep(0), a harness gate or "
        "asyncio.sleep(1-4 virtual ms); "
        "write f(read): increments, appends, puts}; plus a generated schedule (0-3 loop yields before every operation, the order in which the "
        "harness opens the gates, how long it lets the loop run in between, and 0/2/6 virtual ms before it opens every remaining gate) and a "
        "generated initial state (row absent / some keys). Cancellation dimension (half of the cases; there every call has a 1-in-2 chance): "
        "the caller gives up on a call at a generated instant -- either the call runs as its own task that is task.cancel()ed 1-6 loop yields "
        "after it was started, or it is wrapped in asyncio.wait_for(call, timeout=1-3 virtual ms); the task then goes on with its next "
        "operations, so a call can be cancelled while it is queued for the store lock behind another task's suspended edit_state block (or "
        "inside its own block, before it wrote anything) and later writes follow while that block is still open. The state "
        "model is generated too: DictState, or a typed pydantic state with inheritance (store state type C20Child(C20Base): parent fields a, log; "
        "child-only fields b, cnt, n; all with defaults) -- typed cases additionally issue the documented parent-type form "
        "set_state(C20Base(a=.., log=..)), whose serial meaning is 'parent fields replaced, child-only fields kept'. Every "
        "written value names its writer and increments/appends are order-revealing. The same case runs on one InMemoryStateStore object and on "
        "one SqliteStateStore object obtained from SqliteWorkflowStore.create_state_store(run_id) (the server creates and caches exactly one "
        "store object per run, so per-task store objects are not generated). Oracle: the observed final state (read back through get_state) "
        "must equal the final state of at least one serial execution of the same operations that respects each task's own order, every "
        "edit_state block counting as one atomic operation (all interleavings enumerated by a forward DP over task positions). A call that "
        "returned normally is a completed operation and is part of every serial witness (so a completed write can never be missing); a call that "
        "ended in CancelledError/TimeoutError is not one of 'the same operations' if it provably wrote nothing (an edit_state call whose block "
        "never ran or was cancelled before its first write: identity in the reference), and may or may not have happened when the harness "
        "cannot tell (cancelled set/set_state: both outcomes accepted for that one operation, per backend run). Non-trivial = "
        "on at least one backend, while an edit_state block was suspended between its read and its write, another task invoked "
        "set/set_state/edit_state on the same store (whether that call may complete inside the window is exactly what the store decides). "
        "Class labels parent_set_state_behind_open_block / ..._behind_child_field_writer count the typed cases where a parent-type set_state was "
        "invoked while another task's block (one that writes a child-only field) held the store lock; cancelled_call / "
        "cancelled_by_wait_for_timeout / cancelled_inside_own_block / cancelled_while_queued_behind_open_block count the cancellation shapes per "
        "backend, and write_follows_cancelled_waiter_in_open_block counts the cases where, after a queued call was cancelled behind an open "
        "block, another write was already queued or was invoked while that same block was still open."
    )
    assumptions = [
        "single event loop; InMemoryStateStore and SqliteStateStore are thread-free (the sqlite3 calls run synchronously on the loop, no "
        "to_thread/run_in_executor), so a schedule is a pure function of the case on the FIFO asyncio ready queue",
        "two state models: DictState, and one fixed typed pair C20Child(C20Base) defined in this module (JsonSerializer re-imports it by qualified "
        "name); typed defaults (0, [], {}) equal what the operations assume for an absent DictState key, so both models share one reference "
        "semantics; a parent-type set_state always gives every parent field explicitly, so the oracle does not depend on how unset parent "
        "fields are merged; values are ints, lists of str and one nested dict, all JSON round-trip safe",
        "one store object per run per backend, as _ServerInternalRunAdapter.get_state_store caches it; SQLite store in default (multi-connection) "
        "mode on a per-case temp directory (on /dev/shm when available, only to avoid fsync cost)",
        "only the final state is judged (the property's observe_at); cross-task real-time order is not imposed on the serial witness",
        "operations never raise by construction (the only exceptions are the generated cancellations, caught by the cancelling caller as a "
        "step would catch TimeoutError); an operation that raises anything else or never completes is reported under its own violation kind",
        "inside a block every write to the state object happens after the block's last suspension point, so a block cancelled at a suspension "
        "point has written nothing on either store (the in-memory store hands out its live state object); the harness still records whether a "
        "cancelled block had started writing and then accepts both outcomes",
        "virtual-time waits (timed suspension, wait_for timeout, gate hold) run on the VLoop clock: timers fire only when no task is runnable, "
        "in deadline order -- deterministic per case",
    ]
    budgets = {"quick": 1200, "thorough": 2000}
    wall = {"quick": 50.0, "thorough": 480.0}

    def setup(self):
        boot.seed_llama_agents()
        from llama_agents.server._store.sqlite.sqlite_workflow_store import SqliteWorkflowStore
        from workflows.context.state_store import DictState, InMemoryStateStore

        self.DictState = DictState
        self.Mem = InMemoryStateStore
        self.SqlWS = SqliteWorkflowStore
        shm = "/dev/shm"
        self.tmpbase = shm if os.path.isdir(shm) and os.access(shm, os.W_OK) else None

    # ------------------------------------------------------------------ generator

    def strategy(self, tier):
        pre = st.integers(0, 3)
        sus_y = st.tuples(st.just("y"), st.integers(1, 4)).map(list)
        sus_g = st.tuples(st.just("g"), st.integers(0, 3)).map(list)
        # third suspension kind: the block awaits something that takes virtual time (asyncio.sleep(k ms))
        sus_t = st.tuples(st.just("t"), st.integers(1, 4)).map(list)
        sus = st.one_of(sus_y, sus_g, sus_y, sus_g, sus_t)
        # cancellation of an operation by its caller: ["c", n] = the operation runs as its own task that is
        # task.cancel()ed after n loop yields; ["t", k] = asyncio.wait_for(operation, timeout = k virtual ms)
        cx_some = st.one_of(
            st.none(),
            st.none(),
            st.none(),
            st.tuples(st.just("c"), st.integers(1, 6)).map(list),
            st.tuples(st.just("c"), st.integers(1, 6)).map(list),
            st.tuples(st.just("t"), st.integers(1, 3)).map(list),
        )
        # how long (virtual ms) the harness waits after its gate schedule before it opens every remaining gate
        hold = st.sampled_from([0, 0, 0, 2, 6])
        any_mut = st.one_of(
            st.tuples(st.just("incr"), st.sampled_from(["cnt", "a"])).map(list),
            st.just(["append"]),
            st.tuples(st.just("put"), st.sampled_from(PUT_KEYS)).map(list),
        )
        any_path = st.sampled_from(["cnt", "log", "a", "b", "n.x", "n.y"])
        sched = st.lists(st.tuples(st.integers(0, 3), st.integers(0, 5)).map(list), max_size=6)
        init = st.one_of(st.none(), st.lists(st.sampled_from(STATE_KEYS), unique=True, max_size=4).map(sorted))

        def for_hot(hm):
            hot, model, flavor = hm
            cx = cx_some if flavor == "cancel" else st.none()
            # every case has one "hot" key that most writers touch, so that read-modify-write blocks and plain
            # writes really collide (a lost update is only visible on a key both sides use)
            hot_mut = st.just(["append"] if hot == "log" else ["incr", hot])
            mut = st.one_of(hot_mut, hot_mut, hot_mut, any_mut)
            edit = st.fixed_dictionaries(
                {
                    "k": st.just("edit"),
                    "rd": st.sampled_from(["early", "early", "early", "late"]),
                    "sus": st.lists(sus, min_size=0, max_size=2),
                    "muts": st.lists(mut, min_size=1, max_size=3),
                    "pre": pre,
                    "cx": cx,
                }
            )
            set_ = st.fixed_dictionaries(
                {"k": st.just("set"), "path": st.one_of(st.just(hot), st.just(hot), any_path), "pre": pre, "cx": cx}
            )
            set_state = st.fixed_dictionaries(
                {
                    "k": st.just("set_state"),
                    "keys": st.lists(st.sampled_from(STATE_KEYS), unique=True, max_size=4).map(sorted),
                    "pre": pre,
                    "cx": cx,
                }
            )
            if model == "typed":
                # parent-type form of set_state (merge path): only meaningful on a typed store with an inherited state type
                pset = st.fixed_dictionaries({"k": st.just("set_state_parent"), "pre": pre, "cx": cx})
                op = st.one_of(edit, edit, edit, set_, set_, set_state, pset, pset)
            else:
                op = st.one_of(edit, edit, edit, set_, set_, set_state)
            tasks = st.lists(st.lists(op, min_size=1, max_size=3), min_size=2, max_size=4)
            return st.fixed_dictionaries({"model": st.just(model), "init": init, "tasks": tasks, "sched": sched, "hold": hold})

        # half of the cases have no cancellation at all (every call returns), in the other half every call has a 1-in-2 chance of a generated cancellation
        flavor = st.sampled_from(["plain", "cancel"])
        # typed cases favour the child-only hot key (a parent-type set_state must keep it)
        dict_cases = st.tuples(st.sampled_from(["cnt", "a", "log"]), st.just("dict"), flavor)
        typed_cases = st.tuples(st.sampled_from(["cnt", "cnt", "a", "log"]), st.just("typed"), flavor)
        return st.one_of(dict_cases, typed_cases).flatmap(for_hot)

    # ------------------------------------------------------------------ one backend

    def _run_backend(self, backend, case, init, r):
        """Runs the case on one backend; returns (final_state | None, stats)."""
        DictState = self.DictState
        tasks = case["tasks"]
        typed = case.get("model", "dict") == "typed"

        def make_state(values: dict):
            return C20Child(**copy.deepcopy(values)) if typed else DictState(**copy.deepcopy(values))

        def read_all(s) -> dict:
            return copy.deepcopy(s.model_dump() if typed else dict(s.items()))

        def put(s, key, value):
            if typed:
                setattr(s, key, value)
            else:
                s[key] = value

        stats = {
            "contention": False,  # a write op was invoked while another task's block was open
            "intruders": set(),  # op kinds that COMPLETED while another task's block was open
            "two_blocks_open": False,
            "raised": False,
            "pset_behind_block": False,  # parent-type set_state invoked while another task's block was open
            "pset_behind_child_writer": False,  # ... and that block writes a child-only field
            "cancelled": [],  # "<ti>.<oi>:<kind>" of every call that ended in cancellation
            "cancel_in_own_block": False,  # an edit_state call was cancelled while suspended inside its own block
            "cancel_queued_behind_block": False,  # a call was cancelled before entering, while another task's block was open
            "write_follows_cancelled_waiter": False,  # ... and, that block still open, another write was queued or invoked later
            "timed_cancel": False,
        }
        # per-operation outcome for the serial reference: done / skip (cancelled, wrote nothing) / maybe (cancelled, unknown)
        status = [["done"] * len(ops) for ops in tasks]
        tmp = None
        try:
            if backend == "memory":
                store = self.Mem(C20Child() if typed else DictState())
            else:
                tmp = tempfile.mkdtemp(prefix="c20-", dir=self.tmpbase)
                ws = self.SqlWS(os.path.join(tmp, "wf.db"))
                # as _ServerInternalRunAdapter.get_state_store: create_state_store(run_id, state_type)
                store = ws.create_state_store("run-1", C20Child) if typed else ws.create_state_store("run-1")

            async def main():
                if case["init"] is not None:
                    await store.set_state(make_state(init))
                gates: dict[int, asyncio.Event] = {}
                flags = {"open_all": False}
                open_blocks: set[int] = set()
                open_ops: dict[int, dict] = {}
                open_ids: dict[int, tuple] = {}  # task -> (ti, oi) of its open block
                pending: set[tuple] = set()  # calls invoked and not yet returned / cancelled
                armed: set[tuple] = set()  # open blocks behind which a queued call has been cancelled

                def gate(g):
                    ev = gates.get(g)
                    if ev is None:
                        ev = gates[g] = asyncio.Event()
                        if flags["open_all"]:
                            ev.set()
                    return ev

                async def block(ti, oi, op, info):
                    async with store.edit_state() as s:
                        info["entered"] = True
                        if open_blocks - {ti}:
                            stats["two_blocks_open"] = True
                        open_blocks.add(ti)
                        open_ops[ti] = op
                        open_ids[ti] = (ti, oi)
                        try:
                            snap = None
                            if op.get("rd") != "late":
                                snap = read_all(s)
                            for su in op.get("sus", []):
                                if su[0] == "y":
                                    for _ in range(su[1]):
                                        await asyncio.sleep(0)
                                elif su[0] == "t":
                                    await asyncio.sleep(su[1] * 0.001)
                                else:
                                    await gate(su[1]).wait()
                            if snap is None:
                                snap = read_all(s)
                            for mi, m in enumerate(op.get("muts", [])):
                                info["mutated"] = True
                                if m[0] == "incr":
                                    put(s, m[1], snap.get(m[1], 0) + 1)
                                elif m[0] == "append":
                                    put(s, "log", list(snap.get("log", [])) + [f"e{ti}.{oi}.{mi}"])
                                elif m[0] == "put":
                                    put(s, m[1], uniq(ti, oi, mi + 1))
                        finally:
                            open_blocks.discard(ti)
                            open_ops.pop(ti, None)
                            armed.discard(open_ids.pop(ti, None))

                async def call(ti, oi, op, info):
                    """The store call itself; the CancelledError handler only records where the cancellation landed."""
                    try:
                        if op["k"] == "set":
                            await store.set(op["path"], set_value(op["path"], ti, oi))
                        elif op["k"] == "set_state":
                            await store.set_state(make_state(whole_for(op.get("keys", []), ti, oi)))
                        elif op["k"] == "set_state_parent":
                            await store.set_state(C20Base(**parent_for(ti, oi)))
                        else:
                            await block(ti, oi, op, info)
                    except asyncio.CancelledError:
                        if op.get("cx") and not info.get("noted"):
                            info["noted"] = True
                            if info["entered"]:
                                stats["cancel_in_own_block"] = True
                            else:
                                others = sorted(open_blocks - {ti})
                                if others:
                                    stats["cancel_queued_behind_block"] = True
                                    armed.update(open_ids[t] for t in others)
                                    if pending - {(ti, oi)} - set(open_ids.values()):
                                        stats["write_follows_cancelled_waiter"] = True
                        raise

                async def run_task(ti, ops):
                    for oi, op in enumerate(ops):
                        for _ in range(op.get("pre", 0)):
                            await asyncio.sleep(0)
                        others = sorted(open_blocks - {ti})
                        if others:
                            stats["contention"] = True
                            if any(open_ids[t] in armed for t in others):
                                stats["write_follows_cancelled_waiter"] = True
                            if op["k"] == "set_state_parent":
                                stats["pset_behind_block"] = True
                                if any(child_only_writer(open_ops[t]) for t in others):
                                    stats["pset_behind_child_writer"] = True
                        cx = op.get("cx")
                        info = {"entered": False, "mutated": False}
                        cancelled = False
                        pending.add((ti, oi))
                        try:
                            if not cx:
                                await call(ti, oi, op, info)
                            elif cx[0] == "c":
                                # the call runs as its own task (a step worker); the caller cancels it n loop yields later
                                child = asyncio.ensure_future(call(ti, oi, op, info))
                                try:
                                    for _ in range(cx[1]):
                                        if child.done():
                                            break
                                        await asyncio.sleep(0)
                                    child.cancel()
                                    await child
                                except asyncio.CancelledError:
                                    if not child.cancelled():
                                        child.cancel()
                                        raise
                                    cancelled = True
                            else:
                                try:
                                    await asyncio.wait_for(call(ti, oi, op, info), timeout=cx[1] * 0.001)
                                except asyncio.TimeoutError:
                                    cancelled = True
                                    stats["timed_cancel"] = True
                        except asyncio.CancelledError:
                            raise
                        except Exception as e:  # noqa: BLE001
                            stats["raised"] = True
                            r.v("operation_raised", backend=backend, op=op["k"], err=f"{type(e).__name__}: {e}"[:120])
                            return
                        finally:
                            pending.discard((ti, oi))
                        if cancelled:
                            stats["cancelled"].append(f"{ti}.{oi}:{op['k']}")
                            if op["k"] == "edit" and not info["mutated"]:
                                # never entered its block, or was cancelled inside it before the first write to the state object
                                status[ti][oi] = "skip"
                            else:
                                status[ti][oi] = "maybe"
                            continue
                        if open_blocks - {ti}:
                            stats["intruders"].add(op["k"])

                async def driver():
                    for g, settle in case.get("sched", []):
                        for _ in range(settle):
                            await asyncio.sleep(0)
                        gate(g).set()
                    for _ in range(3):
                        await asyncio.sleep(0)
                    if case.get("hold"):
                        await asyncio.sleep(case["hold"] * 0.001)
                    flags["open_all"] = True
                    for g in sorted(gates):
                        gates[g].set()

                ts = [asyncio.create_task(run_task(ti, ops)) for ti, ops in enumerate(tasks)]
                ts.append(asyncio.create_task(driver()))
                await asyncio.gather(*ts)
                final = await store.get_state()
                return json.loads(json.dumps(read_all(final)))

            final, quiescent = boot.run_virtual(main)
            if quiescent:
                r.v("operations_never_completed", backend=backend, cancelled=stats["cancelled"])
                return None, stats, status
            return final, stats, status
        finally:
            if tmp:
                shutil.rmtree(tmp, ignore_errors=True)

    # ------------------------------------------------------------------ case

    def run_case(self, case):
        r = CaseResult()
        tasks = case["tasks"]
        typed = case.get("model", "dict") == "typed"
        init = {k: copy.deepcopy(INIT_VALUES[k]) for k in (case["init"] or [])}
        init_full = typed_full(init) if typed else init
        expected_all_done = serial_results(init_full, tasks, typed)
        by_status: dict[str, set[str]] = {}
        nontrivial = False
        for backend in BACKENDS:
            final, stats, status = self._run_backend(backend, case, init, r)
            if any(x != "done" for row in status for x in row):
                # cancelled calls: "did not happen" (skip) or "either" (maybe) in the serial reference of THIS backend's run
                key = canon(status)
                if key not in by_status:
                    by_status[key] = serial_results(init_full, tasks, typed, status)
                expected = by_status[key]
            else:
                expected = expected_all_done
            if stats["contention"]:
                nontrivial = True
                r.classes.append(f"contention:{backend}")
            if stats["intruders"]:
                r.classes.append(f"write_completed_inside_open_block:{backend}")
            if stats["pset_behind_block"]:
                r.classes.append(f"parent_set_state_behind_open_block:{backend}")
            if stats["pset_behind_child_writer"]:
                r.classes.append(f"parent_set_state_behind_child_field_writer:{backend}")
            if stats["cancelled"]:
                r.classes.append(f"cancelled_call:{backend}")
            if stats["timed_cancel"]:
                r.classes.append(f"cancelled_by_wait_for_timeout:{backend}")
            if stats["cancel_in_own_block"]:
                r.classes.append(f"cancelled_inside_own_block:{backend}")
            if stats["cancel_queued_behind_block"]:
                r.classes.append(f"cancelled_while_queued_behind_open_block:{backend}")
            if stats["write_follows_cancelled_waiter"]:
                r.classes.append(f"write_follows_cancelled_waiter_in_open_block:{backend}")
            if final is None or stats["raised"]:
                continue
            if canon(final) not in expected:
                r.v(
                    "final_state_not_serializable",
                    backend=backend,
                    model="typed" if typed else "dict",
                    intruders=sorted(stats["intruders"]),
                    two_blocks_open=stats["two_blocks_open"],
                    cancelled=stats["cancelled"],
                    cancelled_waiter_behind_open_block=stats["cancel_queued_behind_block"],
                    observed=canon(final)[:300],
                    n_serial_results=len(expected),
                    a_serial_result=sorted(expected)[0][:300],
                )
        r.nontrivial = nontrivial
        r.classes.append(f"tasks_{len(tasks)}")
        r.classes.append("model:typed" if typed else "model:dict")
        if len(expected_all_done) > 1:
            r.classes.append("order_revealing(>1 serial result)")
        if any(op.get("cx") for t in tasks for op in t):
            r.classes.append("has_cancellation")
        if case.get("hold"):
            r.classes.append("gates_held_in_virtual_time")
        kinds = {op["k"] for t in tasks for op in t}
        for k in sorted(kinds):
            r.classes.append(f"has_{k}")
        if any(op["k"] == "edit" and any(su[0] == "g" for su in op.get("sus", [])) for t in tasks for op in t):
            r.classes.append("gate_suspension")
        if any(op["k"] == "edit" and any(su[0] == "t" for su in op.get("sus", [])) for t in tasks for op in t):
            r.classes.append("timed_suspension")
        return r


PROP = C20
